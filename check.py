#!/venv/bin/python
"""Entry point: check.py <Cxx> [--tier quick|thorough] [--root /repo] ; check.py --replay <path>

Exit codes: 0 property clause holds on everything analysed; 1 violation (a line
``VIOLATION property=<id> replay=<path>`` per report not listed in
known_findings.json); 2 ANALYSIS-ERROR (the analyser cannot decide).
"""
import argparse
import importlib
import json
import os
import sys
import time
import traceback

HERE = os.path.dirname(os.path.abspath(__file__))
sys.path.insert(0, HERE)

from sa.index import Index, AnalysisError  # noqa: E402
from sa.report import Ctx, finish  # noqa: E402


def run_property(prop, tier='quick', root='/repo', overlay=None, quiet=False, write=True):
    t0 = time.time()
    ctx = Ctx(prop, None, tier)
    err = None
    try:
        index = Index(root, overlay=overlay)
        ctx.index = index
        mod = importlib.import_module('sa.rules.%s' % prop)
        mod.run(ctx)
        if tier == 'thorough' and hasattr(mod, 'run_thorough'):
            mod.run_thorough(ctx)
        ctx.check_unrecognised()
        ctx.check_floors()
    except AnalysisError as exc:
        err = exc
    except Exception as exc:  # a traceback is never a verdict
        err = AnalysisError('internal error: %s: %s | %s' % (type(exc).__name__, exc,
                                                              traceback.format_exc().strip().splitlines()[-3:]))
        if os.environ.get('VERIF_DEBUG'):
            traceback.print_exc()
    selftest = None
    if tier == 'thorough' and err is None and write:
        try:
            from sa import selftest as st
            selftest = st.run_for_property(prop, root)
        except Exception as exc:
            selftest = dict(error='%s: %s' % (type(exc).__name__, exc))
    if not write:
        return ctx, err
    return finish(ctx, t0, error=err, selftest=selftest, quiet=quiet)


def main(argv=None):
    ap = argparse.ArgumentParser()
    ap.add_argument('prop', nargs='?')
    ap.add_argument('--tier', default=os.environ.get('VERIF_TIER', 'quick'), choices=['quick', 'thorough'])
    ap.add_argument('--root', default=os.environ.get('VERIF_REPO', '/repo'))
    ap.add_argument('--replay')
    args = ap.parse_args(argv)
    if args.replay:
        with open(args.replay) as fh:
            rep = json.load(fh)
        prop = rep['property']
        ctx, err = run_property(prop, 'quick', args.root, write=False)
        if err is not None:
            print('ANALYSIS-ERROR property=%s %s' % (prop, err))
            return 2
        hits = [r for r in ctx.reports if r.rule == rep['rule'] and r.construct == rep['construct']]
        if hits:
            for r in hits:
                print('VIOLATION property=%s replay=%s' % (prop, args.replay))
                print('  ' + r.line())
            return 1
        print('OK property=%s rule=%s construct=%s no longer fires' % (prop, rep['rule'], rep['construct']))
        return 0
    if not args.prop:
        ap.error('property id required')
    return run_property(args.prop, args.tier, args.root)


if __name__ == '__main__':
    sys.exit(main())
