"""E10 - testing the checker both ways.

Witnesses: in-memory edits of the *current* /repo source (an overlay; nothing touches disk) that break one
rule instance - the rule must fire.  Twins: behaviour-preserving edits of the same constructs - every rule of the
property must stay silent.  A witness whose anchor text is not found (the tree was edited) is ``skipped``.
The verdict of a check never depends on this self-test; it is reported in the evidence of the thorough tier,
and ``python -m sa.selftest`` exits non-zero when a witness does not fire or a twin alarms (development aid).
"""
import os
import sys
from concurrent.futures import ProcessPoolExecutor

HERE = os.path.dirname(os.path.dirname(os.path.abspath(__file__)))
if HERE not in sys.path:
    sys.path.insert(0, HERE)


def apply_unified_diff(root, patch_text):
    """Apply a unified diff to the current files in memory -> {relpath: new text}, or None if a hunk does not match."""
    import re
    overlay = {}
    files = re.split(r'^diff --git ', patch_text, flags=re.M)[1:]
    if not files:
        # plain `diff -u` output: one block per `--- a/...` header
        files = re.split(r'^(?=--- a/)', patch_text, flags=re.M)[1:]
    for blk in files:
        m = re.search(r'^\+\+\+ b/(.*)$', blk, flags=re.M)
        if not m:
            continue
        rel = m.group(1).strip()
        full = os.path.join(root, rel)
        if not os.path.exists(full):
            return None
        lines = open(full, encoding='utf8').read().split('\n')
        heads = re.findall(r'^@@ -(\d+)(?:,\d+)? \+(\d+)(?:,\d+)? @@.*$', blk, flags=re.M)
        hunks = re.split(r'^@@ .*?@@.*$', blk, flags=re.M)[1:]
        shift = 0
        for k, h in enumerate(hunks):
            hl = h.split('\n')[1:]
            if hl and hl[-1] == '':
                hl = hl[:-1]
            old = [x[1:] for x in hl if x[:1] in (' ', '-')]
            new = [x[1:] for x in hl if x[:1] in (' ', '+')]
            pos = [i for i in range(len(lines) - len(old) + 1) if lines[i:i + len(old)] == old]
            if not pos:
                return None
            if len(pos) > 1:
                # twin code (two classes with the same method body): take the occurrence nearest to the line the hunk names
                if k >= len(heads):
                    return None
                want = int(heads[k][0]) - 1 + shift
                pos.sort(key=lambda i: abs(i - want))
                if len(pos) > 1 and abs(pos[0] - want) == abs(pos[1] - want):
                    return None
            lines[pos[0]:pos[0] + len(old)] = new
            shift += len(new) - len(old)
        overlay[rel] = '\n'.join(lines)
    return overlay


def _apply(root, case):
    if case.get('patch'):
        with open(case['patch'], encoding='utf8') as fh:
            return apply_unified_diff(root, fh.read())
    overlay = {}
    for rel, old, new in case['edits']:
        full = os.path.join(root, rel)
        if rel in overlay:
            src = overlay[rel]
        else:
            if not os.path.exists(full):
                return None
            with open(full, encoding='utf8') as fh:
                src = fh.read()
        if src.count(old) != 1:
            return None
        overlay[rel] = src.replace(old, new)
    return overlay


def _run_case(args):
    root, case = args
    from check import run_property
    overlay = _apply(root, case)
    if overlay is None:
        return case['id'], 'skipped', 'anchor text not found exactly once'
    ctx, err = run_property(case['prop'], 'quick', root, overlay=overlay, write=False)
    from sa.report import load_known
    known = {(e['property'], e['rule'], e['construct']) for e in load_known() if e.get('status') == 'finding'}
    reports = [r for r in ctx.reports if r.key not in known]
    if case['kind'] == 'witness':
        if err is not None:
            if case.get('expect') == 'ANALYSIS-ERROR':
                return case['id'], 'fired', 'analysis error (expected): %s' % err
            return case['id'], 'error', str(err)
        exp = case['expect'] if isinstance(case['expect'], (list, tuple)) else [case['expect']]
        hits = [r for r in reports if any(r.rule.startswith(e) for e in exp)]
        if hits:
            return case['id'], 'fired', hits[0].line()[:300]
        return case['id'], 'MISSED', 'no report of %s (other reports: %s)' % (case['expect'], [r.rule for r in reports][:5])
    else:
        if err is not None:
            return case['id'], 'ALARM', 'analysis error on a twin: %s' % err
        if reports:
            return case['id'], 'ALARM', reports[0].line()[:300]
        return case['id'], 'silent', ''


def cases_for(prop=None):
    from sa import witnesses
    out = []
    for c in witnesses.CASES:
        if prop is None or c['prop'] == prop:
            out.append(c)
    # confirmed seeded changes of independent sub-agents that some check detects: one witness per detecting property
    import glob
    import json
    for mf in sorted(glob.glob(os.path.join(HERE, 'seeded', '*', 'meta.json'))):
        meta = json.load(open(mf))
        for p in meta.get('detected_by', []):
            if prop is None or p == prop:
                out.append(dict(id='seeded-%s@%s' % (meta['id'], p), prop=p, kind='witness', expect=p,
                                patch=os.path.join(os.path.dirname(mf), 'patch.diff'), edits=[]))
    return out


def run_cases(cases, root='/repo', jobs=None):
    jobs = jobs or min(16, max(1, len(cases)))
    if not cases:
        return []
    with ProcessPoolExecutor(max_workers=jobs) as ex:
        return list(ex.map(_run_case, [(root, c) for c in cases]))


def run_for_property(prop, root='/repo'):
    cases = cases_for(prop)
    res = run_cases(cases, root)
    kinds = {c['id']: c['kind'] for c in cases}
    out = dict(witnesses=dict(run=0, fired=0, skipped=0, missed=[]), twins=dict(run=0, silent=0, skipped=0, alarms=[]),
               details=[])
    for cid, status, info in res:
        k = 'witnesses' if kinds[cid] == 'witness' else 'twins'
        out[k]['run'] += 1
        if status == 'skipped':
            out[k]['skipped'] += 1
        elif status == 'fired':
            out['witnesses']['fired'] += 1
        elif status == 'silent':
            out['twins']['silent'] += 1
        elif k == 'witnesses':
            out['witnesses']['missed'].append('%s: %s' % (cid, info))
        else:
            out['twins']['alarms'].append('%s: %s' % (cid, info))
        out['details'].append('%s %s %s' % (cid, status, info[:160]))
    return out


def main(argv):
    prop = argv[1] if len(argv) > 1 else None
    cases = cases_for(prop)
    res = run_cases(cases)
    bad = 0
    for cid, status, info in res:
        flag = ''
        if status in ('MISSED', 'ALARM', 'error'):
            bad += 1
            flag = '  <<<<<<'
        print('%-44s %-8s %s%s' % (cid, status, info[:200], flag))
    print('%d cases, %d problems' % (len(res), bad))
    return 1 if bad else 0


if __name__ == '__main__':
    sys.exit(main(sys.argv))
