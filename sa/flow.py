"""Syntax-directed forward dataflow over one function body.

State: local name -> frozenset of tags.  The client supplies
  classify(expr, state) -> set of tags   (value of an expression)
  on_stmt(stmt, state)                   (called before each simple statement and on
                                          the header expression of compound ones)
  refine(test, state, branch) -> state   (optional, branch refinement)
Loops are iterated to a fixpoint (tags only grow).  ``try`` bodies flow into their
handlers with the join of all intermediate states (any statement may raise).
"""
import ast


def join(a, b):
    if a is None:
        return b
    if b is None:
        return a
    out = dict(a)
    for k, v in b.items():
        out[k] = out.get(k, frozenset()) | v
    for k in a:
        if k not in b:
            out[k] = a[k] | frozenset(['<undef>'])
    for k in b:
        if k not in a:
            out[k] = b[k] | frozenset(['<undef>'])
    return out


class Flow(object):
    POSITIONAL_PRESERVING = ('broadcast_arrays', 'atleast_1d', 'atleast_2d')

    def __init__(self, classify, on_stmt=None, refine=None, on_store=None, unpack=None):
        self.classify = classify
        self.unpack = unpack       # optional: tags of element i of n when a value with these tags is unpacked
        self.on_stmt = on_stmt or (lambda st, state: None)
        self.refine = refine or (lambda test, state, branch: state)
        self.on_store = on_store
        self.returns = []      # (Return node, state)
        self.exit_states = []

    def run(self, func_node, init):
        state = dict(init)
        end = self.block(func_node.body, state)
        if end is not None:
            self.exit_states.append(end)
        return end

    def block(self, stmts, state):
        for st in stmts:
            if state is None:
                return None
            state = self.stmt(st, state)
        return state

    def bind(self, target, tags, state, stmt):
        if isinstance(target, ast.Name):
            state[target.id] = frozenset(tags)
        elif isinstance(target, (ast.Tuple, ast.List)):
            for i, t in enumerate(target.elts):
                sub = self.unpack(tags, i, len(target.elts)) if self.unpack is not None else None
                self.bind(t, frozenset(sub) if sub is not None else tags | {'<unpacked>'}, state, stmt)
        elif isinstance(target, ast.Starred):
            self.bind(target.value, tags, state, stmt)
        else:
            if self.on_store is not None:
                self.on_store(target, tags, state, stmt)

    def stmt(self, st, state):
        if isinstance(st, ast.Assign):
            self.on_stmt(st, state)
            # element-wise unpacking: a, b = x, y   /   a, b = np.broadcast_arrays(x, y)
            if len(st.targets) == 1 and isinstance(st.targets[0], (ast.Tuple, ast.List)):
                elems = None
                v = st.value
                if isinstance(v, (ast.Tuple, ast.List)) and len(v.elts) == len(st.targets[0].elts):
                    elems = v.elts
                elif isinstance(v, ast.Call) and isinstance(v.func, ast.Attribute) and v.func.attr in self.POSITIONAL_PRESERVING \
                        and len(v.args) == len(st.targets[0].elts) and not any(isinstance(a, ast.Starred) for a in v.args):
                    elems = v.args
                if elems is not None:
                    vals = [frozenset(self.classify(e, state)) for e in elems]
                    state = dict(state)
                    for t, tg in zip(st.targets[0].elts, vals):
                        self.bind(t, tg, state, st)
                    return state
            tags = frozenset(self.classify(st.value, state))
            state = dict(state)
            for t in st.targets:
                self.bind(t, tags, state, st)
            return state
        if isinstance(st, ast.AnnAssign):
            self.on_stmt(st, state)
            if st.value is not None:
                tags = frozenset(self.classify(st.value, state))
                state = dict(state)
                self.bind(st.target, tags, state, st)
            return state
        if isinstance(st, ast.AugAssign):
            self.on_stmt(st, state)
            return state
        if isinstance(st, ast.If):
            self.on_stmt(st, state)
            a = self.block(st.body, dict(self.refine(st.test, state, True)))
            b = self.block(st.orelse, dict(self.refine(st.test, state, False)))
            return join(a, b)
        if isinstance(st, (ast.For, ast.AsyncFor)):
            self.on_stmt(st, state)
            it = frozenset(self.classify(st.iter, state)) | {'<elem>'}
            zipped = None
            if isinstance(st.iter, ast.Call) and isinstance(st.iter.func, ast.Name) and st.iter.func.id == 'zip' \
                    and isinstance(st.target, (ast.Tuple, ast.List)) and len(st.target.elts) == len(st.iter.args):
                zipped = st.iter.args
            cur = dict(state)
            for _ in range(4):
                body_state = dict(cur)
                if zipped is not None:
                    for t, a in zip(st.target.elts, zipped):
                        self.bind(t, frozenset(self.classify(a, body_state)) | {'<elem>'}, body_state, st)
                else:
                    self.bind(st.target, it, body_state, st)
                end = self.block(st.body, body_state)
                new = join(cur, end) if end is not None else cur
                if new == cur:
                    break
                cur = new
            out = self.block(st.orelse, dict(cur)) if st.orelse else cur
            return out
        if isinstance(st, ast.While):
            self.on_stmt(st, state)
            cur = dict(state)
            for _ in range(4):
                end = self.block(st.body, dict(cur))
                new = join(cur, end) if end is not None else cur
                if new == cur:
                    break
                cur = new
            return cur
        if isinstance(st, (ast.With, ast.AsyncWith)):
            self.on_stmt(st, state)
            state = dict(state)
            for it in st.items:
                if it.optional_vars is not None:
                    self.bind(it.optional_vars, frozenset(self.classify(it.context_expr, state)), state, st)
            return self.block(st.body, state)
        if isinstance(st, ast.Try):
            body_end = self.block(st.body, dict(state))
            mid = join(dict(state), body_end) if body_end is not None else dict(state)
            ends = []
            if st.orelse:
                body_end = self.block(st.orelse, body_end) if body_end is not None else None
            if body_end is not None:
                ends.append(body_end)
            for h in st.handlers:
                hs = dict(mid)
                if h.name:
                    hs[h.name] = frozenset(['<exc>'])
                e = self.block(h.body, hs)
                if e is not None:
                    ends.append(e)
            out = None
            for e in ends:
                out = join(out, e) if out is not None else e
            if st.finalbody:
                fin_in = out if out is not None else mid
                fin_out = self.block(st.finalbody, dict(fin_in))
                return fin_out if out is not None else None
            return out
        if isinstance(st, ast.Return):
            self.on_stmt(st, state)
            self.returns.append((st, dict(state)))
            return None
        if isinstance(st, ast.Raise):
            self.on_stmt(st, state)
            return None
        if isinstance(st, (ast.Break, ast.Continue)):
            # conservative: treat as falling through to the loop join
            return state
        if isinstance(st, (ast.FunctionDef, ast.AsyncFunctionDef, ast.ClassDef)):
            state = dict(state)
            state[st.name] = frozenset(['<def>'])
            return state
        self.on_stmt(st, state)
        return state


def names_in(expr):
    return [n.id for n in ast.walk(expr) if isinstance(n, ast.Name)]
