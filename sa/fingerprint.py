"""Structural fingerprints of private functions: a private function that was only *renamed* (a frequent clean-up) is the
same function to the rules, which are written against the names of the tree they were confirmed on.

``sa/known_fingerprints.txt`` (tools/snapshot_functions.py) holds `owner name digest` for every private function / method of
that tree.  When a known private name is missing from its owner and exactly one new private function of the same owner has
the same fingerprint, the new name is read as the old one everywhere (Index._load renames it back in the syntax trees before
any rule runs).  A function that was renamed *and* edited is not recovered: its anchor is reported as vanished (exit 2)."""
import ast
import copy
import hashlib


def is_private(name):
    return name.startswith('_') and not name.startswith('__')


class _Canon(ast.NodeTransformer):
    def visit_Name(self, n):
        if is_private(n.id):
            n.id = '_P'
        return n

    def visit_Attribute(self, n):
        self.generic_visit(n)
        if is_private(n.attr):
            n.attr = '_P'
        return n

    def visit_Constant(self, n):
        if isinstance(n.value, str) and is_private(n.value) and n.value.isidentifier():
            return ast.copy_location(ast.Constant(value='_P'), n)
        return n


def fingerprint(fdef):
    node = copy.deepcopy(fdef)
    node.name = ''
    body = node.body
    if body and isinstance(body[0], ast.Expr) and isinstance(body[0].value, ast.Constant) and isinstance(body[0].value.value, str):
        body = body[1:] or [ast.Pass()]
    node.body = body
    node = _Canon().visit(node)
    return hashlib.sha1(ast.dump(node, annotate_fields=False, include_attributes=False).encode('utf8')).hexdigest()[:16]


def private_defs(modname, tree):
    """{owner: {name: FunctionDef}} for module-level private functions and private methods of top-level classes."""
    out = {}
    for st in tree.body:
        if isinstance(st, (ast.FunctionDef, ast.AsyncFunctionDef)) and is_private(st.name):
            out.setdefault(modname, {})[st.name] = st
        elif isinstance(st, ast.ClassDef):
            for m in st.body:
                if isinstance(m, (ast.FunctionDef, ast.AsyncFunctionDef)) and is_private(m.name):
                    # property getter/setter pairs share a name: keep the first (getter)
                    out.setdefault('%s.%s' % (modname, st.name), {}).setdefault(m.name, m)
    return out


def load_known(path):
    known = {}
    try:
        with open(path) as fh:
            for line in fh:
                if line.strip() and not line.startswith('#'):
                    owner, name, digest = line.split()
                    known.setdefault(owner, {})[name] = digest
    except OSError:
        return None
    return known


def recover_renames(trees, known):
    """``trees``: {module name: ast.Module}.  -> {new name: old name} for private functions that were only renamed."""
    mapping, conflicts = {}, set()
    for modname, tree in trees.items():
        for owner, defs in private_defs(modname, tree).items():
            kn = known.get(owner)
            if not kn:
                continue
            vanished = {n: d for n, d in kn.items() if n not in defs}
            fresh = {n: fdef for n, fdef in defs.items() if n not in kn}
            if not vanished or not fresh:
                continue
            fps = {}
            for n, fdef in fresh.items():
                fps.setdefault(fingerprint(fdef), []).append(n)
            for old, digest in vanished.items():
                cands = fps.get(digest, [])
                if len(cands) == 1:
                    new = cands[0]
                    if new in mapping and mapping[new] != old:
                        conflicts.add(new)
                    mapping[new] = old
    for c in conflicts:
        mapping.pop(c, None)
    # an old name that is still in use somewhere as a new function's name would collide: keep only clean cases
    return mapping


class Renamer(ast.NodeTransformer):
    def __init__(self, mapping):
        self.m = mapping

    def visit_FunctionDef(self, n):
        self.generic_visit(n)
        n.name = self.m.get(n.name, n.name)
        return n

    visit_AsyncFunctionDef = visit_FunctionDef

    def visit_Name(self, n):
        n.id = self.m.get(n.id, n.id)
        return n

    def visit_Attribute(self, n):
        self.generic_visit(n)
        n.attr = self.m.get(n.attr, n.attr)
        return n

    def visit_alias(self, n):
        n.name = self.m.get(n.name, n.name)
        return n

    def visit_Constant(self, n):
        if isinstance(n.value, str) and n.value in self.m:
            return ast.copy_location(ast.Constant(value=self.m[n.value]), n)
        return n
