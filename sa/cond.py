"""Path conditions as propositional formulas, compared by truth table.

Rules that ask "under which condition does this statement run?" used to compare the text of one ``if``.  The same
condition can be written as a guard clause (``if a and b: continue``), as a nested positive test
(``if not a or not b: ...``), split over two ``if``s, or through a local variable.  Here the condition under which a
statement executes (within one pass over its enclosing blocks) is collected as a formula over *atoms* - comparisons are
canonicalised (``x not in s`` = not ``x in s``; ``a >= b`` = not ``a < b``; ``a > b`` = ``b < a``; ``len(x) == 0`` =
not ``x``) - and two conditions are compared by enumerating the assignments of their atoms.  Nothing is executed.
"""
import ast
import itertools

from .index import unparse
from .util import expand_locals

TERMINATORS = (ast.Continue, ast.Break, ast.Return, ast.Raise)


def T(key):
    return ('atom', key)


def Not(f):
    if f[0] == 'not':
        return f[1]
    if f[0] == 'const':
        return ('const', not f[1])
    return ('not', f)


def And(*fs):
    fs = [f for f in fs if f != ('const', True)]
    if any(f == ('const', False) for f in fs):
        return ('const', False)
    if not fs:
        return ('const', True)
    return fs[0] if len(fs) == 1 else ('and',) + tuple(fs)


def Or(*fs):
    fs = [f for f in fs if f != ('const', False)]
    if any(f == ('const', True) for f in fs):
        return ('const', True)
    if not fs:
        return ('const', False)
    return fs[0] if len(fs) == 1 else ('or',) + tuple(fs)


def _txt(e):
    return unparse(e).replace(' ', '')


def formula(test, fnode=None):
    """Formula of a test expression; local single-assignment names are expanded when ``fnode`` is given."""
    if fnode is not None:
        test = expand_locals(fnode, test)
    return _formula(test)


def _formula(e):
    if isinstance(e, ast.BoolOp):
        parts = [_formula(v) for v in e.values]
        return And(*parts) if isinstance(e.op, ast.And) else Or(*parts)
    if isinstance(e, ast.UnaryOp) and isinstance(e.op, ast.Not):
        return Not(_formula(e.operand))
    if isinstance(e, ast.Constant) and isinstance(e.value, bool):
        return ('const', e.value)
    if isinstance(e, ast.Compare) and len(e.ops) == 1 and (isinstance(e.left, ast.IfExp) or isinstance(e.comparators[0], ast.IfExp)):
        # (A if c else B) <op> x   ==   (c and A <op> x) or (not c and B <op> x)
        side = 'left' if isinstance(e.left, ast.IfExp) else 'right'
        ie = e.left if side == 'left' else e.comparators[0]
        c = _formula(ie.test)

        def arm(v):
            if side == 'left':
                return _formula(ast.Compare(left=v, ops=e.ops, comparators=e.comparators))
            return _formula(ast.Compare(left=e.left, ops=e.ops, comparators=[v]))
        return Or(And(c, arm(ie.body)), And(Not(c), arm(ie.orelse)))
    if isinstance(e, ast.IfExp):
        c = _formula(e.test)
        return Or(And(c, _formula(e.body)), And(Not(c), _formula(e.orelse)))
    if isinstance(e, ast.Compare) and len(e.ops) == 1:
        a, op, b = e.left, e.ops[0], e.comparators[0]
        # len(x) == 0 / len(x) > 0 / len(x) != 0
        for x, y, flip in ((a, b, False), (b, a, True)):
            if isinstance(x, ast.Call) and _txt(x.func) == 'len' and len(x.args) == 1 and isinstance(y, ast.Constant) and y.value == 0:
                inner = T(_txt(x.args[0]))
                if isinstance(op, ast.Eq):
                    return Not(inner)
                if isinstance(op, ast.NotEq) or (isinstance(op, ast.Gt) and not flip) or (isinstance(op, ast.Lt) and flip):
                    return inner
        ta, tb = _txt(a), _txt(b)
        if isinstance(op, ast.In):
            return T('in|%s|%s' % (ta, tb))
        if isinstance(op, ast.NotIn):
            return Not(T('in|%s|%s' % (ta, tb)))
        if isinstance(op, ast.Is):
            return T('is|%s|%s' % tuple(sorted((ta, tb))))
        if isinstance(op, ast.IsNot):
            return Not(T('is|%s|%s' % tuple(sorted((ta, tb)))))
        if isinstance(op, ast.Eq):
            return T('eq|%s|%s' % tuple(sorted((ta, tb))))
        if isinstance(op, ast.NotEq):
            return Not(T('eq|%s|%s' % tuple(sorted((ta, tb)))))
        if isinstance(op, ast.Lt):
            return T('lt|%s|%s' % (ta, tb))
        if isinstance(op, ast.GtE):
            return Not(T('lt|%s|%s' % (ta, tb)))
        if isinstance(op, ast.Gt):
            return T('lt|%s|%s' % (tb, ta))
        if isinstance(op, ast.LtE):
            return Not(T('lt|%s|%s' % (tb, ta)))
    if isinstance(e, ast.Compare) and len(e.ops) > 1:
        parts, left = [], e.left
        for op, right in zip(e.ops, e.comparators):
            parts.append(_formula(ast.Compare(left=left, ops=[op], comparators=[right])))
            left = right
        return And(*parts)
    if isinstance(e, ast.Call) and _txt(e.func) == 'bool' and len(e.args) == 1:
        return _formula(e.args[0])
    return T(_txt(e))


def atoms(f, out=None):
    out = set() if out is None else out
    if f[0] == 'atom':
        out.add(f[1])
    elif f[0] in ('and', 'or'):
        for x in f[1:]:
            atoms(x, out)
    elif f[0] == 'not':
        atoms(f[1], out)
    return out


def evaluate(f, env):
    if f[0] == 'const':
        return f[1]
    if f[0] == 'atom':
        return env[f[1]]
    if f[0] == 'not':
        return not evaluate(f[1], env)
    if f[0] == 'and':
        return all(evaluate(x, env) for x in f[1:])
    return any(evaluate(x, env) for x in f[1:])


def _assignments(keys):
    keys = sorted(keys)
    if len(keys) > 14:
        raise ValueError('too many atoms')
    for vals in itertools.product((False, True), repeat=len(keys)):
        yield dict(zip(keys, vals))


def equivalent(f, g):
    return all(evaluate(f, env) == evaluate(g, env) for env in _assignments(atoms(f) | atoms(g)))


def implies(f, g):
    return all((not evaluate(f, env)) or evaluate(g, env) for env in _assignments(atoms(f) | atoms(g)))


def restrict(f, keep):
    """Existentially forget the atoms that ``keep(atom_key)`` rejects: the strongest formula over the kept atoms implied by f
    is approximated by replacing forgotten atoms so that the result is *weaker* (positive occurrences -> True)."""
    def go(x, positive):
        if x[0] == 'atom':
            return x if keep(x[1]) else ('const', positive)
        if x[0] == 'const':
            return x
        if x[0] == 'not':
            return Not(go(x[1], not positive))
        parts = [go(y, positive) for y in x[1:]]
        return And(*parts) if x[0] == 'and' else Or(*parts)
    return go(f, True)


def _terminates(stmts):
    return bool(stmts) and isinstance(stmts[-1], TERMINATORS)


def path_condition(fnode, target, expand=True):
    """Condition under which ``target`` (a statement of ``fnode``) is reached from the top of the innermost enclosing loop body
    (or of the function): enclosing ``if`` branches, and the negation of every preceding guard clause (``if c: continue/return/...``)."""
    found = []

    def leave(st):
        """formula under which control leaves the enclosing block (return / raise / continue / break) inside ``st``"""
        if isinstance(st, (ast.Return, ast.Raise, ast.Continue, ast.Break)):
            return ('const', True)
        if isinstance(st, ast.If):
            c = formula(st.test, fnode if expand else None)
            a = Or(*[leave(x) for x in st.body]) if st.body else ('const', False)
            b = Or(*[leave(x) for x in st.orelse]) if st.orelse else ('const', False)
            parts = []
            if a != ('const', False):
                parts.append(c if a == ('const', True) else And(c, a))
            if b != ('const', False):
                parts.append(Not(c) if b == ('const', True) else And(Not(c), b))
            return Or(*parts) if parts else ('const', False)
        return ('const', False)

    def walk(stmts, cond):
        cur = cond
        for st in stmts:
            if st is target:
                found.append(cur)
                return True
            if isinstance(st, ast.If):
                c = formula(st.test, fnode if expand else None)
                if walk(st.body, And(cur, c)) or walk(st.orelse, And(cur, Not(c))):
                    return True
                body_t, else_t = _terminates(st.body), _terminates(st.orelse)
                if body_t and not else_t:
                    cur = And(cur, Not(c))
                elif else_t and not body_t and st.orelse:
                    cur = And(cur, c)
                elif not (body_t and else_t):
                    # neither arm ends the block as a whole, but something nested in them may leave it
                    # (`if a: if b: return`): what follows runs only when that did not happen
                    lv = leave(st)
                    if lv != ('const', False):
                        cur = And(cur, Not(lv))
            elif isinstance(st, (ast.For, ast.While, ast.AsyncFor)):
                # conditions do not carry into / across iterations
                if walk(st.body, ('const', True)) or walk(st.orelse, cur):
                    return True
            elif isinstance(st, (ast.With, ast.AsyncWith)):
                if walk(st.body, cur):
                    return True
            elif isinstance(st, ast.Try):
                if walk(st.body, cur) or walk(st.orelse, cur) or walk(st.finalbody, cur):
                    return True
                for h in st.handlers:
                    if walk(h.body, cur):
                        return True
        return False
    walk(fnode.body, ('const', True))
    return found[0] if found else None


def expr_condition(fnode, node, expand=True):
    """Condition under which the expression ``node`` is evaluated: the path condition of its statement, and - inside the
    statement - the tests of the conditional expressions, the earlier operands of and/or and the ``if`` clauses of the
    comprehensions it sits in.  An ``if`` statement with an append and a conditional expression inside a comprehension are
    the same thing to the rules that ask "when is this value produced?"."""
    from .util import parent_map
    pm = parent_map(fnode)
    conds = []
    child, cur = node, pm.get(id(node))
    stmt = None
    while cur is not None:
        if isinstance(cur, ast.stmt):
            stmt = cur
            # the header expression of a compound statement is not guarded by its own test
            break
        if isinstance(cur, ast.IfExp):
            if child is cur.body:
                conds.append(formula(cur.test, fnode if expand else None))
            elif child is cur.orelse:
                conds.append(Not(formula(cur.test, fnode if expand else None)))
        elif isinstance(cur, ast.BoolOp):
            idx = [i for i, v in enumerate(cur.values) if v is child]
            if idx and idx[0] > 0:
                prev = [formula(v, fnode if expand else None) for v in cur.values[:idx[0]]]
                conds.append(And(*prev) if isinstance(cur.op, ast.And) else And(*[Not(p) for p in prev]))
        elif isinstance(cur, (ast.ListComp, ast.SetComp, ast.GeneratorExp, ast.DictComp)):
            if not any(child is g for g in cur.generators):
                for g in cur.generators:
                    for i in g.ifs:
                        conds.append(formula(i, fnode if expand else None))
        child, cur = cur, pm.get(id(cur))
    base = path_condition(fnode, stmt, expand) if stmt is not None else ('const', True)
    if base is None:
        base = ('const', True)
    return And(base, *conds)


def branches(ifnode, when, fnode=None):
    """(statements run when ``when`` holds, statements run when it does not) for an ``if`` whose test is ``when`` or its
    negation, however it is written (`if c: A else: B`, `if not c: B else: A`, `x != 'a'` for `x == 'a'`, through a local
    name); None when the test is something else.  ``when`` is a formula or source text."""
    if isinstance(when, str):
        when = formula(ast.parse(when, mode='eval').body)
    t = formula(ifnode.test, fnode)
    try:
        if equivalent(t, when):
            return ifnode.body, ifnode.orelse
        if equivalent(t, Not(when)):
            return ifnode.orelse, ifnode.body
    except ValueError:
        return None
    return None
