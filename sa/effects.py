"""E3 - effect summaries: which ``self.<field>`` a method reads / writes.

Property expansion, self-call expansion (MRO-resolved, cycle guarded),
``super().m()`` expansion, mutating-call recognition and an optional
"deep mutation" table (field -> class family whose mutators count as a write
of the field).
"""
import ast

from .index import walk_no_nested, dotted_chain

MUTATING_CALLS = {'append', 'extend', 'remove', 'pop', 'clear', 'insert', 'update', 'add',
                  'discard', 'sort', 'reverse', 'setdefault', 'popitem', 'move_to_end',
                  'fill', 'resize', 'put', 'itemset', '__setitem__', '__delitem__'}


class Effects(object):
    def __init__(self):
        self.reads = set()
        self.writes = set()
        self.calls = set()        # names of self-methods called (after expansion)
        self.ext_calls = []       # (dotted callee text, ast.Call)
        self.write_sites = []     # (field, ast node, owner Func)
        self.read_sites = []

    def merge(self, other):
        self.reads |= other.reads
        self.writes |= other.writes
        self.calls |= other.calls
        self.ext_calls += other.ext_calls
        self.write_sites += other.write_sites
        self.read_sites += other.read_sites


class EffectAnalyzer(object):
    def __init__(self, index, deep_families=None, setattr_hook=True, indexed=False):
        """deep_families: {field name: [Class, ...]} - a call ``self.f.k()``
        counts as a write of ``f`` when ``k`` has a non-empty write set in any
        class of the family."""
        self.index = index
        self.deep = deep_families or {}
        self.indexed = indexed
        self._cache = {}
        self._deep_cache = {}

    def method_effects(self, cls, name, kind='call'):
        """Effects of calling method ``name`` on an instance whose dynamic class is ``cls``."""
        m = cls.resolve(name)
        if m is None:
            return Effects()
        if m.kind == 'property':
            f = m.fget if kind != 'set' else m.fset
            if f is None:
                return Effects()
            return self.func_effects(cls, f)
        if m.func is None:
            return Effects()
        return self.func_effects(cls, m.func)

    def func_effects(self, cls, func, _stack=None):
        key = (cls.qualname, func.qualname, func.node.lineno)
        if key in self._cache:
            return self._cache[key]
        _stack = _stack or ()
        if key in _stack:
            return Effects()
        _stack = _stack + (key,)
        eff = Effects()
        selfname = func.self_name
        if selfname is None:
            self._cache[key] = eff
            return eff
        node = func.node
        handled = set()
        for n in walk_no_nested(node):
            # --- stores -----------------------------------------------------
            if isinstance(n, (ast.Assign, ast.AugAssign, ast.AnnAssign, ast.Delete, ast.For, ast.With)):
                for tgt in _targets(n):
                    self._store(cls, func, selfname, tgt, n, eff, _stack,
                                aug=isinstance(n, ast.AugAssign), handled=handled)
            # --- calls --------------------------------------------------------
            if isinstance(n, ast.Call):
                self._call(cls, func, selfname, n, eff, _stack, handled)
        # --- loads ----------------------------------------------------------
        const_sub = {}
        if self.indexed:
            for n in walk_no_nested(node):
                if isinstance(n, ast.Subscript) and isinstance(n.slice, ast.Constant) and isinstance(n.slice.value, int):
                    const_sub[id(n.value)] = n.slice.value
        for n in walk_no_nested(node):
            if isinstance(n, ast.Attribute) and isinstance(n.value, ast.Name) and n.value.id == selfname \
                    and isinstance(n.ctx, ast.Load):
                if id(n) in handled:
                    continue
                if id(n) in const_sub:
                    m = cls.resolve(n.attr)
                    if m is None or m.kind == 'attr':
                        name = '%s[%d]' % (n.attr, const_sub[id(n)])
                        eff.reads.add(name)
                        eff.read_sites.append((name, n, func))
                        continue
                self._load(cls, func, n.attr, n, eff, _stack)
        self._cache[key] = eff
        return eff

    # ------------------------------------------------------------------
    def _load(self, cls, func, attr, node, eff, stack):
        m = cls.resolve(attr)
        if m is not None and m.kind == 'property':
            if m.fget is not None:
                eff.merge(self.func_effects(cls, m.fget, stack))
            return
        if m is not None and m.kind in ('method', 'classmethod', 'staticmethod'):
            return   # bound-method reference; calls are handled separately
        eff.reads.add(attr)
        eff.read_sites.append((attr, node, func))

    def _store_field(self, cls, func, attr, node, eff, stack, via_setattr=True):
        m = cls.resolve(attr)
        if m is not None and m.kind == 'property':
            if m.fset is not None:
                eff.merge(self.func_effects(cls, m.fset, stack))
            return
        eff.writes.add(attr)
        eff.write_sites.append((attr, node, func))
        if via_setattr:
            hook = cls.resolve('__setattr__')
            if hook is not None and hook.func is not None and hook.func is not func:
                h = self.func_effects(cls, hook.func, stack)
                eff.calls |= h.calls
                eff.ext_calls += h.ext_calls

    def _store(self, cls, func, selfname, tgt, stmt, eff, stack, aug=False, handled=None):
        if isinstance(tgt, (ast.Tuple, ast.List)):
            for e in tgt.elts:
                self._store(cls, func, selfname, e, stmt, eff, stack, aug, handled)
            return
        if isinstance(tgt, ast.Starred):
            self._store(cls, func, selfname, tgt.value, stmt, eff, stack, aug, handled)
            return
        if isinstance(tgt, ast.Attribute) and isinstance(tgt.value, ast.Name) and tgt.value.id == selfname:
            self._store_field(cls, func, tgt.attr, stmt, eff, stack)
            if aug:
                self._load(cls, func, tgt.attr, tgt, eff, stack)
            return
        # self.f[...] = v  /  self.f.g = v  -> in-place write of f
        base = tgt
        depth = 0
        while isinstance(base, (ast.Subscript, ast.Attribute)):
            inner = base.value
            if isinstance(inner, ast.Attribute) and isinstance(inner.value, ast.Name) \
                    and inner.value.id == selfname:
                attr = inner.attr
                m = cls.resolve(attr)
                if m is not None and m.kind == 'property' and m.fget is not None:
                    # in-place write through a property: writes what the getter reads
                    g = self.func_effects(cls, m.fget, stack)
                    for r in g.reads:
                        eff.writes.add(r)
                        eff.write_sites.append((r, stmt, func))
                    eff.reads |= g.reads
                else:
                    name = attr
                    if self.indexed and depth == 0 and isinstance(base, ast.Subscript) \
                            and isinstance(base.slice, ast.Constant) and isinstance(base.slice.value, int):
                        name = '%s[%d]' % (attr, base.slice.value)
                    eff.writes.add(name)
                    eff.write_sites.append((name, stmt, func))
                    if name == attr:
                        eff.reads.add(attr)
                return
            base = inner
            depth += 1

    def _call(self, cls, func, selfname, call, eff, stack, handled):
        f = call.func
        # setattr(self, 'lit', v) / object.__setattr__(self, 'lit', v)
        chain = dotted_chain(f)
        if chain in (['setattr'], ['object', '__setattr__']) and len(call.args) >= 3:
            a0, a1 = call.args[0], call.args[1]
            if isinstance(a0, ast.Name) and a0.id == selfname and isinstance(a1, ast.Constant) \
                    and isinstance(a1.value, str):
                self._store_field(cls, func, a1.value, call, eff, stack,
                                  via_setattr=(chain == ['setattr']))
            return
        if isinstance(f, ast.Attribute):
            recv = f.value
            # self.m(...)
            if isinstance(recv, ast.Name) and recv.id == selfname:
                handled.add(id(f))
                m = cls.resolve(f.attr)
                if m is not None and m.func is not None:
                    eff.calls.add(f.attr)
                    eff.merge(self.func_effects(cls, m.func, stack))
                elif m is not None and m.kind == 'property':
                    self._load(cls, func, f.attr, f, eff, stack)
                else:
                    # callable stored in a field
                    eff.reads.add(f.attr)
                    eff.read_sites.append((f.attr, f, func))
                return
            # super().m(...) / super(C, self).m(...)
            if isinstance(recv, ast.Call) and isinstance(recv.func, ast.Name) and recv.func.id == 'super':
                after = func.cls
                m = cls.resolve(f.attr, after=after)
                if m is not None and m.func is not None:
                    eff.calls.add('super.' + f.attr)
                    eff.merge(self.func_effects(cls, m.func, stack))
                return
            # self.f.k(...)  or  self.f[...].k(...)
            base = recv
            while isinstance(base, ast.Subscript):
                base = base.value
            if isinstance(base, ast.Attribute) and isinstance(base.value, ast.Name) and base.value.id == selfname:
                attr = base.attr
                if f.attr in MUTATING_CALLS:
                    self._inplace(cls, func, attr, call, eff, stack)
                elif attr in self.deep and self._deep_mutates(attr, f.attr):
                    self._inplace(cls, func, attr, call, eff, stack)
                return
        if chain:
            eff.ext_calls.append(('.'.join(chain), call))

    def _inplace(self, cls, func, attr, call, eff, stack):
        m = cls.resolve(attr)
        if m is not None and m.kind == 'property' and m.fget is not None:
            g = self.func_effects(cls, m.fget, stack)
            for r in g.reads:
                eff.writes.add(r)
                eff.write_sites.append((r, call, func))
        else:
            eff.writes.add(attr)
            eff.write_sites.append((attr, call, func))

    def _deep_mutates(self, field, meth):
        key = (field, meth)
        if key not in self._deep_cache:
            res = False
            self._deep_cache[key] = False   # cycle guard
            for c in self.deep.get(field, []):
                m = c.resolve(meth)
                if m is not None and m.func is not None:
                    e = self.func_effects(c, m.func)
                    if e.writes:
                        res = True
                        break
            self._deep_cache[key] = res
        return self._deep_cache[key]


def _targets(n):
    if isinstance(n, ast.Assign):
        return n.targets
    if isinstance(n, (ast.AugAssign, ast.AnnAssign)):
        return [n.target]
    if isinstance(n, ast.Delete):
        return n.targets
    if isinstance(n, ast.For):
        return [n.target]
    if isinstance(n, ast.With):
        return [i.optional_vars for i in n.items if i.optional_vars is not None]
    return []
