"""E8 - field flow for copy / save / restore.

For a class C this module answers, from the source only:
  * ctor_flow(C):   which instance fields each constructor parameter reaches
                    (through setters, super().__init__, helper methods, list literals),
                    and which fields are derived from other fields;
  * saver_keys(S):  which fields of the saved object each written key is computed from;
  * loader_flow(L): which keys of the record reach which fields (through constructor
                    arguments, post-construction stores, chained loaders), which keys are
                    read unconditionally, and which classes the loader builds;
  * copy_coverage(C): behaviour read-set vs. the fields copy() carries over.
Fields are attribute names after property expansion; a constant index is kept
(``_atts[0]``) so that swapped arguments are visible.
"""
import ast

from .index import AnalysisError, dotted_chain, unparse, walk_no_nested, body_stmts
from .effects import EffectAnalyzer


def base_field(f):
    return f.split('[')[0]


class Value(object):
    __slots__ = ('deps', 'elems')

    def __init__(self, deps=(), elems=None):
        self.deps = set(deps)
        self.elems = elems

    def union(self, other):
        return Value(self.deps | other.deps, None)


class CtorFlow(object):
    def __init__(self, cls, func):
        self.cls = cls
        self.func = func
        self.params = []
        self.required = []
        self.vararg = None
        self.kwarg = None
        self.field_src = {}     # field -> set of ('param', p) | ('field', g) | ('const',)
        self.unmodelled = []

    def sources(self, field, _seen=None):
        """Transitive parameter sources of a field."""
        _seen = _seen or set()
        out = set()
        for s in self.field_src.get(field, ()):
            if s[0] == 'param':
                out.add(s[1])
            elif s[0] == 'field' and s[1] not in _seen:
                _seen.add(s[1])
                out |= self.sources(s[1], _seen)
                out |= self.sources(base_field(s[1]), _seen)
        return out

    def fields_of_param(self, p):
        out = set()
        for f in self.field_src:
            if p in self.sources(f):
                out.add(f)
        return out

    def fields_set(self):
        return set(self.field_src)


class FieldFlow(object):
    def __init__(self, index):
        self.ix = index
        self.eff = EffectAnalyzer(index, indexed=True)
        self._ctor_cache = {}

    # ------------------------------------------------------------------
    # reads of an expression on an object
    def reads_of_expr(self, cls, expr, objname):
        out = set()
        const_sub = {}
        for n in ast.walk(expr):
            if isinstance(n, ast.Subscript) and isinstance(n.slice, ast.Constant) and isinstance(n.slice.value, int):
                const_sub[id(n.value)] = n.slice.value
        called = {}
        for n in ast.walk(expr):
            if isinstance(n, ast.Call) and isinstance(n.func, ast.Attribute):
                called[id(n.func)] = n
        for n in ast.walk(expr):
            if isinstance(n, ast.Attribute) and isinstance(n.value, ast.Name) and n.value.id == objname:
                m = cls.resolve(n.attr) if cls is not None else None
                if m is not None and m.kind == 'property' and m.fget is not None:
                    out |= self.eff.func_effects(cls, m.fget).reads
                elif m is not None and m.func is not None:
                    if id(n) in called:
                        out |= self.eff.func_effects(cls, m.func).reads
                elif id(n) in const_sub:
                    out.add('%s[%d]' % (n.attr, const_sub[id(n)]))
                else:
                    out.add(n.attr)
        return out

    def writes_of_store(self, cls, attr):
        """Fields written by ``obj.attr = v`` (setter expansion)."""
        m = cls.resolve(attr) if cls is not None else None
        if m is not None and m.kind == 'property':
            if m.fset is None:
                return set()
            return set(self.eff.func_effects(cls, m.fset).writes)
        return {attr}

    # ------------------------------------------------------------------
    # constructor flow
    def ctor_flow(self, cls):
        if cls.qualname in self._ctor_cache:
            return self._ctor_cache[cls.qualname]
        m = cls.resolve('__init__')
        cf = CtorFlow(cls, m.func if m is not None else None)
        self._ctor_cache[cls.qualname] = cf
        if m is None or m.func is None:
            return cf
        f = m.func
        a = f.node.args
        params = [x.arg for x in a.posonlyargs + a.args][1:]
        cf.params = params
        ndef = len(a.defaults)
        cf.required = params[:len(params) - ndef] if ndef else list(params)
        cf.kwonly = [x.arg for x in a.kwonlyargs]
        cf.vararg = a.vararg.arg if a.vararg else None
        cf.kwarg = a.kwarg.arg if a.kwarg else None
        env = {p: Value({('param', p)}) for p in params + cf.kwonly}
        if cf.vararg:
            env[cf.vararg] = Value({('param', '*' + cf.vararg)})
        if cf.kwarg:
            env[cf.kwarg] = Value({('param', '**' + cf.kwarg)})
        self._run(cls, f, env, cf, ())
        return cf

    def _run(self, cls, func, env, cf, stack):
        key = (func.qualname, func.node.lineno)
        if key in stack or len(stack) > 8:
            return
        stack = stack + (key,)
        selfname = func.self_name
        self._block(cls, func, body_stmts(func.node), env, cf, stack, selfname)

    def _block(self, cls, func, stmts, env, cf, stack, selfname):
        for st in stmts:
            self._stmt(cls, func, st, env, cf, stack, selfname)

    def _val(self, cls, func, expr, env, cf, stack, selfname):
        if expr is None:
            return Value()
        if isinstance(expr, ast.Name):
            return env.get(expr.id, Value())
        if isinstance(expr, (ast.List, ast.Tuple)):
            elems = [self._val(cls, func, e, env, cf, stack, selfname) for e in expr.elts]
            deps = set()
            for e in elems:
                deps |= e.deps
            return Value(deps, [set(e.deps) for e in elems])
        if isinstance(expr, ast.Constant):
            return Value({('const',)})
        deps = set()
        # calls on self inside expressions run too (e.g. x = self._helper(p))
        for n in ast.walk(expr):
            if isinstance(n, ast.Name) and n.id in env and n.id != selfname:
                deps |= env[n.id].deps
            elif isinstance(n, ast.Attribute) and isinstance(n.value, ast.Name) and n.value.id == selfname:
                m = cls.resolve(n.attr)
                if m is not None and m.kind == 'property' and m.fget is not None:
                    for r in self.eff.func_effects(cls, m.fget).reads:
                        deps.add(('field', r))
                elif m is None or m.kind == 'attr':
                    deps.add(('field', n.attr))
                elif m.kind == 'method' and not any(isinstance(c, ast.Call) and c.func is n for c in ast.walk(expr)):
                    deps.add(('selfmethod', n.attr))
        if not deps:
            deps.add(('const',))
        # transparent one-argument wrappers keep element structure
        if isinstance(expr, ast.Call) and len(expr.args) == 1 and not expr.keywords:
            inner = self._val(cls, func, expr.args[0], env, cf, stack, selfname)
            if inner.elems is not None and dotted_chain(expr.func) in (['list'], ['tuple'], ['np', 'asarray'], ['np', 'array']):
                return Value(deps, inner.elems)
        return Value(deps)

    def _store_field(self, cls, func, attr, val, cf, stack, index=None):
        m = cls.resolve(attr)
        if m is not None and m.kind == 'property' and index is None:
            if m.fset is not None:
                p = m.fset.params
                self._run(cls, m.fset, {p[1]: val} if len(p) > 1 else {}, cf, stack)
            return
        if m is not None and m.kind == 'property' and index is not None and m.fget is not None:
            # in-place element store through a property: the fields the getter reads
            for r in self.eff.func_effects(cls, m.fget).reads:
                cf.field_src.setdefault(r, set()).update(val.deps)
            return
        name = attr if index is None else '%s[%d]' % (attr, index)
        cf.field_src.setdefault(name, set()).update(val.deps)
        if index is not None:
            cf.field_src.setdefault(attr, set()).update(val.deps)
        if val.elems is not None and index is None:
            for i, d in enumerate(val.elems):
                cf.field_src.setdefault('%s[%d]' % (attr, i), set()).update(d)

    def _assign(self, cls, func, target, val, env, cf, stack, selfname):
        if isinstance(target, ast.Name):
            prev = env.get(target.id)
            env[target.id] = val if prev is None else Value(prev.deps | val.deps, val.elems)
            return
        if isinstance(target, (ast.Tuple, ast.List)):
            for i, t in enumerate(target.elts):
                if val.elems is not None and i < len(val.elems):
                    self._assign(cls, func, t, Value(val.elems[i]), env, cf, stack, selfname)
                else:
                    self._assign(cls, func, t, Value(val.deps), env, cf, stack, selfname)
            return
        if isinstance(target, ast.Attribute) and isinstance(target.value, ast.Name) and target.value.id == selfname:
            self._store_field(cls, func, target.attr, val, cf, stack)
            return
        if isinstance(target, ast.Subscript):
            b = target.value
            if isinstance(b, ast.Attribute) and isinstance(b.value, ast.Name) and b.value.id == selfname:
                idx = target.slice.value if isinstance(target.slice, ast.Constant) and isinstance(target.slice.value, int) else None
                if idx is not None:
                    self._store_field(cls, func, b.attr, val, cf, stack, index=idx)
                else:
                    cf.field_src.setdefault(b.attr, set()).update(val.deps)
            return

    def _stmt(self, cls, func, st, env, cf, stack, selfname):
        if isinstance(st, ast.Assign):
            self._calls(cls, func, st.value, env, cf, stack, selfname)
            val = self._val(cls, func, st.value, env, cf, stack, selfname)
            for t in st.targets:
                self._assign(cls, func, t, val, env, cf, stack, selfname)
        elif isinstance(st, ast.AnnAssign) and st.value is not None:
            val = self._val(cls, func, st.value, env, cf, stack, selfname)
            self._assign(cls, func, st.target, val, env, cf, stack, selfname)
        elif isinstance(st, ast.AugAssign):
            val = self._val(cls, func, st.value, env, cf, stack, selfname)
            self._assign(cls, func, st.target, val, env, cf, stack, selfname)
        elif isinstance(st, ast.Expr):
            self._calls(cls, func, st.value, env, cf, stack, selfname)
        elif isinstance(st, ast.If):
            self._calls(cls, func, st.test, env, cf, stack, selfname)
            self._block(cls, func, st.body, env, cf, stack, selfname)
            self._block(cls, func, st.orelse, env, cf, stack, selfname)
        elif isinstance(st, (ast.For, ast.While)):
            if isinstance(st, ast.For):
                v = self._val(cls, func, st.iter, env, cf, stack, selfname)
                self._assign(cls, func, st.target, Value(v.deps), env, cf, stack, selfname)
            for _ in range(2):
                self._block(cls, func, st.body, env, cf, stack, selfname)
            self._block(cls, func, st.orelse, env, cf, stack, selfname)
        elif isinstance(st, ast.With):
            for it in st.items:
                if it.optional_vars is not None:
                    self._assign(cls, func, it.optional_vars, self._val(cls, func, it.context_expr, env, cf, stack, selfname),
                                 env, cf, stack, selfname)
            self._block(cls, func, st.body, env, cf, stack, selfname)
        elif isinstance(st, ast.Try):
            self._block(cls, func, st.body, env, cf, stack, selfname)
            for h in st.handlers:
                self._block(cls, func, h.body, env, cf, stack, selfname)
            self._block(cls, func, st.orelse, env, cf, stack, selfname)
            self._block(cls, func, st.finalbody, env, cf, stack, selfname)
        elif isinstance(st, ast.Return) and st.value is not None:
            self._calls(cls, func, st.value, env, cf, stack, selfname)

    def _calls(self, cls, func, expr, env, cf, stack, selfname):
        """Follow calls that can store fields: super().__init__, Base.__init__(self,..), self.m(..), setattr."""
        for n in ast.walk(expr):
            if not isinstance(n, ast.Call):
                continue
            f = n.func
            chain = dotted_chain(f)
            if chain in (['setattr'], ['object', '__setattr__']) and len(n.args) >= 3 \
                    and isinstance(n.args[0], ast.Name) and n.args[0].id == selfname \
                    and isinstance(n.args[1], ast.Constant) and isinstance(n.args[1].value, str):
                self._store_field(cls, func, n.args[1].value, self._val(cls, func, n.args[2], env, cf, stack, selfname), cf, stack)
                continue
            callee = None
            args = list(n.args)
            if isinstance(f, ast.Attribute):
                recv = f.value
                if isinstance(recv, ast.Call) and isinstance(recv.func, ast.Name) and recv.func.id == 'super':
                    m = cls.resolve(f.attr, after=func.cls)
                    callee = m.func if m is not None else None
                elif isinstance(recv, ast.Name) and recv.id == selfname:
                    m = cls.resolve(f.attr)
                    callee = m.func if (m is not None and m.kind in ('method',)) else None
                    if f.attr in ('update', '__dict__') and callee is None:
                        pass
                else:
                    k = self.ix.resolve_class(func.module, recv)
                    if k is not None and args and isinstance(args[0], ast.Name) and args[0].id == selfname:
                        m = k.members.get(f.attr) or k.resolve(f.attr)
                        callee = m.func if m is not None else None
                        args = args[1:]
            if callee is None:
                continue
            params = callee.params[1:]
            sub = {}
            ca = callee.node.args
            for p, a in zip(params, args):
                if isinstance(a, ast.Starred):
                    break
                sub[p] = self._val(cls, func, a, env, cf, stack, selfname)
            for k in n.keywords:
                if k.arg is None:
                    v = self._val(cls, func, k.value, env, cf, stack, selfname)
                    for p in params + [x.arg for x in ca.kwonlyargs]:
                        sub.setdefault(p, Value(v.deps))
                    if ca.kwarg:
                        sub[ca.kwarg.arg] = Value(v.deps)
                else:
                    if k.arg in params or k.arg in [x.arg for x in ca.kwonlyargs]:
                        sub[k.arg] = self._val(cls, func, k.value, env, cf, stack, selfname)
                    elif ca.kwarg:
                        cur = sub.get(ca.kwarg.arg, Value())
                        sub[ca.kwarg.arg] = cur.union(self._val(cls, func, k.value, env, cf, stack, selfname))
            if any(isinstance(a, ast.Starred) for a in n.args):
                star = [a for a in n.args if isinstance(a, ast.Starred)][0]
                v = self._val(cls, func, star.value, env, cf, stack, selfname)
                for p in params:
                    sub.setdefault(p, Value(v.deps))
            for p in params:
                sub.setdefault(p, Value({('const',)}))
            if ca.vararg:
                sub.setdefault(ca.vararg.arg, Value())
            if ca.kwarg:
                sub.setdefault(ca.kwarg.arg, Value())
            self._run(cls, callee, sub, cf, stack)

    # ------------------------------------------------------------------
    # binding a constructor call
    def bind_ctor(self, cf, call):
        """{param: arg expr} for ``K(args)``; returns (mapping, problems)."""
        problems = []
        mapping = {}
        pos = [a for a in call.args]
        if any(isinstance(a, ast.Starred) for a in pos):
            return None, ['star-args']
        if len(pos) > len(cf.params) and not cf.vararg:
            problems.append('%d positional arguments for %d parameters %s' % (len(pos), len(cf.params), cf.params))
        for p, a in zip(cf.params, pos):
            mapping[p] = a
        for k in call.keywords:
            if k.arg is None:
                return None, ['**kwargs']
            if k.arg in cf.params or k.arg in getattr(cf, 'kwonly', []):
                if k.arg in mapping:
                    problems.append('parameter %s given twice' % k.arg)
                mapping[k.arg] = k.value
            elif cf.kwarg:
                mapping.setdefault('**' + cf.kwarg, k.value)
            else:
                problems.append('unexpected keyword %s (parameters: %s)' % (k.arg, cf.params))
        for p in cf.required:
            if p not in mapping:
                problems.append('required parameter %s not given' % p)
        return mapping, problems

    # ------------------------------------------------------------------
    # copy coverage
    def behaviour_reads(self, cls, methods):
        out = set()
        for name in methods:
            m = cls.resolve(name)
            if m is None:
                continue
            f = m.func if m.func is not None else m.fget
            if f is None:
                continue
            out |= self.eff.func_effects(cls, f).reads
        # keep instance fields only (drop class attributes such as ``op``)
        res = set()
        for r in out:
            m = cls.resolve(base_field(r))
            if m is not None and m.kind in ('attr', 'method', 'classmethod', 'staticmethod'):
                continue
            res.add(r)
        return res

    def copy_coverage(self, cls, behaviour):
        res = CopyResult()
        res.behaviour = {base_field(f) for f in self.behaviour_reads(cls, behaviour)}
        m = cls.resolve('copy')
        f = m.func
        selfname = f.self_name
        rets = [n for n in walk_no_nested(f.node) if isinstance(n, ast.Return)]
        if len(rets) != 1 or rets[0].value is None:
            res.unmodelled = 'copy() has %d return statements' % len(rets)
            return res
        rv = rets[0].value
        post = []
        if isinstance(rv, ast.Name):
            var = rv.id
            defs = [st for st in walk_no_nested(f.node) if isinstance(st, ast.Assign)
                    and any(isinstance(t, ast.Name) and t.id == var for t in st.targets)]
            if len(defs) != 1:
                res.unmodelled = 'copy(): result variable assigned %d times' % len(defs)
                return res
            rv = defs[0].value
            for st in walk_no_nested(f.node):
                if isinstance(st, ast.Assign):
                    for t in st.targets:
                        if isinstance(t, ast.Attribute) and isinstance(t.value, ast.Name) and t.value.id == var:
                            post.append((t.attr, st.value))
        if not isinstance(rv, ast.Call):
            res.unmodelled = 'copy() does not return a constructor call'
            return res
        ch = dotted_chain(rv.func)
        if ch in (['copy', 'copy'], ['copy', 'deepcopy'], ['copy'], ['deepcopy']):
            res.carried = set(res.behaviour)
            return res
        cf = self.ctor_flow(cls)
        mapping, problems = self.bind_ctor(cf, rv)
        if mapping is None:
            res.unmodelled = 'copy(): constructor call uses %s' % problems
            return res
        res.problems = problems
        carried = set()
        pairs = []
        for p, a in mapping.items():
            dst = cf.fields_of_param(p.lstrip('*'))
            src = self.reads_of_expr(cls, a, selfname)
            pairs.append((p, {base_field(x) for x in src}, {base_field(x) for x in dst}))
        res.pairs = pairs
        for p, a in mapping.items():
            dst = cf.fields_of_param(p.lstrip('*'))
            src = self.reads_of_expr(cls, a, selfname)
            carried |= dst
            # identity: what is read from field f must land in field f
            sb = {base_field(x) for x in src}
            db = {base_field(x) for x in dst}
            if src and dst and not (sb & db):
                res.mismatches.append('argument for %s is read from %s but the parameter initialises %s'
                                      % (p, sorted(src), sorted(dst)))
            else:
                # index-precise comparison when both sides carry indices on the same base
                for s in src:
                    if '[' in s:
                        same = [d for d in dst if base_field(d) == base_field(s) and '[' in d]
                        if same and s not in same:
                            res.mismatches.append('argument for %s is read from %s but initialises %s' % (p, s, sorted(same)))
        for attr, val in post:
            dst = self.writes_of_store(cls, attr)
            src = self.reads_of_expr(cls, val, selfname)
            carried |= dst
            sb = {base_field(x) for x in src}
            db = {base_field(x) for x in dst}
            if src and dst and not (sb & db):
                res.mismatches.append('result.%s is written from %s' % (attr, sorted(src)))
            for s in src:
                if '[' in s:
                    same = [d for d in dst if base_field(d) == base_field(s) and '[' in d]
                    if same and s not in same:
                        res.mismatches.append('result.%s (fields %s) is written from %s' % (attr, sorted(same), s))
        carried = {base_field(c) for c in carried}
        # derived fields: written in the constructor from carried fields (or constants + carried)
        changed = True
        while changed:
            changed = False
            for fld, srcs in cf.field_src.items():
                b = base_field(fld)
                if b in carried:
                    continue
                fs = [s[1] for s in srcs if s[0] == 'field']
                ps = [s for s in srcs if s[0] == 'param']
                if fs and not ps and all(base_field(x) in carried for x in fs):
                    carried.add(b)
                    changed = True
        res.carried = carried
        return res

    # ------------------------------------------------------------------
    # savers
    def saver_keys(self, func, objcls, objname=None, _depth=0):
        """-> SaverInfo(keys: {key: set(fields)}, always: set, maybe: set, unmodelled: str|None)"""
        info = SaverInfo()
        if _depth > 6:
            info.unmodelled = 'saver chain too deep'
            return info
        params = func.params
        if objname is None:
            objname = params[0]
        ctxname = params[1] if len(params) > 1 else None
        node = func.node
        rets = [n for n in walk_no_nested(node) if isinstance(n, ast.Return) and n.value is not None]
        if not rets:
            raises = [n for n in walk_no_nested(node) if isinstance(n, ast.Raise)]
            info.raises = bool(raises)
            if not raises:
                info.unmodelled = 'no return'
            return info
        pm = _parents(node)
        # local names -> fields of the object they were computed from (flow-insensitive)
        self._senv = getattr(self, '_senv', {})
        env = {}
        for _ in range(2):
            for st in walk_no_nested(node):
                tgts = []
                val = None
                if isinstance(st, ast.Assign):
                    tgts, val = st.targets, st.value
                elif isinstance(st, ast.For):
                    tgts, val = [st.target], st.iter
                elif isinstance(st, ast.comprehension):
                    tgts, val = [st.target], st.iter
                for t in tgts:
                    for nm in ast.walk(t):
                        if isinstance(nm, ast.Name) and nm.id != objname:
                            env.setdefault(nm.id, set()).update(self._reads_env(objcls, val, objname, env))
        info_env_key = id(node)
        self._senv[info_env_key] = env
        for r in rets:
            self._saver_expr(func, objcls, objname, r.value, info, pm, r, _depth)
        if info.keys:
            info.empty_literal = False
        return info

    def _reads_env(self, objcls, expr, objname, env):
        out = set(self.reads_of_expr(objcls, expr, objname))
        for n in ast.walk(expr):
            if isinstance(n, ast.Name) and n.id in env:
                out |= env[n.id]
        return out

    def _saver_expr(self, func, objcls, objname, expr, info, pm, at, depth):
        from .util import dict_literal_keys
        node = func.node
        lit = dict_literal_keys(expr)
        cond_ret = _is_conditional(pm, at, node)
        env = getattr(self, '_senv', {}).get(id(node), {})
        if lit is not None:
            for k, v in lit.items():
                info.add(k, self._reads_env(objcls, v, objname, env), v, always=not cond_ret)
            if not lit:
                info.empty_literal = True
            return
        if isinstance(expr, ast.Name):
            var = expr.id
            seeded = False
            for st in walk_no_nested(node):
                if isinstance(st, ast.Assign):
                    for t in st.targets:
                        if isinstance(t, ast.Name) and t.id == var:
                            self._saver_expr(func, objcls, objname, st.value, info, pm, st, depth)
                            seeded = True
                        elif isinstance(t, ast.Subscript) and isinstance(t.value, ast.Name) and t.value.id == var:
                            k = t.slice.value if isinstance(t.slice, ast.Constant) and isinstance(t.slice.value, str) else None
                            if k is None:
                                info.unmodelled = 'non-literal key store %s' % unparse(t)
                            else:
                                info.add(k, self._reads_env(objcls, st.value, objname, env), st.value,
                                         always=not _is_conditional(pm, st, node))
            if not seeded:
                info.unmodelled = 'returned variable %s has no visible definition' % var
            return
        if isinstance(expr, ast.Call):
            f = expr.func
            # chained saver: _save_data_4(data, context) / super().__gluestate__(context)
            callee = None
            ccls = objcls
            if isinstance(f, ast.Name):
                q = self.ix.resolve_expr(func.module, f)
                callee = self.ix.functions.get(q)
                cobj = None
                if callee is not None and expr.args and isinstance(expr.args[0], ast.Name) and expr.args[0].id == objname:
                    cobj = callee.params[0]
                if callee is not None and cobj is not None:
                    sub = self.saver_keys(callee, ccls, cobj, depth + 1)
                    info.merge(sub, always=not _is_conditional(pm, at, func.node))
                    return
            if isinstance(f, ast.Attribute) and isinstance(f.value, ast.Call) and isinstance(f.value.func, ast.Name) \
                    and f.value.func.id == 'super' and objcls is not None and func.cls is not None:
                m = objcls.resolve(f.attr, after=func.cls)
                if m is not None and m.func is not None:
                    sub = self.saver_keys(m.func, objcls, m.func.params[0], depth + 1)
                    info.merge(sub, always=True)
                    return
            if isinstance(f, ast.Name) and f.id == 'dict' and len(expr.args) == 1:
                info.unmodelled = 'dict(<computed>) - keys discovered at run time'
                return
        info.unmodelled = 'return value %s is not a literal dict' % unparse(expr)[:60]

    # ------------------------------------------------------------------
    # loaders
    def loader_flow(self, func, selfcls, _depth=0):
        lf = LoaderFlow()
        if _depth > 6:
            lf.unmodelled = 'loader chain too deep'
            return lf
        params = func.params
        is_cm = func.has_decorator('classmethod')
        if is_cm:
            clsname, recname = params[0], params[1]
        else:
            clsname, recname = None, params[0]
        lf.recname = recname
        node = func.node
        pm = _parents(node)
        # keys read (closures defined in the loader count as readers, never as unconditional)
        top = set(id(n) for n in walk_no_nested(node))
        for n in ast.walk(node):
            k, kind = _rec_key(n, recname)
            if k is None:
                continue
            if id(n) not in top:
                lf.read.add(k)
                continue
            cond = _is_conditional(pm, n, node) or kind != 'sub'
            guarded = _guarded_by_membership(pm, n, node, recname, k)
            if kind == 'sub' and not cond and not guarded and not _in_try_keyerror(pm, n, node):
                lf.uncond.add(k)
            lf.read.add(k)
        # local environment: name -> set of keys ; flow-insensitive, two passes
        env = {}
        result_vars = {}     # var -> ('class', Class|None, call)
        for _ in range(2):
            for st in walk_no_nested(node):
                if isinstance(st, ast.Assign):
                    keys = self._keys_of(st.value, recname, env)
                    for t in st.targets:
                        if isinstance(t, ast.Name):
                            env.setdefault(t.id, set()).update(keys)
                        elif isinstance(t, (ast.Tuple, ast.List)):
                            for e in t.elts:
                                if isinstance(e, ast.Name):
                                    env.setdefault(e.id, set()).update(keys)
                elif isinstance(st, ast.For):
                    keys = self._keys_of(st.iter, recname, env)
                    for e in ast.walk(st.target):
                        if isinstance(e, ast.Name):
                            env.setdefault(e.id, set()).update(keys)
                elif isinstance(st, ast.comprehension):
                    keys = self._keys_of(st.iter, recname, env)
                    for e in ast.walk(st.target):
                        if isinstance(e, ast.Name):
                            env.setdefault(e.id, set()).update(keys)
        # constructor calls and chained loaders
        for st in walk_no_nested(node):
            if not isinstance(st, ast.Call):
                continue
            built = self._built_class(func, st, clsname, selfcls, env)
            if built is not None:
                kind, k = built
                lf.constructs.append((kind, k, st))
                tcls = k if k is not None else None
                if kind in ('cls', 'lookup'):
                    tcls = selfcls
                if tcls is not None and not self._cls_guard_ok(pm, st, node, clsname, func, tcls):
                    lf.constructs.pop()
                    continue
                if tcls is not None:
                    cf = self.ctor_flow(tcls)
                    mapping, problems = self.bind_ctor(cf, st)
                    lf.ctor_problems.append((tcls, st, problems, mapping is None))
                    related = kind in ('cls', 'lookup') or selfcls is None or tcls.is_subclass_of(selfcls) \
                        or selfcls.is_subclass_of(tcls)
                    if mapping is not None and related:
                        for p, a in mapping.items():
                            keys = self._keys_of(a, recname, env)
                            dst = cf.fields_of_param(p.lstrip('*'))
                            for key in keys:
                                lf.key_fields.setdefault(key, set()).update(dst)
                                lf.key_params.setdefault(key, set()).add(p)
                continue
            # chained loader function
            if isinstance(st.func, ast.Name):
                q = self.ix.resolve_expr(func.module, st.func)
                callee = self.ix.functions.get(q)
                if callee is not None and st.args and isinstance(st.args[0], ast.Name) and st.args[0].id == recname \
                        and callee is not func:
                    sub = self.loader_flow(callee, selfcls, _depth + 1)
                    lf.merge(sub, cond=_is_conditional(pm, st, node))
                    lf.chained.append(callee)
            if isinstance(st.func, ast.Attribute) and isinstance(st.func.value, ast.Call) \
                    and isinstance(st.func.value.func, ast.Name) and st.func.value.func.id == 'super' and selfcls is not None \
                    and func.cls is not None:
                m = selfcls.resolve(st.func.attr, after=func.cls)
                if m is not None and m.func is not None and any(isinstance(a, ast.Name) and a.id == recname for a in st.args):
                    sub = self.loader_flow(m.func, selfcls, _depth + 1)
                    lf.merge(sub, cond=False)
                    lf.chained.append(m.func)
        # result variables (returned or yielded) and post-construction stores
        outnames = set()
        for n in walk_no_nested(node):
            if isinstance(n, (ast.Return, ast.Yield)) and isinstance(n.value, ast.Name):
                outnames.add(n.value.id)
        for st in walk_no_nested(node):
            if isinstance(st, ast.Assign) and len(st.targets) == 1 and isinstance(st.targets[0], ast.Name) \
                    and isinstance(st.value, ast.Call):
                built = self._built_class(func, st.value, clsname, selfcls, env)
                if st.targets[0].id not in outnames:
                    continue
                if built is not None:
                    kind, k = built
                    result_vars[st.targets[0].id] = selfcls if kind in ('cls', 'lookup') else k
                elif lf.chained:
                    result_vars[st.targets[0].id] = selfcls
        for st in walk_no_nested(node):
            if isinstance(st, ast.Assign):
                for t in st.targets:
                    base = t
                    if isinstance(base, ast.Subscript):
                        base = base.value
                    if isinstance(base, ast.Attribute) and isinstance(base.value, ast.Name) and base.value.id in result_vars:
                        tcls = result_vars[base.value.id]
                        keys = self._keys_of(st.value, recname, env)
                        dst = self.writes_of_store(tcls, base.attr) if tcls is not None else {base.attr}
                        for key in keys:
                            lf.key_fields.setdefault(key, set()).update(dst)
                        lf.post_fields |= dst
            elif isinstance(st, ast.Call) and isinstance(st.func, ast.Attribute):
                # result.field.update(<expr>) style in-place stores
                b = st.func.value
                if isinstance(b, ast.Attribute) and isinstance(b.value, ast.Name) and b.value.id in result_vars \
                        and st.func.attr in ('update', 'extend', 'append'):
                    keys = set()
                    for a in st.args:
                        keys |= self._keys_of(a, recname, env)
                    tcls = result_vars[b.value.id]
                    dst = self.reads_of_expr(tcls, b, b.value.id) if tcls is not None else {b.attr}
                    for key in keys:
                        lf.key_fields.setdefault(key, set()).update(dst or {b.attr})
        lf.is_generator = any(isinstance(n, (ast.Yield, ast.YieldFrom)) for n in walk_no_nested(node))
        return lf

    def _cls_guard_ok(self, pm, call, root, clsname, func, tcls):
        """Is this constructor call on a path the concrete class ``tcls`` can take?
        Understands ``if cls is K [or cls is K2]`` / ``issubclass(cls, K)`` guards."""
        if clsname is None:
            return True
        child = call
        cur = pm.get(id(call))
        while cur is not None and cur is not root:
            if isinstance(cur, ast.If):
                v = self._eval_cls_test(cur.test, clsname, func, tcls)
                if v is not None:
                    in_body = any(child is x for x in cur.body)
                    in_else = any(child is x for x in cur.orelse)
                    if in_body and not v:
                        return False
                    if in_else and v:
                        return False
            child = cur
            cur = pm.get(id(cur))
        return True

    def _eval_cls_test(self, test, clsname, func, tcls):
        if isinstance(test, ast.BoolOp):
            vals = [self._eval_cls_test(v, clsname, func, tcls) for v in test.values]
            if any(v is None for v in vals):
                return None
            return any(vals) if isinstance(test.op, ast.Or) else all(vals)
        if isinstance(test, ast.UnaryOp) and isinstance(test.op, ast.Not):
            v = self._eval_cls_test(test.operand, clsname, func, tcls)
            return None if v is None else not v
        if isinstance(test, ast.Compare) and len(test.ops) == 1 and isinstance(test.left, ast.Name) \
                and test.left.id == clsname and isinstance(test.ops[0], (ast.Is, ast.IsNot, ast.Eq, ast.NotEq)):
            k = self.ix.resolve_class(func.module, test.comparators[0])
            if k is None:
                return None
            same = k.qualname == tcls.qualname
            return same if isinstance(test.ops[0], (ast.Is, ast.Eq)) else not same
        if isinstance(test, ast.Call) and isinstance(test.func, ast.Name) and test.func.id == 'issubclass' \
                and len(test.args) == 2 and isinstance(test.args[0], ast.Name) and test.args[0].id == clsname:
            k = self.ix.resolve_class(func.module, test.args[1])
            if k is None:
                return None
            return tcls.is_subclass_of(k)
        return None

    def _keys_of(self, expr, recname, env):
        keys = set()
        if expr is None:
            return keys
        for n in ast.walk(expr):
            k, kind = _rec_key(n, recname)
            if k is not None:
                keys.add(k)
            elif isinstance(n, ast.Name) and n.id in env:
                keys |= env[n.id]
        return keys

    def _built_class(self, func, call, clsname, selfcls, env):
        """('cls', None) for cls(...); ('class', K) for a named in-package class;
        ('lookup', None) for lookup_class_with_patches(rec['_type'])(...)."""
        f = call.func
        if isinstance(f, ast.Name):
            if clsname is not None and f.id == clsname:
                return ('cls', None)
            q = self.ix.resolve_expr(func.module, f)
            k = self.ix.classes.get(q)
            if k is not None:
                return ('class', k)
            # a local bound to lookup_class_with_patches(rec['_type'])
            for st in walk_no_nested(func.node):
                if isinstance(st, ast.Assign) and any(isinstance(t, ast.Name) and t.id == f.id for t in st.targets) \
                        and isinstance(st.value, ast.Call) and 'lookup_class' in unparse(st.value.func):
                    return ('lookup', None)
            return None
        if isinstance(f, ast.Call) and 'lookup_class' in unparse(f.func):
            return ('lookup', None)
        if isinstance(f, ast.Attribute):
            q = self.ix.resolve_expr(func.module, f)
            k = self.ix.classes.get(q)
            if k is not None:
                return ('class', k)
        return None


class CopyResult(object):
    def __init__(self):
        self.behaviour = set()
        self.carried = set()
        self.mismatches = []
        self.pairs = []
        self.problems = []
        self.unmodelled = None


class SaverInfo(object):
    def __init__(self):
        self.keys = {}
        self.values = {}
        self.always = set()
        self.maybe = set()
        self.unmodelled = None
        self.raises = False
        self.empty_literal = False

    def add(self, k, fields, value, always=True):
        self.keys.setdefault(k, set()).update(fields)
        self.values.setdefault(k, []).append(value)
        if always:
            self.always.add(k)
            self.maybe.discard(k)
        elif k not in self.always:
            self.maybe.add(k)

    def merge(self, other, always=True):
        for k, f in other.keys.items():
            self.keys.setdefault(k, set()).update(f)
            self.values.setdefault(k, []).extend(other.values.get(k, []))
        if always:
            self.always |= other.always
            self.maybe |= (other.maybe - self.always)
        else:
            self.maybe |= ((other.always | other.maybe) - self.always)
        self.maybe -= self.always
        if other.unmodelled and not self.unmodelled:
            self.unmodelled = other.unmodelled
        self.empty_literal = self.empty_literal and other.empty_literal

    @property
    def written(self):
        return self.always | self.maybe


class LoaderFlow(object):
    def __init__(self):
        self.recname = None
        self.read = set()
        self.uncond = set()
        self.key_fields = {}
        self.key_params = {}
        self.constructs = []
        self.ctor_problems = []
        self.post_fields = set()
        self.chained = []
        self.is_generator = False
        self.unmodelled = None

    def merge(self, other, cond=False):
        self.read |= other.read
        if not cond:
            self.uncond |= other.uncond
        for k, f in other.key_fields.items():
            self.key_fields.setdefault(k, set()).update(f)
        for k, f in other.key_params.items():
            self.key_params.setdefault(k, set()).update(f)
        self.constructs += other.constructs
        self.ctor_problems += other.ctor_problems
        self.post_fields |= other.post_fields


def _rec_key(n, recname):
    """('key', kind) when node reads a literal key of the record."""
    if isinstance(n, ast.Subscript) and isinstance(n.value, ast.Name) and n.value.id == recname \
            and isinstance(n.slice, ast.Constant) and isinstance(n.slice.value, str) and isinstance(n.ctx, ast.Load):
        return n.slice.value, 'sub'
    if isinstance(n, ast.Call) and isinstance(n.func, ast.Attribute) and n.func.attr in ('get', 'pop') \
            and isinstance(n.func.value, ast.Name) and n.func.value.id == recname and n.args \
            and isinstance(n.args[0], ast.Constant) and isinstance(n.args[0].value, str):
        return n.args[0].value, 'get'
    if isinstance(n, ast.Compare) and len(n.ops) == 1 and isinstance(n.ops[0], (ast.In, ast.NotIn)) \
            and isinstance(n.left, ast.Constant) and isinstance(n.left.value, str) \
            and isinstance(n.comparators[0], ast.Name) and n.comparators[0].id == recname:
        return n.left.value, 'in'
    return None, None


def _parents(root):
    pm = {}
    for n in ast.walk(root):
        for c in ast.iter_child_nodes(n):
            pm[id(c)] = n
    return pm


def _is_conditional(pm, node, root):
    child = node
    cur = pm.get(id(node))
    while cur is not None and cur is not root:
        if isinstance(cur, ast.If) and not (child is cur.test):
            return True
        if isinstance(cur, ast.IfExp) and not (child is cur.test):
            return True
        if isinstance(cur, (ast.For, ast.While)) and (child in cur.body or child in cur.orelse):
            return True
        if isinstance(cur, ast.ExceptHandler):
            return True
        if isinstance(cur, ast.BoolOp) and cur.values and child is not cur.values[0]:
            return True
        if isinstance(cur, (ast.FunctionDef, ast.Lambda)) and cur is not root:
            return True
        child = cur
        cur = pm.get(id(cur))
    return False


def _guarded_by_membership(pm, node, root, recname, key):
    child = node
    cur = pm.get(id(node))
    while cur is not None and cur is not root:
        if isinstance(cur, (ast.If, ast.IfExp)):
            for n in ast.walk(cur.test):
                k, kind = _rec_key(n, recname)
                if k == key and kind == 'in':
                    return True
        child = cur
        cur = pm.get(id(cur))
    return False


def _in_try_keyerror(pm, node, root):
    child = node
    cur = pm.get(id(node))
    while cur is not None and cur is not root:
        if isinstance(cur, ast.Try) and any(child is s for s in cur.body):
            for h in cur.handlers:
                t = unparse(h.type) if h.type is not None else ''
                if h.type is None or 'KeyError' in t or t in ('Exception', 'BaseException'):
                    return True
        child = cur
        cur = pm.get(id(cur))
    return False
