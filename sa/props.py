"""Per-property metadata printed into the evidence files."""
PROPS = {}


def prop(pid, explanation, decides, not_decided, assumptions=()):
    PROPS[pid] = dict(explanation=explanation, decides=decides, not_decided=not_decided,
                      assumptions=list(assumptions))
