"""Per-property metadata printed into the evidence files."""
PROPS = {}


def prop(pid, explanation, decides, not_decided, assumptions=()):
    PROPS[pid] = dict(explanation=explanation, decides=decides, not_decided=not_decided,
                      assumptions=list(assumptions))


def also(pid, text):
    """Clauses added by later rounds (DESIGN.md Parts V and VI)."""
    PROPS[pid]['decides'] += '; ' + text
