"""C03 - linked attributes are reachable exactly through links and carry composed values."""
import ast

from ..index import AnalysisError, dotted_chain, norm, unparse, walk_no_nested, body_stmts
from ..cfg import CFG, EXIT
from ..util import calls_in, call_name, where, returns_of, parent_map, kwarg, guard_chain
from .. import props
from . import common

props.prop(
    'C03',
    explanation='Static (ast + CFG) pairing of every mutation of the link set / the collection with the recomputation of '
                'externally derivable components (must-pass-through modulo the documented suppression guards), of the '
                'hub subscriptions that drive it, of the exception safety of the suppression counters, and of the '
                'removal handlers.',
    decides='that every add/remove of a link, dataset or component reaches update_externally_derivable_components (or the '
            'message that triggers it), that inverse links take part in discovery and every dataset is refreshed, that '
            'the link manager listens to component/dataset removal, and that suppression counters are restored in finally',
    not_decided='the fixpoint of discover_links (reachability, shortest-chain choice), composed values, references held '
                'by other objects',
    assumptions=['links are only added through DataCollection / LinkManager methods'])
props.also('C03',
           'that every attribute of a removed dataset is covered by the dataset-removed handler; that membership of an identifier in a link (collection) is decided from what the link computes with (a collection: from its links)')

LM = 'glue.core.link_manager.LinkManager'
DC = 'glue.core.data_collection.DataCollection'
UPDATE = {'update_externally_derivable_components'}
SYNC = {'_sync_link_manager'}


def run(ctx):
    ix = ctx.index
    ctx.guard(rule_a, ctx, ix)
    ctx.guard(rule_b, ctx, ix)
    ctx.guard(rule_c, ctx, ix)
    ctx.guard(rule_d, ctx, ix)
    ctx.guard(rule_e, ctx, ix)
    ctx.guard(rule_f, ctx, ix)
    ctx.guard(rule_g, ctx, ix)
    ctx.guard(rule_h, ctx, ix)


def _guard_update_external(src):
    s = src.replace(' ', '')
    if s == 'update_external':
        return 'false'
    if s == 'notupdate_external':
        return 'true'
    return None


def _guard_disable(test, fnode=None, selfname='self'):
    """'true' when the test holds exactly when link-manager updates are suppressed, 'false' when it holds exactly when they
    are not; None otherwise.  The test is read as a formula (local names expanded, negations / comparisons with 0 normalised)."""
    from .. import cond
    if isinstance(test, str):
        test = ast.parse(test, mode='eval').body
    f = cond.formula(test, fnode)
    fld = '%s._disable_sync_link_manager' % selfname
    forms = [cond.T("getattr(%s,'_disable_sync_link_manager',False)" % selfname), cond.T(fld), cond.T('lt|0|%s' % fld),
             cond.Not(cond.T('eq|0|%s' % fld)), cond.T("getattr(%s,'_disable_sync_link_manager',0)" % selfname)]
    for a in forms:
        try:
            if cond.equivalent(f, a):
                return 'true'
            if cond.equivalent(f, cond.Not(a)):
                return 'false'
        except ValueError:
            return None
    return None


def rule_a(ctx, ix):
    R = 'C03.a'
    ctx.describe(R, 'every mutation of the link set / the collection reaches the recomputation', floor=12)
    lm = ix.cls(LM)
    dc = ix.cls(DC)
    # LinkManager.add_link / remove_link
    for meth, mut in (('add_link', ('append', 'extend', 'insert')), ('remove_link', ('remove', 'pop'))):
        f = lm.resolve_func(meth)
        if f is None:
            raise AnalysisError('LinkManager.%s vanished' % meth)
        s = f.self_name

        def writes(e, mut=mut, s=s, meth=meth):
            for c in ast.walk(e):
                if isinstance(c, ast.Call) and call_name(c) in mut and '%s._external_links' % s in unparse(c.func):
                    return True
                if isinstance(c, ast.Call) and call_name(c) == meth and unparse(c.func) == '%s.%s' % (s, meth):
                    return True     # delegation to itself for the elements of a list
            return False
        W, U, cfg = common.must_reach(
            ctx, R, f, writes, lambda e: common.has_call(e, UPDATE),
            'the change of the link set is followed by update_externally_derivable_components (unless update_external is off)',
            '%(func)s changes the link set with `%(stmt)s` and can reach its exit without recomputing the externally derivable '
            'components: datasets keep (or lack) attributes that the current links no longer (or now) provide',
            allowed_guard=_guard_update_external)
        if len(W) < 2:
            raise AnalysisError('LinkManager.%s: expected a list branch and a single-link branch' % meth)
        # the recursive call for list elements must not recompute per element *and* skip the final one: it passes False
        for c in calls_in(f.node):
            if call_name(c) == meth and unparse(c.func) == '%s.%s' % (s, meth):
                v = kwarg(c, 'update_external')
                ctx.ob(R, f.construct, 'list elements are ingested with update_external=False and recomputed once at the end',
                       v is not None and isinstance(v, ast.Constant) and v.value is False,
                       detail='%s recurses over list elements without update_external=False' % f.construct, where=where(f, c),
                       nontrivial=False)
    # DataCollection delegations
    for meth in ('add_link', 'remove_link', 'set_links'):
        f = dc.resolve_func(meth)
        if f is None:
            raise AnalysisError('DataCollection.%s vanished' % meth)
        target = 'add_link' if meth == 'set_links' else meth
        cs = [c for c in calls_in(f.node) if call_name(c) == target and '_link_manager' in unparse(c.func)]
        ok = len(cs) == 1
        detail = '%s does not delegate to the link manager\'s %s' % (f.construct, target)
        if ok:
            v = kwarg(cs[0], 'update_external')
            if v is None and len(cs[0].args) > 1:
                v = cs[0].args[1]
            if v is not None:
                t = unparse(v).replace(' ', '')
                ok = t == 'True' or _guard_disable(v, f.node, f.self_name) == 'false'
                detail = '%s passes update_external=%s: links are ingested without recomputing what the datasets can derive' \
                         % (f.construct, unparse(v))
        ctx.ob(R, f.construct, 'delegates to LinkManager.%s with recomputation on (unless suppressed)' % target, ok,
               detail=detail, where=f.where)
        if meth == 'set_links':
            clr = [c for c in calls_in(f.node) if call_name(c) in ('clear_links', 'clear') and '_link_manager' in unparse(c.func)]
            ok = bool(clr) and bool(cs) and clr[0].lineno < cs[0].lineno
            ctx.ob(R, f.construct, 'old links are cleared before the new ones are ingested (which recomputes)', ok,
                   detail='%s does not clear the old links before add_link, or clears after it (no recomputation follows)' % f.construct,
                   where=f.where)
    # DataCollection.append / extend
    f = dc.resolve_func('append')
    if f is None:
        raise AnalysisError('DataCollection.append vanished')
    s = f.self_name
    W, U, cfg = common.must_reach(
        ctx, R, f,
        lambda e: any(isinstance(c, ast.Call) and call_name(c) in ('append', 'insert') and unparse(c.func).startswith('%s._data.' % s)
                      for c in ast.walk(e)),
        lambda e: common.has_call(e, SYNC) or any(isinstance(c, ast.Call) and unparse(c.func) == '%s.extend' % s for c in ast.walk(e)),
        'adding a dataset is followed by _sync_link_manager',
        '%(func)s adds the dataset with `%(stmt)s` and can reach its exit without synchronising the link manager: the new '
        'dataset cannot read attributes reachable through existing links (and vice versa)')
    if not W:
        raise AnalysisError('DataCollection.append: store into _data not recognised')
    f = dc.resolve_func('extend')
    ok = f is not None and any(call_name(c) in SYNC for st in body_stmts(f.node) if not isinstance(st, ast.With) for c in calls_in(st))
    ctx.ob(R, dc.construct + '.extend', 'extend synchronises once after its suppressed loop', ok,
           detail='DataCollection.extend suppresses link updates for its loop but does not synchronise afterwards', where=dc.where)
    # _sync_link_manager really recomputes
    f = dc.resolve_func('_sync_link_manager')
    if f is None:
        raise AnalysisError('DataCollection._sync_link_manager vanished')
    cfg = CFG(f.node)
    U = set(common.nodes_where(cfg, lambda e: common.has_call(e, UPDATE)))
    pruned = set()
    for n in cfg.nodes():
        if cfg.kind[n] == 'if' and _guard_disable(cfg.stmt[n].test, f.node, f.self_name):
            pruned.add((n, _guard_disable(cfg.stmt[n].test, f.node, f.self_name)))
    from ..cfg import ENTRY
    path = cfg.path_avoiding(ENTRY, EXIT, avoid=U, labels_excluded=('exc', 'raise'), pruned_edges=pruned)
    ctx.ob(R, f.construct, 'unless suppressed, synchronising recomputes the externally derivable components', path is None and bool(U),
           detail='DataCollection._sync_link_manager can return without calling update_externally_derivable_components '
                  'although updates are not suppressed', where=f.where, path=cfg.guards_on_path(path) if path else None)
    # delay_link_manager_update synchronises at the end
    f = dc.resolve_func('delay_link_manager_update')
    if f is None:
        raise AnalysisError('DataCollection.delay_link_manager_update vanished')
    ys = [n for n in walk_no_nested(f.node) if isinstance(n, ast.Yield)]
    ok = bool(ys) and any(call_name(c) in SYNC and c.lineno > ys[0].lineno for c in calls_in(f.node))
    ctx.ob(R, f.construct, 'the delayed update is performed when the block closes', ok,
           detail='delay_link_manager_update never synchronises after its block: links added inside stay inactive', where=f.where)
    # the recomputation itself: inverse links included, every dataset refreshed
    f = lm.resolve_func('update_externally_derivable_components')
    if f is None:
        raise AnalysisError('LinkManager.update_externally_derivable_components vanished')
    disc = [c for c in calls_in(f.node) if call_name(c) == 'discover_links']
    ok = len(disc) == 1 and len(disc[0].args) >= 2
    if ok:
        t = unparse(disc[0].args[1]).replace(' ', '')
        s = f.self_name
        ok = t in ('%s._links|%s._inverse_links' % (s, s), '%s._inverse_links|%s._links' % (s, s),
                   '%s._links.union(%s._inverse_links)' % (s, s))
    ctx.ob(R, f.construct, 'discovery uses the links and their inverses', ok,
           detail='update_externally_derivable_components hands %s to discover_links: two-way links work in one direction only'
                  % (unparse(disc[0].args[1]) if disc and len(disc[0].args) > 1 else '<nothing>'), where=f.where)
    pm = parent_map(f.node)
    inst = [c for c in calls_in(f.node) if call_name(c) == '_set_externally_derivable_components']
    ok = len(inst) == 1
    if ok:
        gs = guard_chain(pm, inst[0], f.node)
        loops = [g for g, br in gs if isinstance(g, ast.For)]
        conds = [g for g, br in gs if isinstance(g, (ast.If, ast.Try))]
        ok = len(loops) == 1 and not conds and unparse(inst[0].func.value) == unparse(loops[0].target)
    ctx.ob(R, f.construct, 'every dataset of the collection receives its recomputed components', ok,
           detail='the recomputed components are not installed unconditionally on each dataset of the loop', where=f.where)
    # what is installed is what was discovered
    if inst and disc:
        loop = [g for g, br in guard_chain(pm, inst[0], f.node) if isinstance(g, ast.For)]
        ok = bool(loop) and any(disc[0] is n for n in ast.walk(loop[0])) and \
            unparse(disc[0].args[0]) == unparse(loop[0].target)
        ctx.ob(R, f.construct, 'links are discovered for the dataset they are installed on', ok,
               detail='discover_links is not evaluated for the dataset of the installing loop', where=f.where)


def rule_b(ctx, ix):
    R = 'C03.b'
    ctx.describe(R, 'subscriptions that drive the recomputation', floor=5)
    lm = ix.cls(LM)
    dc = ix.cls(DC)
    f = lm.resolve_func('register_to_hub')
    if f is None:
        raise AnalysisError('LinkManager.register_to_hub vanished')
    subs = _subscriptions(ix, f)
    for msg, handler in (('glue.core.message.DataRemoveComponentMessage', '_component_removed'),
                         ('glue.core.message.DataCollectionDeleteMessage', '_data_removed')):
        hs = [h for m, h, flt in subs if m == msg]
        ok = any(h is not None and h.endswith('.' + handler) for h in hs)
        ctx.ob(R, f.construct, '%s is handled by %s' % (msg.rpartition('.')[2], handler), ok,
               detail='LinkManager no longer subscribes %s to %s: links touching removed objects stay registered'
                      % (handler, msg.rpartition('.')[2]), where=f.where)
    g = dc.resolve_func('register_to_hub')
    subs = _subscriptions(ix, g)
    hs = [(h, flt) for m, h, flt in subs if m == 'glue.core.message.ComponentsChangedMessage']
    ok = any(h is not None and '_sync_link_manager' in h for h, flt in hs)
    ctx.ob(R, g.construct, 'ComponentsChangedMessage triggers _sync_link_manager', ok,
           detail='DataCollection no longer synchronises the link manager when the components of a dataset change',
           where=g.where)
    ok = any(flt is not None and 'sender' in flt and '_data' in flt for h, flt in hs)
    ctx.ob(R, g.construct, 'the subscription is filtered on membership of the sender', ok,
           detail='the ComponentsChangedMessage subscription is not filtered on `sender in self._data`', where=g.where,
           nontrivial=False)
    init = dc.resolve_func('__init__')
    cs = [unparse(c.func) for c in calls_in(init.node)]
    s = init.self_name
    ok = ('%s.register_to_hub' % s) in cs and ('%s._link_manager.register_to_hub' % s) in cs
    ctx.ob(R, init.construct, 'the collection registers itself and its link manager to the hub', ok,
           detail='DataCollection.__init__ does not register both itself and its link manager to the hub', where=init.where)


def _subscriptions(ix, f):
    """[(message qualname, handler source, filter source)] of hub.subscribe calls in f."""
    out = []
    for c in calls_in(f.node):
        if call_name(c) != 'subscribe' or len(c.args) < 2:
            continue
        msg = ix.resolve_expr(f.module, c.args[1])
        h = kwarg(c, 'handler')
        if h is None and len(c.args) > 2:
            h = c.args[2]
        flt = kwarg(c, 'filter')
        if flt is None and len(c.args) > 3:
            flt = c.args[3]
        # a handler given by the name of a nested function / a lambda bound to a local: what that function does
        if isinstance(h, ast.Name):
            hname = h.id
            for d in ast.walk(f.node):
                if isinstance(d, ast.FunctionDef) and d.name == hname and d is not f.node:
                    h = ast.Lambda(args=d.args, body=ast.Tuple(elts=[x.value for x in d.body if isinstance(x, (ast.Return, ast.Expr)) and x.value is not None], ctx=ast.Load())) \
                        if all(isinstance(x, (ast.Return, ast.Expr)) for x in d.body) else d
                elif isinstance(d, ast.Assign) and len(d.targets) == 1 and isinstance(d.targets[0], ast.Name) and d.targets[0].id == hname \
                        and isinstance(d.value, ast.Lambda):
                    h = d.value
        out.append((msg, unparse(h) if h is not None else None, unparse(flt) if flt is not None else None))
    return out


def rule_c(ctx, ix):
    R = 'C03.c'
    ctx.describe(R, 'suppression counters are restored in finally', floor=2)
    n = 0
    for m, node, construct in common.contextmanager_funcs(ix):
        if m.name != 'glue.core.data_collection':
            continue
        n += common.check_contextmanager(ctx, R, m, node, construct) or 0
    if n < 2:
        raise AnalysisError('R-CM matched %d restore sites in data_collection' % n)


def rule_d(ctx, ix):
    R = 'C03.d'
    ctx.describe(R, 'removal handlers examine every link and remove through remove_link without mutating while iterating', floor=4)
    lm = ix.cls(LM)
    for meth in ('_component_removed', '_data_removed'):
        f = lm.resolve_func(meth)
        if f is None:
            raise AnalysisError('LinkManager.%s vanished' % meth)
        s = f.self_name
        from ..util import iterations, short_circuits
        pm = parent_map(f.node)
        forms = ('%s._external_links' % s, 'list(%s._external_links)' % s, '%s._external_links[:]' % s, 'tuple(%s._external_links)' % s)
        scan = [(it, tg, owner, kind) for it, tg, owner, kind in iterations(f.node) if unparse(it).replace(' ', '') in forms]
        ok = len(scan) == 1
        if ok:
            it, tg, owner, kind = scan[0]
            if kind == 'for':
                ok = not any(isinstance(n, (ast.Break, ast.Return)) and _direct_loop(owner, n) for n in ast.walk(owner))
            else:
                ok = not short_circuits(pm, owner)
        ctx.ob(R, f.construct, 'every external link is examined', ok,
               detail='%s does not examine every external link' % f.construct, where=f.where)
        if not ok:
            continue
        it, tg, lp, kind = scan[0]
        live = unparse(it) == '%s._external_links' % s
        mut_inside = kind == 'for' and any(call_name(c) in ('remove_link', 'remove', 'pop') and ('_external_links' in unparse(c.func) or
                                           unparse(c.func) == '%s.remove_link' % s) for c in calls_in(lp))
        ctx.ob(R, f.construct, 'the link list is not mutated while it is iterated', not (live and mut_inside),
               detail='%s removes links inside the loop over the live link list: every other matching link is skipped' % f.construct,
               where=where(f, lp))
        if meth == '_data_removed':
            # which attributes of the removed dataset are looked for in the links: all of them (a link may end in a derived
            # attribute as well as in a main or coordinate one)
            from ..util import expand_locals
            msg_p = f.params[1]
            nested_ = {id(x_) for d_ in ast.walk(f.node) if isinstance(d_, (ast.FunctionDef, ast.Lambda)) and d_ is not f.node
                       for x_ in ast.walk(d_)}
            inner = [(it2, tg2) for it2, tg2, owner2, kind2 in iterations(f.node)
                     if (msg_p + '.data') in unparse(expand_locals(f.node, it2)) and owner2 is not lp and id(owner2) not in nested_
                     and not any(isinstance(x_, (ast.ListComp, ast.GeneratorExp, ast.SetComp, ast.DictComp))
                                 for x_ in ast.walk(expand_locals(f.node, it2)))]
            if len(inner) != 1:
                raise AnalysisError('%s: the loop over the attributes of the removed dataset is not recognised' % f.construct)
            coll = unparse(expand_locals(f.node, inner[0][0])).replace(' ', '')
            d_ = msg_p + '.data'
            whole = any(coll == d_ + suf or coll in ('list(%s%s)' % (d_, suf), 'tuple(%s%s)' % (d_, suf))
                        for suf in ('.components', '.component_ids()', '._components', '._components.keys()'))
            cats = {c_ for c_ in ('main_components', 'derived_components', 'coordinate_components', 'pixel_component_ids',
                                  'world_component_ids') if (d_ + '.' + c_) in coll}
            union = {'main_components', 'derived_components', 'coordinate_components'} <= cats
            ctx.idiom(R, f.construct + ' attributes', 'every attribute of the removed dataset (main, derived, coordinate) is looked for in the links',
                      accepted=whole or union, absent=bool(cats) and not union,
                      detail_absent='%s looks only for %s of the removed dataset in the links (`%s`): a link that ends in one of its '
                                    'other attributes (e.g. a derived one) stays registered after the dataset left, and the other '
                                    'datasets keep attributes derived from it' % (f.construct, sorted(cats), coll),
                      shape=coll, where=where(f, lp))
        rm = [c for c in calls_in(f.node) if unparse(c.func) == '%s.remove_link' % s]
        ctx.ob(R, f.construct, 'matching links are removed through remove_link (which recomputes)', bool(rm),
               detail='%s no longer removes the links it found through remove_link: the datasets keep the derived attributes'
                      % f.construct, where=f.where)


def rule_e(ctx, ix, only=None):
    """The "nothing changed" shortcuts that skip installing recomputed link information must compare the values, not only the keys."""
    R = 'C03.e'
    ctx.describe(R, 'no-change shortcuts compare what they are about to replace (values, not only keys)', floor=2 if only is None else len(only))
    base = ix.cls('glue.core.data.BaseCartesianData')
    rows = [('_set_externally_derivable_components', '_externally_derivable_components', '.link',
             'the link each attribute is derived through'),
            ('_set_pixel_aligned_data', '_pixel_aligned_data', '[', 'the axis order stored for each aligned dataset')]
    for meth, field, needle, what in rows:
        if only is not None and meth not in only:
            continue
        f = base.resolve_func(meth)
        if f is None:
            raise AnalysisError('BaseCartesianData.%s vanished' % meth)
        s = f.self_name
        new = f.params[1]
        store = [st for st in walk_no_nested(f.node) if isinstance(st, ast.Assign) and unparse(st.targets[0]) == '%s.%s' % (s, field)]
        if len(store) != 1:
            raise AnalysisError('%s: store of %s not recognised' % (f.construct, field))
        early = [r for r in ast.walk(f.node) if isinstance(r, ast.Return) and r.lineno < store[0].lineno]
        if not early:
            ctx.ob(R, f.construct, 'no shortcut: the recomputed information is always installed', True, nontrivial=False)
            continue
        cmps = []
        for n in ast.walk(f.node):
            if isinstance(n, ast.Compare) and getattr(n, 'lineno', 0) < store[0].lineno:
                from ..util import expand_locals as _xl
                l, r = unparse(_xl(f.node, n.left)), unparse(_xl(f.node, n.comparators[0]))
                sides = l + ' ' + r
                if ('%s.%s[' % (s, field) in sides) and ('%s[' % new in sides) and \
                        isinstance(n.ops[0], (ast.IsNot, ast.Is, ast.NotEq, ast.Eq)):
                    # the compared operands are the stored / new values themselves (`...[k].link`, `...[k]`), not something derived from them
                    if needle == '[':
                        if l.rstrip().endswith(']') and r.rstrip().endswith(']'):
                            cmps.append(n)
                    elif l.endswith(needle) and r.endswith(needle):
                        cmps.append(n)
        # ... and the comparison decides: whenever the compared values differ, the "unchanged" exit is not taken (the loop is
        # left through a break) - a difference that only counts together with some weaker test does not protect anything
        if cmps:
            from .. import cond as _c
            from ..util import parent_map as _pm, enclosing as _enc
            pmf = _pm(f.node)
            decisive = True
            for n in cmps:
                lp = _enc(pmf, n, (ast.For, ast.While))
                if lp is None:
                    continue
                st = n
                while st is not None and not isinstance(st, ast.stmt):
                    st = pmf.get(id(st))
                breaks = [b for b in ast.walk(lp) if isinstance(b, (ast.Break,)) and _enc(pmf, b, (ast.For, ast.While)) is lp]
                if not breaks:
                    continue
                try:
                    B = _c.Or(*[_c.path_condition(f.node, b) or ('const', False) for b in breaks])
                    differs = _c.formula(n, f.node)
                    if isinstance(n.ops[0], (ast.Is, ast.Eq)):
                        differs = _c.Not(differs)
                    reach = _c.path_condition(f.node, st) or ('const', True)
                    if not _c.implies(_c.And(reach, differs), B):
                        decisive = False
                except ValueError:
                    pass
            if not decisive:
                cmps = []
        ctx.ob(R, f.construct, 'the shortcut compares %s of the stored and the new mapping' % what, bool(cmps),
               detail='%s returns early ("unchanged") without comparing %s: when the same attributes become reachable through other '
                      'links (a link replaced by one with another function, a shorter chain added) the dataset keeps deriving them '
                      'through the old links' % (f.construct, what), where=where(f, early[-1]))


def rule_f(ctx, ix):
    """The set of links handed to discovery, the inverse of a two-way link, and the bookkeeping of the closure."""
    R = 'C03.f'
    ctx.describe(R, 'link set = internal + external (collections expanded); inverse link swaps ends and functions; closure bookkeeping', floor=7)
    lm = ix.cls(LM)
    m = lm.resolve('_links')
    if m is None or m.fget is None:
        raise AnalysisError('LinkManager._links vanished')
    f = m.fget
    rets = [unparse(r.value).replace(' ', '') for r in returns_of(f) if r.value is not None]
    # the union of two local sets: one collected from the datasets' own links, the other from the external links
    union_ok = False
    for r in returns_of(f):
        v = r.value
        if isinstance(v, ast.BinOp) and isinstance(v.op, ast.BitOr) and isinstance(v.left, ast.Name) and isinstance(v.right, ast.Name):
            srcs = []
            for nm in (v.left.id, v.right.id):
                txt = ' '.join(unparse(st) for st in ast.walk(f.node)
                               if isinstance(st, (ast.Assign, ast.For, ast.Expr)) and any(isinstance(n, ast.Name) and n.id == nm for n in ast.walk(st)))
                srcs.append(('data_collection' in txt and "'links'" in txt, '_external_links' in txt))
            union_ok = (srcs[0][0] and srcs[1][1]) or (srcs[1][0] and srcs[0][1])
        elif isinstance(v, ast.Call) and call_name(v) == 'union':
            union_ok = True
    ctx.ob(R, f.construct, 'the link set is the union of the datasets\' internal links and the external links', union_ok,
           detail='LinkManager._links returns %s' % rets, where=f.where)
    exp = False
    from .. import cond as _c
    from ..util import parent_map as _pm, enclosing as _enc
    pmf = _pm(f.node)
    for lp in [n for n in walk_no_nested(f.node) if isinstance(n, ast.For) and '_external_links' in unparse(n.iter)]:
        # the condition under which each `add` runs, whichever way the branches are written
        tv = unparse(lp.target)
        coll = _c.T('isinstance(%s,LinkCollection)' % tv)
        member, plain = None, None
        for c in calls_in(lp, nested=True):
            if call_name(c) not in ('add', 'update'):
                continue
            st = c
            while st is not None and not isinstance(st, ast.stmt):
                st = pmf.get(id(st))
            inner = _enc(pmf, c, (ast.For,))
            if inner is not None and inner is not lp and unparse(inner.iter) == tv:
                # added inside a loop over the members of the collection: the loop must run exactly for collections
                pc = _c.path_condition(f.node, inner)
                member = pc if member is None else _c.Or(member, pc)
            elif call_name(c) == 'update' and c.args and unparse(c.args[0]) == tv:
                pc = _c.path_condition(f.node, st)
                member = pc if member is None else _c.Or(member, pc)
            elif c.args and unparse(c.args[0]) == tv:
                pc = _c.path_condition(f.node, st)
                plain = pc if plain is None else _c.Or(plain, pc)
        try:
            exp = member is not None and plain is not None and _c.equivalent(member, coll) and _c.equivalent(plain, _c.Not(coll))
        except ValueError:
            exp = False
    ctx.ob(R, f.construct + ' collections', 'link collections contribute each of their member links; plain links contribute themselves', exp,
           detail='LinkManager._links no longer expands LinkCollection objects into their member links (or drops plain links)', where=f.where)
    m = lm.resolve('_inverse_links')
    g = m.fget if m is not None else None
    if g is None:
        raise AnalysisError('LinkManager._inverse_links vanished')
    txt = ' '.join(unparse(r.value) for r in returns_of(g) if r.value is not None).replace(' ', '')
    ctx.ob(R, g.construct, 'the inverse of every link that has one is included', 'link.inverseforlinkin' in txt and '_links' in txt and 'isnotNone' in txt,
           detail='LinkManager._inverse_links is computed as %s' % txt, where=g.where)
    # the inverse component link: from [to] to from[0], using the inverse function, whose inverse is the forward function
    cl = ix.cls('glue.core.component_link.ComponentLink')
    init = cl.resolve_func('__init__')
    s = init.self_name
    cs = [c for c in calls_in(init.node) if call_name(c) == 'ComponentLink']
    ok = len(cs) == 1
    if ok:
        c = cs[0]
        a = [unparse(x).replace(' ', '') for x in c.args]
        k = {x.arg: unparse(x.value) for x in c.keywords}
        ok = a[:2] == ['[%s._to]' % s, '%s._from[0]' % s] and k.get('using') == '%s._inverse' % s and \
            k.get('inverse') == '%s._using' % s and k.get('inverse_component_link') == s
    ctx.ob(R, init.construct, 'the inverse link goes from [to] to from[0], using the inverse function (and back)', ok,
           detail='ComponentLink builds its inverse as %s: a two-way link computes the wrong direction or with the wrong function'
                  % (unparse(cs[0]) if cs else None), where=init.where)
    # discovery bookkeeping
    d = ix.func('glue.core.link_manager.discover_links')
    al = ix.func('glue.core.link_manager.accessible_links')
    t = ' '.join(unparse(r.value) for r in returns_of(al) if r.value is not None).replace(' ', '')
    ctx.idiom(R, al.construct, 'a link is usable when all of its inputs are known', accepted='set(l.get_from_ids())<=cids' in t,
              absent=('get_from_ids' not in t) or ('&cids' in t) or ('isdisjoint' in t) or ('>=cids' in t),
              detail_absent='accessible_links no longer requires *all* inputs of a link to be known (%s): links are applied to datasets that cannot evaluate them' % t, shape=t, where=al.where)
    from .. import cond
    from ..util import expand_locals
    loops = [n for n in walk_no_nested(d.node) if isinstance(n, ast.For) and 'accessible_links' in unparse(n.iter)]
    if len(loops) != 1:
        raise AnalysisError('discover_links: loop over the accessible links not recognised')
    lp = loops[0]
    if not (isinstance(lp.iter, ast.Call) and lp.iter.args and isinstance(lp.iter.args[0], ast.Name) and isinstance(lp.target, ast.Name)):
        raise AnalysisError('discover_links: the loop is not `for link in accessible_links(<known set>, links)`')
    known, link = lp.iter.args[0].id, lp.target.id
    rets = [r.value for r in returns_of(d) if r.value is not None]
    if len(rets) != 1 or not isinstance(rets[0], ast.Name):
        raise AnalysisError('discover_links: the returned mapping is not a single name')
    result = rets[0].id

    def is_target(e):
        return unparse(expand_locals(d.node, e)).replace(' ', '') == '%s.get_to_id()' % link
    # the three records: <depths>[target] = cost ; <known>.add(target) ; <result>[target] = link
    recs = {}
    for st in ast.walk(lp):
        if isinstance(st, ast.Assign) and isinstance(st.targets[0], ast.Subscript) and is_target(st.targets[0].slice):
            base = unparse(st.targets[0].value)
            if base == result and unparse(st.value) == link:
                recs['link'] = st
            elif base != result:
                recs['depth'] = st
        elif isinstance(st, ast.Expr) and isinstance(st.value, ast.Call) and call_name(st.value) == 'add' \
                and unparse(st.value.func.value) == known and st.value.args and is_target(st.value.args[0]):
            recs['known'] = st
    pm = parent_map(d.node)
    together = len(recs) == 3 and len({id(pm.get(id(st))) for st in recs.values()}) == 1
    ctx.ob(R, d.construct, 'a newly derivable attribute is recorded with its cost, its link and as known, together', together,
           detail='discover_links no longer records <depth>[target] = cost, <known>.add(target) and <result>[target] = link in one block: '
                  'found %s' % sorted(recs), where=where(d, lp))
    if together:
        depth = unparse(recs['depth'].targets[0].value)
        cost_e = expand_locals(d.node, recs['depth'].value)
        # local helper functions (def _cost(link): return ...) are expanded by the inliner; a plain name is expanded above
        tgt = '%s.get_to_id()' % link
        pc = cond.path_condition(d.node, recs['depth'])
        if pc is None:
            raise AnalysisError('discover_links: the record statement is not reachable in the loop body')
        cost_txt = unparse(recs['depth'].value).replace(' ', '')
        a_known = cond.T('in|%s|%s' % (tgt, known))
        # cost < depth[target]
        cheaper = [k for k in cond.atoms(pc) if k.startswith('lt|') and ('%s[%s]' % (depth, tgt)) in k]
        keep = lambda k: k == a_known[1] or k in cheaper
        got = cond.restrict(pc, keep)
        want = None
        if len(cheaper) == 1:
            lt = cond.T(cheaper[0])
            left, right = cheaper[0].split('|')[1:]
            # lt|cost|depth[t]  (cost < depth)   or   lt|depth[t]|cost (depth < cost, i.e. the negation of cost <= depth)
            if right == '%s[%s]' % (depth, tgt):
                want = cond.Or(cond.Not(a_known), lt)
        ctx.idiom(R, d.construct + ' shortest', 'a known attribute is re-derived only through a strictly cheaper chain',
                  accepted=want is not None and cond.equivalent(got, want),
                  absent=not cheaper or (want is not None and not cond.equivalent(got, want)),
                  detail_absent='discover_links records a link for an attribute under the condition `%s`: it no longer skips links that do '
                                'not strictly shorten the chain to an already known attribute, so the chain that is installed is not a '
                                'shortest one (or the closure does not terminate)' % (got,), shape=str(got), where=where(d, lp))
        # cost = max(depth of the inputs) + 1
        ce = cost_e
        alts = [ce]
        if isinstance(ce, ast.IfExp):
            alts = [ce.body, ce.orelse]
        else:
            # if len(from_) > 0: cost = max(...) + 1 else: cost = 1
            name = recs['depth'].value.id if isinstance(recs['depth'].value, ast.Name) else None
            if name:
                alts = [st.value for st in ast.walk(lp) if isinstance(st, ast.Assign) and unparse(st.targets[0]) == name] or [ce]
        alts = [x for a in alts for x in ([a.body, a.orelse] if isinstance(a, ast.IfExp) else [a])]
        ok = False
        for a in alts:
            a = expand_locals(d.node, a)
            if isinstance(a, ast.BinOp) and isinstance(a.op, ast.Add) and isinstance(a.right, ast.Constant) and a.right.value == 1 \
                    and isinstance(a.left, ast.Call) and call_name(a.left) == 'max' and a.left.args:
                g = a.left.args[0]
                if isinstance(g, (ast.ListComp, ast.GeneratorExp)) and isinstance(g.elt, ast.Subscript) and unparse(g.elt.value) == depth \
                        and 'get_from_ids' in unparse(expand_locals(d.node, g.generators[0].iter)) and unparse(g.elt.slice) == unparse(g.generators[0].target):
                    ok = True
        ctx.ob(R, d.construct + ' cost', 'the cost of a chain is one more than its most expensive input', ok,
               detail='discover_links no longer computes the cost of a link as max(depth of its inputs) + 1 (found `%s`)' % unparse(cost_e)[:120],
               where=where(d, lp), nontrivial=False)


def _direct_loop(loop, node):
    """Is ``node`` (a break/return) attached to ``loop`` itself rather than to an inner loop?"""
    for n in ast.walk(loop):
        if n is loop:
            continue
        if isinstance(n, (ast.For, ast.While)) and any(x is node for x in ast.walk(n)):
            return False
    return True


def run_thorough(ctx):
    """Package-wide sweep of R-CM: every @contextmanager generator of the package restores its state in finally."""
    ix = ctx.index
    R = 'C03.c+'
    ctx.describe(R, 'link/collection/dataset modules: context managers restore their state in finally')
    for m, node, construct in common.contextmanager_funcs(ix):
        if m.name not in ('glue.core.data_collection', 'glue.core.link_manager', 'glue.core.data', 'glue.core.link_helpers'):
            continue
        n = common.check_contextmanager(ctx, R, m, node, construct)
        if not n:
            ctx.ob(R, construct, 'nothing stored before the yield needs restoring', True, nontrivial=False)


def rule_g(ctx, ix):
    """The link manager learns that an attribute is gone from the message remove_component broadcasts (C03.b checks the
    subscription).  An attribute that leaves `_components` anywhere else leaves its links registered: other datasets keep reading it."""
    from ..util import key_removals
    R = 'C03.g'
    ctx.describe(R, 'attributes leave a dataset only through remove_component, whose message the link manager listens to', floor=1)
    data = ix.cls('glue.core.data.Data')
    rc = data.resolve_func('remove_component')
    if rc is None:
        raise AnalysisError('Data.remove_component vanished')
    says = any(call_name(c) == 'DataRemoveComponentMessage' for c in calls_in(rc.node))
    ctx.ob(R, rc.construct, 'remove_component announces the removal with DataRemoveComponentMessage', says,
           detail='Data.remove_component no longer broadcasts DataRemoveComponentMessage: the link manager keeps the links of the '
                  'removed attribute', where=rc.where)
    n = 0
    mod = ix.module('glue.core.data')
    for cls in [c for c in ix.classes.values() if c.module is mod]:
        for name, mem in sorted(cls.members.items()):
            for g in (mem.func, mem.fget, mem.fset):
                if g is None or g.cls is not cls:
                    continue
                for node_, key_ in key_removals(g.node, '_components'):
                    n += 1
                    from .C17 import self_announcing
                    ok = g.name == 'remove_component' or self_announcing(g.node, node_, '_components')
                    ctx.ob(R, '%s `%s`' % (g.construct, norm(node_) if isinstance(node_, ast.stmt) else unparse(node_)),
                           'the attribute is dropped by remove_component itself', ok,
                           detail='%s drops an attribute from the dataset with `%s` without going through remove_component: no '
                                  'DataRemoveComponentMessage is sent for it, the link manager keeps every link that touches it, and other '
                                  'datasets can still read (and select on) an attribute that no longer exists'
                                  % (g.construct, unparse(node_)[:80]), where=where(g, node_))
    if n < 1:
        raise AnalysisError('C03.g: no removal from _components found in glue.core.data')


def rule_h(ctx, ix):
    """The removal handlers of the link manager drop every link that touches a removed attribute, and they ask the link itself
    (`cid in link`).  The answer has to come from what the link computes with: a single link from its inputs and its output, a
    collection of links from the links it holds (LinkAligned is built with no declared identifiers at all)."""
    R = 'C03.h'
    ctx.describe(R, 'membership of an identifier in a link is decided from what the link computes with (a collection: from its links)', floor=2)
    lm = ix.cls('glue.core.link_manager.LinkManager')
    for hname in ('_component_removed', '_data_removed'):
        h = lm.resolve_func(hname)
        if h is None:
            raise AnalysisError('LinkManager.%s vanished' % hname)
    cl = ix.cls('glue.core.component_link.ComponentLink')
    f = cl.resolve_func('__contains__')
    if f is None:
        raise AnalysisError('ComponentLink.__contains__ vanished')
    me = f.self_name
    reads = {n.attr for n in ast.walk(f.node) if isinstance(n, ast.Attribute) and isinstance(n.value, ast.Name) and n.value.id == me}
    reads |= {c.func.attr for c in calls_in(f.node) if isinstance(c.func, ast.Attribute) and isinstance(c.func.value, ast.Name) and c.func.value.id == me}
    ins = ({'_from', 'get_from_ids'} & reads) and ({'_to', 'get_to_id'} & reads)
    ctx.ob(R, f.construct, 'a link contains its inputs and its output', bool(ins),
           detail='ComponentLink.__contains__ reads only %s: a link whose %s is removed stays registered' % (
               sorted(reads), 'output' if ({'_from', 'get_from_ids'} & reads) else 'input'), where=f.where)
    lc = ix.cls('glue.core.link_helpers.LinkCollection')
    g = lc.resolve_func('__contains__')
    if g is None:
        raise AnalysisError('LinkCollection.__contains__ vanished')
    me = g.self_name
    it = lc.resolve_func('__iter__')
    through_iter = it is not None and any(isinstance(n, ast.Attribute) and n.attr == '_links' for n in ast.walk(it.node))
    sources = ('%s._links' % me,) + ((me,) if through_iter else ())
    asked = False
    loops = [(n.target, n.iter) for n in ast.walk(g.node) if isinstance(n, ast.For)] + \
            [(c.target, c.iter) for n in ast.walk(g.node) if isinstance(n, (ast.GeneratorExp, ast.ListComp, ast.SetComp)) for c in n.generators]
    for tgt, itx in loops:
        src = unparse(itx)
        if src in sources or src in tuple('%s(%s)' % (w, s_) for w in ('list', 'tuple', 'iter') for s_ in sources):
            for n in ast.walk(g.node):
                if isinstance(n, ast.Compare) and len(n.ops) == 1 and isinstance(n.ops[0], ast.In) and unparse(n.comparators[0]) == unparse(tgt) \
                        and unparse(n.left) == g.params[1]:
                    asked = True
    ctx.idiom(R, g.construct, 'a collection contains what one of its links contains', accepted=asked, absent=not asked and not any(
        isinstance(n, ast.Attribute) and n.attr == '_links' for n in ast.walk(g.node)) and not any(
        isinstance(n_, (ast.For, ast.comprehension)) and unparse(n_.iter) == me for n_ in ast.walk(g.node)),
        detail_absent='LinkCollection.__contains__ no longer asks its links: collections whose links use identifiers other than the '
                      'declared cids1 / cids2 (LinkAligned declares none) are never found by LinkManager._component_removed / '
                      '_data_removed, so their links survive the removal of the dataset they refer to',
        shape='`%s`' % ' ; '.join(norm(st) for st in body_stmts(g.node))[:200], where=g.where)
