"""C16 - a fixed-resolution buffer equals nearest-pixel resampling through the links (partial)."""
import ast

from ..index import AnalysisError, dotted_chain, norm, unparse, walk_no_nested, body_stmts
from ..cfg import CFG, ENTRY
from ..util import calls_in, call_name, where, returns_of, kwarg, parent_map, guard_chain
from .. import props
from . import common

props.prop(
    'C16',
    explanation='Static (ast + CFG) decision of the cache structure of compute_fixed_resolution_buffer: the array-cache key '
                'contains every parameter the returned array depends on (on both the value and the mask variant) and the stored '
                'key is the compared key; every read of the per-axis pixel cache is dominated by the (data, target_data) hash '
                'test whose failing branch evicts, and the per-axis entry stores coordinates, dimensions, invalid mask and bounds '
                'together; the invalid mask is accumulated on both the cached and the uncached branch and applied before the '
                'scalar dimensions are dropped; the two sibling calls in the image layer state agree.',
    decides='cache-key completeness, hash-test-before-read and eviction, invalid-mask accumulation on both branches, sibling '
            'agreement of the data-layer and subset-layer calls; that the stored key never aliases the caller\'s bounds list; '
            'index roles of every reader of the dependence table',
    not_decided='rounding, out-of-range handling, wildcard (AnyScalar) semantics, the link translation itself',
    assumptions=['cache_id is None => no cache access (checked: every cache store is under that test)'])
props.also('C16',
           'hit condition, stored key and eviction read through local aliases of the cache record; accumulation of the invalid mask on every path (CFG); shared view rule of the pixel-aligned reader (C15.d); that translate_pixel collects values and dimensions of every input of a link inside its loop')

FRB = 'glue.core.fixed_resolution_buffer.compute_fixed_resolution_buffer'


def _canonical(f):
    """The buffer routine with its locals under the names the rules below use, found by role:
    current_array_hash / current_pixel_hash  compared with ARRAY_CACHE[..]['hash'] / PIXEL_CACHE[..]['hash'];
    invalid_all |= invalid                    the accumulation in the loop over the pixel attributes;
    array[invalid_all] = invalid_value        the reset of the samples outside the source;
    cache_bounds                              the result of bounds_for_cache(...)."""
    from ..util import rename_locals, FuncView
    m = {}
    node = f.node
    for c in ast.walk(node):
        if isinstance(c, ast.Compare) and len(c.ops) == 1 and isinstance(c.ops[0], (ast.Eq, ast.NotEq)):
            for a, b in ((c.left, c.comparators[0]), (c.comparators[0], c.left)):
                if isinstance(a, ast.Name) and "['hash']" in unparse(b).replace('"', "'"):
                    if 'ARRAY_CACHE' in unparse(b):
                        m[a.id] = 'current_array_hash'
                    elif 'PIXEL_CACHE' in unparse(b):
                        m[a.id] = 'current_pixel_hash'
    for lp in ast.walk(node):
        if isinstance(lp, ast.For) and 'pixel_component_ids' in unparse(lp.iter):
            if isinstance(lp.target, ast.Tuple) and len(lp.target.elts) == 2 and all(isinstance(e_, ast.Name) for e_ in lp.target.elts):
                m[lp.target.elts[0].id] = 'ipix'
                m[lp.target.elts[1].id] = 'pix'
            for st in ast.walk(lp):
                if isinstance(st, ast.AugAssign) and isinstance(st.op, ast.BitOr) and isinstance(st.target, ast.Name) and \
                        isinstance(st.value, ast.Name):
                    m[st.target.id] = 'invalid_all'
                    m[st.value.id] = 'invalid'
    inv_all = [a for a, c_ in m.items() if c_ == 'invalid_all']
    for st in ast.walk(node):
        if isinstance(st, ast.Assign) and len(st.targets) == 1 and isinstance(st.targets[0], ast.Subscript) and \
                isinstance(st.targets[0].slice, ast.Name) and st.targets[0].slice.id in inv_all and \
                isinstance(st.targets[0].value, ast.Name) and isinstance(st.value, ast.Name):
            m[st.targets[0].value.id] = 'array'
            m[st.value.id] = 'invalid_value'
        if isinstance(st, ast.Assign) and len(st.targets) == 1 and isinstance(st.targets[0], ast.Name) and \
                isinstance(st.value, ast.Call) and call_name(st.value) == 'bounds_for_cache':
            m[st.targets[0].id] = 'cache_bounds'
    return FuncView(f, _cache_aliases(rename_locals(node, m)))


def _cache_aliases(node):
    """The routine with the local names of cache records spelled out: `rec = PIXEL_CACHE.setdefault(cache_id, {...})`,
    `rec = PIXEL_CACHE[cache_id]`, `entry = PIXEL_CACHE[cache_id].get(ipix) if cache_id in PIXEL_CACHE else None` make `rec` /
    `entry` other names of `PIXEL_CACHE[cache_id]` / `PIXEL_CACHE[cache_id][ipix]`; every later use of the name is read as the
    record it stands for (`.get(k)` on a record as `[k]`).  Returns ``node`` itself when there is no such local."""
    import copy

    class Sub(ast.NodeTransformer):
        """X.get(k) / CACHE.setdefault(k, d) -> X[k] for X a cache record"""
        def visit_Call(self, c):
            self.generic_visit(c)
            if isinstance(c.func, ast.Attribute) and c.func.attr in ('get', 'setdefault') and c.args and not c.keywords and \
                    unparse(c.func.value).split('[')[0] in ('PIXEL_CACHE', 'ARRAY_CACHE'):
                if c.func.attr == 'get' and len(c.args) == 2 and not (isinstance(c.args[1], ast.Constant) and c.args[1].value is None):
                    return c
                return ast.copy_location(ast.Subscript(value=c.func.value, slice=c.args[0], ctx=ast.Load()), c)
            return c
    aliases = {}
    stores = {}
    for n_ in ast.walk(node):
        if isinstance(n_, ast.Name) and isinstance(n_.ctx, (ast.Store, ast.Del)):
            stores[n_.id] = stores.get(n_.id, 0) + 1
    once = {st_.targets[0].id: st_.value for st_ in ast.walk(node) if isinstance(st_, ast.Assign) and len(st_.targets) == 1
            and isinstance(st_.targets[0], ast.Name) and stores.get(st_.targets[0].id) == 1}
    def empty(a):
        return (isinstance(a, ast.Constant) and a.value is None) or (isinstance(a, ast.Dict) and not a.keys) or \
            (isinstance(a, ast.Call) and isinstance(a.func, ast.Name) and a.func.id == 'dict' and not a.args and not a.keywords)

    class Known(ast.NodeTransformer):
        def visit_Name(self, n):
            if isinstance(n.ctx, ast.Load) and n.id in aliases:
                return ast.copy_location(copy.deepcopy(aliases[n.id]), n)
            return n
    for _ in range(3):          # a record reached through a record reached through a local
        for name, value in once.items():
            if name in aliases:
                continue
            v = value
            if isinstance(v, ast.IfExp):
                arms = [a for a in (v.body, v.orelse) if not empty(a)]
                if len(arms) != 1:
                    continue
                v = arms[0]
            v2 = Sub().visit(Known().visit(copy.deepcopy(v)))
            t = unparse(v2)
            if isinstance(v2, ast.Subscript) and t.split('[')[0] in ('PIXEL_CACHE', 'ARRAY_CACHE') and t.count('[') in (1, 2):
                aliases[name] = v2
    if not aliases:
        return node
    new = copy.deepcopy(node)

    class Use(ast.NodeTransformer):
        def visit_Name(self, n):
            if isinstance(n.ctx, ast.Load) and n.id in aliases:
                return ast.copy_location(copy.deepcopy(aliases[n.id]), n)
            return n
    new = Use().visit(new)
    ast.fix_missing_locations(new)
    return new


def run(ctx):
    ix = ctx.index
    f = _canonical(ix.func(FRB))
    ctx.guard(rule_a, ctx, ix, f)
    ctx.guard(rule_b, ctx, ix, f)
    ctx.guard(rule_c, ctx, ix, f)
    ctx.guard(rule_d, ctx, ix)
    ctx.guard(rule_h, ctx, ix)
    # the buffer follows the links each dataset installed: a link replaced behind the "unchanged" shortcut is never installed
    from ..report import BorrowedCtx
    from .C03 import rule_e as _shortcut
    ctx.guard(_shortcut, BorrowedCtx(ctx, {'C03.e': 'C16.e'}), ix, ('_set_externally_derivable_components',))
    # which bounds of a request are wildcards in the cache keys is decided from the axes translate_pixel reports as used: the
    # index roles of the dependence table (rows world, columns pixel) are a necessary condition here as well
    from .C15 import rule_e as _roles
    ctx.guard(_roles, BorrowedCtx(ctx, {'C15.e': 'C16.f'}), ix, True)
    # ... and so is the exactness of the dependence table itself (a coupling that is dropped makes a bound a wildcard)
    from .C15 import rule_d as _table
    ctx.guard(_table, BorrowedCtx(ctx, {'C15.d': 'C16.g'}), ix)


def _names(expr, func_node=None, _depth=0):
    """Names an expression depends on; locals assigned exactly once are followed to their definition."""
    out = {n.id for n in ast.walk(expr) if isinstance(n, ast.Name)}
    if func_node is None or _depth > 3:
        return out
    more = set()
    for nm in out:
        defs = [st for st in ast.walk(func_node) if isinstance(st, ast.Assign) and len(st.targets) == 1
                and isinstance(st.targets[0], ast.Name) and st.targets[0].id == nm]
        if len(defs) == 1:
            more |= _names(defs[0].value, func_node, _depth + 1)
    return out | more


def rule_a(ctx, ix, f):
    R = 'C16.a'
    ctx.describe(R, 'the array-cache key covers every result-influencing parameter; stored key = compared key', floor=12)
    params = f.params
    need_common = {'data', 'bounds', 'target_data', 'broadcast'}
    from .. import cond as _c
    # the two key tuples with the condition each is built under: two assignments in the arms of an if/else, or one assignment
    # of a conditional expression
    def key_definitions(name):
        out = []
        for st in walk_no_nested(f.node):
            if isinstance(st, ast.Assign) and unparse(st.targets[0]) == name:
                base = _c.path_condition(f.node, st, expand=False) or ('const', True)
                if isinstance(st.value, ast.Tuple):
                    out.append((st, st.value, base))
                elif isinstance(st.value, ast.IfExp) and isinstance(st.value.body, ast.Tuple) and isinstance(st.value.orelse, ast.Tuple):
                    t_ = _c.formula(st.value.test)
                    out.append((st, st.value.body, _c.And(base, t_)))
                    out.append((st, st.value.orelse, _c.And(base, _c.Not(t_))))
        return out
    keydefs = key_definitions('current_array_hash')
    pm = parent_map(f.node)
    if len(keydefs) != 2:
        raise AnalysisError('compute_fixed_resolution_buffer: the two array-hash definitions are not recognised')

    class _K(object):
        def __init__(self, st, value, pc):
            self.st, self.value, self.pc = st, value, pc
            self.lineno = st.lineno
    keys = [_K(*k) for k in keydefs]
    for st in keys:
        # value request (no selection given) or mask request: read off the condition under which this key is built
        pc_ = st.pc
        none_ = _c.T('is|None|subset_state')
        try:
            if _c.implies(pc_, none_) and pc_ != ('const', True):
                variant = 'value'
            elif _c.implies(pc_, _c.Not(none_)) and pc_ != ('const', True):
                variant = 'mask'
            else:
                raise AnalysisError('compute_fixed_resolution_buffer: which request the key `%s` belongs to is not recognised' % norm(st.st))
        except ValueError:
            raise AnalysisError('compute_fixed_resolution_buffer: the condition of the key `%s` is too large' % norm(st.st))
        names = _names(st.value, f.node)
        need = need_common | ({'target_cid'} if variant == 'value' else {'subset_state'})
        for p in sorted(need):
            ctx.ob(R, '%s key[%s]' % (f.construct, variant), 'parameter %s is part of the %s-request cache key' % (p, variant), p in names,
                   detail='the %s-request cache key %s omits %s: a later request under the same cache id that differs only in %s is '
                          'answered with the array of the earlier request' % (variant, unparse(st.value), p, p), where=where(f, st.st))
    # hit test compares the stored hash with the current one and returns the stored array
    # (read off the condition under which the stored array is returned, however the tests are nested or merged)
    HIT = _c.T("eq|ARRAY_CACHE[cache_id]['hash']|current_array_hash")
    GIVEN = _c.Not(_c.T('is|None|cache_id'))
    hits = [r for r in returns_of(f) if r.value is not None and 'ARRAY_CACHE' in unparse(r.value) and "['array']" in unparse(r.value).replace('"', "'")]
    if not hits:
        # the stored array goes through a local first (`cached = ...['array']` under the hit test, None otherwise; `if cached
        # is not None: return cached`): the statement that reads it out of the cache is the one whose condition matters
        returned = {r.value.id for r in returns_of(f) if isinstance(r.value, ast.Name)}
        names = set(returned)
        for st_ in walk_no_nested(f.node):
            if isinstance(st_, ast.Assign) and len(st_.targets) == 1 and isinstance(st_.targets[0], ast.Name) and isinstance(st_.value, ast.Name) \
                    and st_.targets[0].id in names:
                names.add(st_.value.id)
        hits = [st_ for st_ in walk_no_nested(f.node) if isinstance(st_, ast.Assign) and len(st_.targets) == 1 and isinstance(st_.targets[0], ast.Name)
                and st_.targets[0].id in names and 'ARRAY_CACHE' in unparse(st_.value) and "['array']" in unparse(st_.value).replace('"', "'")]
    ok, guarded = len(hits) == 1, False
    if ok:
        pc_hit = _c.path_condition(f.node, hits[0], expand=False) or ('const', True)
        try:
            ok = _c.implies(pc_hit, HIT)
            guarded = _c.implies(pc_hit, GIVEN)
        except ValueError:
            ok = False
    ctx.ob(R, f.construct + ' hit', 'a hit requires equality of the stored and the current key', ok,
           detail='the array cache is not consulted as `if ARRAY_CACHE[cache_id][\'hash\'] == current_array_hash: return ...[\'array\']`', where=f.where)
    if hits:
        ctx.ob(R, f.construct + ' hit guard', 'the cache is only consulted when a cache id was given', guarded,
               detail='the array cache hit test is not under `if cache_id is not None`', where=where(f, hits[0]), nontrivial=False)
    stores = [st for st in walk_no_nested(f.node) if isinstance(st, ast.Assign) and unparse(st.targets[0]) == 'ARRAY_CACHE[cache_id]']
    if not stores:
        raise AnalysisError('compute_fixed_resolution_buffer: no store into ARRAY_CACHE')
    stored_names = set()
    for st in stores:
        d = st.value
        ok = isinstance(d, ast.Dict) and {k.value for k in d.keys if isinstance(k, ast.Constant)} == {'hash', 'array'}
        vals = {k.value: unparse(v) for k, v in zip(d.keys, d.values)} if ok else {}
        stored_names.add(vals.get('hash'))
        ok = ok and vals['hash'].isidentifier()
        rets = [unparse(r.value) for r in returns_of(f) if r.value is not None and r.lineno > st.lineno]
        ok = ok and vals.get('array') in rets
        try:
            given = _c.implies(_c.path_condition(f.node, st, expand=False) or ('const', True), GIVEN)
        except ValueError:
            given = False
        ctx.ob(R, f.construct + ' store', 'the returned array is stored under the current key, only when a cache id was given',
               ok and given,
               detail='`%s` does not store the returned array together with current_array_hash under `cache_id is not None`' % norm(st),
               where=where(f, st))
    # the stored key is the compared one with only the bounds replaced by their wildcard form: either the compared key is
    # patched (`key[:1] + (cache_bounds,) + key[2:]`), or a second key is built the same way from cache_bounds
    upd = [st for st in walk_no_nested(f.node) if isinstance(st, ast.Assign) and unparse(st.targets[0]) == 'current_array_hash'
           and not isinstance(st.value, ast.Tuple) and not any(st is k_.st for k_ in keys)]
    ok = len(upd) == 1 and unparse(upd[0].value).replace(' ', '') == 'current_array_hash[:1]+(cache_bounds,)+current_array_hash[2:]' \
        and stored_names == {'current_array_hash'}
    absent = not upd
    if not upd and len(stored_names) == 1 and stored_names != {'current_array_hash'}:
        other = key_definitions(sorted(stored_names)[0])
        none_ = _c.T('is|None|subset_state')
        pairs = 0
        for st2, tup2, pc2 in other:
            for k_ in keys:
                try:
                    same = (_c.implies(pc2, none_) and _c.implies(k_.pc, none_)) or \
                        (_c.implies(pc2, _c.Not(none_)) and _c.implies(k_.pc, _c.Not(none_)))
                except ValueError:
                    same = False
                if same and len(tup2.elts) == len(k_.value.elts) and \
                        [unparse(e_) for e_ in tup2.elts] == ['cache_bounds' if unparse(e_) == 'bounds' else unparse(e_) for e_ in k_.value.elts]:
                    pairs += 1
        ok = pairs == len(keys) == len(other)
        absent = not other or not any('cache_bounds' in unparse(t_) for _, t_, _ in other)
        upd = [o[0] for o in other]
    ctx.idiom(R, f.construct + ' wildcard', 'only the bounds slot of the key is replaced by its wildcard form before storing',
              accepted=ok, absent=absent,
              detail_absent='the stored key no longer replaces the bounds by their wildcard form: the cache never matches again when '
                            'slicing through a cube (or matches with stale bounds)',
              shape='; '.join(unparse(u.value) for u in upd), where=f.where)
    g = ix.func('glue.core.fixed_resolution_buffer.bounds_for_cache')
    wc = [c for c in calls_in(g.node) if call_name(c) == 'AnyScalar']
    if len(wc) != 1:
        raise AnalysisError('bounds_for_cache: the wildcard substitution is not recognised')
    from .. import cond
    # the condition under which the wildcard is produced (if-statement, conditional expression or comprehension filter alike)
    pc = cond.expr_condition(g.node, wc[0])
    ats = cond.atoms(pc)
    scalar = [a for a in ats if 'isscalar(' in a]
    member = [a for a in ats if a.startswith('in|') and a.endswith('|%s' % g.params[1])]
    okw = bool(scalar) and bool(member) and all(cond.implies(pc, cond.T(a)) for a in scalar) and \
        all(cond.implies(pc, cond.Not(cond.T(a))) for a in member)
    ctx.ob(R, g.construct, 'only scalar bounds of non-contributing axes become wildcards', okw,
           detail='bounds_for_cache substitutes the wildcard under `%s`: a ranged bound on a non-contributing axis is stored as a '
                  'wildcard, and a later request with a scalar there is answered with the array of the ranged request (another shape)'
                  % (pc,), where=g.where)
    # what is stored as part of a key must not be the caller's own (mutable) list of bounds: the helper hands back a new list
    from ..flow import Flow

    def classify(e, state):
        if isinstance(e, ast.Name):
            return {t for t in state.get(e.id, ()) if not t.startswith('<')}
        if isinstance(e, (ast.List, ast.ListComp, ast.Tuple, ast.GeneratorExp, ast.BinOp, ast.Dict, ast.Set)):
            return {'fresh'}
        if isinstance(e, ast.Call):
            nm = call_name(e)
            if nm in ('list', 'tuple', 'copy', 'deepcopy', 'sorted', 'array', 'asarray') or isinstance(e.func, ast.Attribute) and nm == 'copy':
                return {'fresh'}
            return {'unknown'}
        if isinstance(e, ast.IfExp):
            return classify(e.body, state) | classify(e.orelse, state)
        if isinstance(e, ast.Subscript) and isinstance(e.slice, ast.Slice):
            return {'fresh'} if classify(e.value, state) else {'unknown'}       # a slice of a list is a new list
        return {'unknown'}
    at_ret = []

    def on_stmt(st, state):
        if isinstance(st, ast.Return) and st.value is not None:
            at_ret.append((st, classify(st.value, state)))
    Flow(classify, on_stmt=on_stmt).run(g.node, {p_: frozenset(['param']) for p_ in g.params})
    if not at_ret:
        raise AnalysisError('bounds_for_cache: no return value seen')
    for st_, tags in at_ret:
        ctx.ob(R, g.construct + ' result', 'the bounds stored in the cache keys are a new list, never the caller\'s own', 'param' not in tags,
               detail='bounds_for_cache can return its argument itself (`%s` may be the list the caller passed): the key stored in the '
                      'cache is then an alias of the caller\'s list, follows every later in-place change of it (bounds[0] = z in a '
                      'slice loop), and the next request "hits" with the array of the previous one' % norm(st_), where=where(g, st_))
    for st in keys:
        ctx.ob(R, f.construct + ' bounds slot', 'bounds is the second element of the key (the slot the wildcard replaces)',
               unparse(st.value.elts[1]) == 'bounds', detail='bounds is not at index 1 of %s' % unparse(st.value), where=where(f, st.st),
               nontrivial=False)


def rule_b(ctx, ix, f):
    R = 'C16.b'
    ctx.describe(R, 'pixel-cache reads are dominated by the (data, target_data) hash test, whose failing branch evicts', floor=6)
    pm = parent_map(f.node)
    ph = [st for st in walk_no_nested(f.node) if isinstance(st, ast.Assign) and unparse(st.targets[0]) == 'current_pixel_hash']
    ok = len(ph) == 1 and _names(ph[0].value) >= {'data', 'target_data'}
    ctx.ob(R, f.construct + ' pixel hash', 'the pixel hash covers data and target_data', ok,
           detail='current_pixel_hash is %s' % (unparse(ph[0].value) if ph else None), where=f.where)
    from .. import cond as _c
    ev = [n for n in walk_no_nested(f.node) if isinstance(n, ast.If) and 'PIXEL_CACHE' in unparse(n.test) and "['hash']" in unparse(n.test)]
    ok = len(ev) == 1
    if ok:
        # the entry is dropped exactly when the stored hash differs (the tests may be nested or merged into one)
        drops = [st_ for st_ in ast.walk(ev[0]) if isinstance(st_, ast.stmt) and not isinstance(st_, ast.If) and
                 (any(call_name(c) in ('pop', '__delitem__', 'clear') and 'PIXEL_CACHE' in unparse(c.func) for c in calls_in(st_)) or
                  isinstance(st_, ast.Delete) and 'PIXEL_CACHE' in unparse(st_))]
        ok = len(drops) == 1
        if ok:
            try:
                ok = _c.implies(_c.path_condition(f.node, drops[0], expand=False) or ('const', True),
                                _c.Not(_c.T("eq|PIXEL_CACHE[cache_id]['hash']|current_pixel_hash")))
            except ValueError:
                ok = False
    ctx.ob(R, f.construct + ' eviction', 'a pixel-cache entry whose hash differs is evicted before use', ok,
           detail='the pixel cache is not evicted on `PIXEL_CACHE[cache_id][\'hash\'] != current_pixel_hash`: coordinates translated '
                  'for another pair of datasets are reused under the same cache id', where=f.where)
    if not ev:
        return
    # every read PIXEL_CACHE[cache_id][ipix][...] comes after the eviction test (same cache_id is not None region)
    reads = [n for n in ast.walk(f.node) if isinstance(n, ast.Subscript) and isinstance(n.ctx, ast.Load)
             and unparse(n).startswith('PIXEL_CACHE[cache_id][') and unparse(n).count('[') >= 3 and "['hash']" not in unparse(n)]
    if len(reads) < 3:
        raise AnalysisError('compute_fixed_resolution_buffer: pixel-cache reads not recognised')
    ok = all(r.lineno > ev[0].lineno for r in reads)
    cfg = CFG(f.node)
    evn = cfg.node_for(ev[0])
    # under the assumption cache_id is not None, the eviction test dominates the reads
    pruned = set()
    for n in cfg.nodes():
        if cfg.kind[n] == 'if' and unparse(cfg.stmt[n].test).replace(' ', '') == 'cache_idisnotNone':
            pruned.add((n, 'false'))
    rd_nodes = set()
    for n in cfg.nodes():
        e = common.node_expr(cfg, n)
        if e is not None and any(isinstance(x, ast.Subscript) and unparse(x).startswith('PIXEL_CACHE[cache_id][ipix][') and
                                 isinstance(x.ctx, ast.Load) for x in ast.walk(e)):
            rd_nodes.add(n)
    dominated = True
    # path from entry to a read avoiding the eviction test node's guard (`if cache_id in PIXEL_CACHE`) region
    guard = [g for g, br in guard_chain(pm, ev[0], f.node) if isinstance(g, ast.If) and 'PIXEL_CACHE' in unparse(g.test)]
    gn = cfg.node_for(guard[0]) if guard else evn
    for r in rd_nodes:
        p = cfg.path_avoiding(ENTRY, r, avoid={gn}, pruned_edges=pruned)
        if p is not None:
            dominated = False
    ctx.ob(R, f.construct + ' reads', 'every read of a per-axis pixel-cache entry is preceded by the hash test (given a cache id)',
           ok and dominated and bool(rd_nodes),
           detail='a per-axis pixel-cache entry can be read on a path that does not pass the (data, target_data) hash test', where=f.where)
    # the use-test checks presence and bounds
    use = [n for n in ast.walk(f.node) if isinstance(n, ast.If) and "['bounds']" in unparse(n.test)]
    ok = len(use) == 1 and 'cache_id in PIXEL_CACHE' in unparse(use[0].test) and 'ipix in PIXEL_CACHE[cache_id]' in unparse(use[0].test) \
        and ("== bounds" in unparse(use[0].test) or "bounds ==" in unparse(use[0].test))
    if not ok and len(use) == 1:
        # presence may be established differently (`entry = record.get(ipix)`, `entry is not None`): what the property needs is
        # that the stored coordinates are only read when the stored bounds equal the requested ones
        rd = [st_ for st_ in ast.walk(use[0]) if isinstance(st_, ast.Assign) and
              any(isinstance(x, ast.Subscript) and isinstance(x.ctx, ast.Load) and "['translated_coord']" in unparse(x).replace('"', "'")
                  for x in ast.walk(st_.value))]
        try:
            ok = bool(rd) and all(
                any(a_.startswith('eq|') and "['bounds']" in a_.replace('"', "'") and 'bounds' in a_.split('|')[1:] and _c.implies(pc_, _c.T(a_))
                    for a_ in _c.atoms(pc_))
                for pc_ in [_c.path_condition(f.node, st_, expand=False) or ('const', True) for st_ in rd])
        except ValueError:
            ok = False
    ctx.ob(R, f.construct + ' use test', 'a cached axis is used only if present and its stored bounds equal the requested bounds', ok,
           detail='the per-axis cache is used under `%s`' % (unparse(use[0].test) if use else None), where=f.where)
    # the stored entry carries all four parts
    st = [x for x in ast.walk(f.node) if isinstance(x, ast.Assign) and unparse(x.targets[0]) == 'PIXEL_CACHE[cache_id][ipix]']
    ok = len(st) == 1 and isinstance(st[0].value, ast.Dict) and \
        {k.value for k in st[0].value.keys if isinstance(k, ast.Constant)} == {'translated_coord', 'dimensions', 'invalid', 'bounds'}
    ctx.ob(R, f.construct + ' entry', 'the per-axis entry stores coordinates, dimensions, invalid mask and bounds together', ok,
           detail='the per-axis cache entry is %s' % (unparse(st[0].value) if st else None), where=f.where)
    if st:
        gs = [unparse(g.test).replace(' ', '') for g, br in guard_chain(pm, st[0], f.node) if isinstance(g, ast.If)]
        ctx.ob(R, f.construct + ' entry guard', 'the pixel cache is only written when a cache id was given', 'cache_idisnotNone' in gs,
               detail='the per-axis cache entry is written without `cache_id is not None`', where=where(f, st[0]), nontrivial=False)
        hs = [x for x in ast.walk(f.node) if isinstance(x, ast.Assign) and unparse(x.targets[0]) == 'PIXEL_CACHE[cache_id]']
        # or created on demand: PIXEL_CACHE.setdefault(cache_id, {'hash': ...})
        hs += [ast.Assign(targets=[c_.args[0]], value=c_.args[1]) for c_ in calls_in(f.node)
               if call_name(c_) == 'setdefault' and unparse(c_.func) == 'PIXEL_CACHE.setdefault' and len(c_.args) == 2
               and unparse(c_.args[0]) == 'cache_id']
        ok = len(hs) == 1 and 'current_pixel_hash' in unparse(hs[0].value)
        if not ok and len(hs) == 1 and isinstance(hs[0].value, ast.Dict):
            # the hash written out where the local was (a helper took it as an argument)
            ph_ = [st_ for st_ in walk_no_nested(f.node) if isinstance(st_, ast.Assign) and unparse(st_.targets[0]) == 'current_pixel_hash']
            hv_ = [v_ for k_, v_ in zip(hs[0].value.keys, hs[0].value.values) if isinstance(k_, ast.Constant) and k_.value == 'hash']
            ok = len(ph_) == 1 and len(hv_) == 1 and unparse(hv_[0]) == unparse(ph_[0].value)
        ctx.ob(R, f.construct + ' entry hash', 'a new pixel-cache record carries the current pixel hash', ok,
               detail='a new PIXEL_CACHE record is created as %s' % (unparse(hs[0].value) if hs else None), where=f.where)


def rule_c(ctx, ix, f):
    R = 'C16.c'
    ctx.describe(R, 'the invalid mask is accumulated on both branches and applied before dimensions are dropped', floor=4)
    loops = [n for n in walk_no_nested(f.node) if isinstance(n, ast.For) and 'pixel_component_ids' in unparse(n.iter)]
    if len(loops) != 1:
        raise AnalysisError('compute_fixed_resolution_buffer: per-axis loop not recognised')
    lp = loops[0]
    # every way through one iteration accumulates the per-axis mask, and the mask it accumulates was defined in that iteration -
    # whichever way the cached / uncached arms are written (if / else, early `continue`, a generator spliced in)
    cfg = CFG(f.node)
    h = cfg.node_for(lp)

    def binds(st, name):
        if not isinstance(st, ast.Assign):
            return False
        return any(isinstance(n_, ast.Name) and n_.id == name and isinstance(n_.ctx, ast.Store) for t in st.targets for n_ in ast.walk(t))
    inloop = {cfg.node_for(x) for x in ast.walk(lp) if cfg.node_for(x) is not None}
    A = {n_ for n_ in inloop if isinstance(cfg.stmt[n_], ast.AugAssign) and isinstance(cfg.stmt[n_].op, ast.BitOr)
         and unparse(cfg.stmt[n_].target) == 'invalid_all' and cfg.kind[n_] == 'stmt'}
    vals = {unparse(cfg.stmt[n_].value) for n_ in A}
    skipping = None
    if A and h is not None:
        for (s_, lab_) in cfg.succ[h]:
            if lab_ != 'loop':
                continue
            if s_ in A:
                continue
            skipping = cfg.path_avoiding(s_, h, avoid=A, labels_excluded=('exc', 'raise'))
            if skipping is not None:
                break
    ctx.ob(R, f.construct + ' accumulate', 'invalid_all |= invalid runs for every axis, after both the cached and the uncached branch',
           bool(A) and skipping is None and vals == {'invalid'},
           detail='the accumulation of the per-axis invalid mask does not run on every path through the per-axis loop: on the %s '
                  'branch out-of-range samples keep the value of pixel 0' % ('cached' if not A else 'other'), where=where(f, lp),
           path=cfg.guards_on_path(skipping) if skipping else None)
    D = {n_ for n_ in inloop if cfg.kind[n_] == 'stmt' and binds(cfg.stmt[n_], 'invalid')}
    for which, pred in (('cached', lambda st: any(isinstance(x, ast.Subscript) and isinstance(x.ctx, ast.Load) and "['invalid']" in unparse(x).replace('"', "'") for x in ast.walk(st.value))),
                        ('uncached', lambda st: not any(isinstance(x, ast.Subscript) and isinstance(x.ctx, ast.Load) and "['invalid']" in unparse(x).replace('"', "'") for x in ast.walk(st.value)))):
        ok = any(pred(cfg.stmt[n_]) for n_ in D)
        ctx.ob(R, f.construct + ' ' + which, 'the %s branch defines the per-axis invalid mask' % which, ok,
               detail='the %s branch does not define `invalid`' % which, where=where(f, lp))
    undefined = None
    if h is not None:
        for a_ in sorted(A):
            undefined = cfg.path_avoiding(h, a_, avoid=D, labels_excluded=('exc', 'raise'))
            if undefined is not None:
                break
    ctx.ob(R, f.construct + ' defined', 'the mask that is accumulated was defined in the same iteration', bool(D) and undefined is None,
           detail='an iteration of the per-axis loop can accumulate `invalid` without having defined it (the mask of the previous axis is '
                  'used)', where=where(f, lp), nontrivial=False)
    ipix_ = unparse(lp.target.elts[0]) if isinstance(lp.target, ast.Tuple) and lp.target.elts else 'ipix'
    from ..util import alpha as _alpha
    want_ = _alpha("invalid = (c < 0) | (c >= data.shape[%s])" % ipix_)
    ok = any(isinstance(st, ast.Assign) and unparse(st.targets[0]) == 'invalid' and
             _alpha(st) in (want_, _alpha("invalid = (c >= data.shape[%s]) | (c < 0)" % ipix_)) for st in ast.walk(lp))
    ctx.ob(R, f.construct + ' bounds check', 'invalid = (coord < 0) | (coord >= size of that axis of the source)', ok,
           detail='the out-of-range test of the uncached branch is not (coord < 0) | (coord >= data.shape[ipix])', where=where(f, lp))
    from ..util import expand_locals, element_cases
    from .. import cond
    app = [st for st in walk_no_nested(f.node) if isinstance(st, ast.Assign) and unparse(st.targets[0]) == 'array[invalid_all]']
    # the statement that drops the scalar dimensions: array = array[<one index per bound>]
    drop = []
    for st in walk_no_nested(f.node):
        if isinstance(st, ast.Assign) and unparse(st.targets[0]) == 'array' and isinstance(st.value, ast.Subscript) \
                and unparse(st.value.value) == 'array':
            idx = st.value.slice
            if isinstance(idx, ast.Call) and isinstance(idx.func, ast.Name) and idx.func.id in ('tuple', 'list') and len(idx.args) == 1:
                idx = idx.args[0]
            ec = element_cases(f.node, idx)
            if ec is not None and ec[0] == 'bounds':
                drop.append((st, ec))
    ok = len(app) == 1 and len(drop) == 1 and app[0].lineno < drop[0][0].lineno and unparse(app[0].value) == 'invalid_value'
    ctx.ob(R, f.construct + ' apply', 'invalid samples are reset before the scalar dimensions are dropped', ok,
           detail='array[invalid_all] = invalid_value is missing or comes after the scalar dimensions were dropped (shapes differ)', where=f.where)
    if len(drop) == 1:
        st, (src, tgt, cases, filtered) = drop[0]
        ranged = cond.formula(ast.parse('isinstance(%s, tuple)' % tgt, mode='eval').body)
        want = {'slice(None)': ranged, '0': cond.Not(ranged)}
        got = {}
        for c, v in cases:
            got.setdefault(unparse(v), []).append(c)
        ok2 = not filtered and set(got) == set(want) and \
            all(cond.equivalent(cond.restrict(cond.Or(*got[k]), lambda a: a in cond.atoms(ranged)), want[k]) for k in want)
        ctx.idiom(R, f.construct + ' drop', 'ranged bounds keep their dimension, scalar bounds are dropped', accepted=ok2,
                  absent=filtered or set(got) != set(want),
                  detail_absent='the dimension-dropping index no longer keeps exactly the ranged bounds and drops exactly the scalar ones '
                                '(found: %s)' % {k: str(v) for k, v in got.items()},
                  shape=unparse(st)[:200], where=where(f, st))
    # every array handed back is either the cached one, or the one the invalid value was applied to: a freshly built constant
    # array (np.full(shape, np.nan), np.zeros(...)) knows nothing about whether values or a selection mask were asked for
    fresh = [r for r in returns_of(f) if r.value is not None and isinstance(r.value, ast.Call)
             and call_name(r.value) in ('full', 'zeros', 'ones', 'empty', 'full_like', 'zeros_like', 'ones_like', 'broadcast_to', 'tile', 'repeat')]
    for r in fresh:
        uses_iv = any(isinstance(n_, ast.Name) and n_.id == 'invalid_value' for n_ in ast.walk(r.value))
        ctx.ob(R, f.construct + ' `%s`' % norm(r)[:60], 'a shortcut result is filled with the invalid value of the request (NaN for values, False for masks)',
               uses_iv,
               detail='compute_fixed_resolution_buffer returns `%s`, a constant array that does not depend on whether values or selection '
                      'membership were requested: a mask request that falls outside the source gets NaN (truthy) instead of "not '
                      'selected", and the result bypasses the cache bookkeeping' % norm(r.value), where=where(f, r))
    vals = {}
    swapped = False
    none_ = cond.T('is|None|subset_state')
    for st in ast.walk(f.node):
        if isinstance(st, ast.Assign) and unparse(st.targets[0]) == 'invalid_value':
            base = cond.path_condition(f.node, st, expand=False) or ('const', True)
            arms = [(st.value, base)]
            if isinstance(st.value, ast.IfExp):      # one conditional expression instead of two assignments
                t_ = cond.formula(st.value.test)
                arms = [(st.value.body, cond.And(base, t_)), (st.value.orelse, cond.And(base, cond.Not(t_)))]
            for v_, pc_ in arms:
                vals.setdefault(unparse(v_), 0)
                vals[unparse(v_)] += 1
                try:
                    # the wrong way round: NaN chosen for a mask request / False for a value request
                    if unparse(v_) == 'np.nan' and pc_ != ('const', True) and cond.implies(pc_, cond.Not(none_)):
                        swapped = True
                    if unparse(v_) == 'False' and pc_ != ('const', True) and cond.implies(pc_, none_):
                        swapped = True
                except ValueError:
                    pass
    ctx.ob(R, f.construct + ' invalid value', 'values get NaN and masks get False outside the source',
           set(vals) == {'np.nan', 'False'} and not swapped,
           detail='invalid_value is assigned %s%s' % (sorted(vals), ' (the wrong way round)' if swapped else ''), where=f.where)


def rule_d(ctx, ix):
    R = 'C16.d'
    ctx.describe(R, 'the data-layer and subset-layer buffer requests agree except for target_cid <-> subset_state', floor=2)
    c = ix.cls('glue.viewers.image.state.BaseImageLayerState')
    f = c.resolve_func('get_sliced_data')
    if f is None:
        raise AnalysisError('BaseImageLayerState.get_sliced_data vanished')
    cs = [x for x in calls_in(f.node) if call_name(x) == 'compute_fixed_resolution_buffer']
    if len(cs) != 2:
        raise AnalysisError('get_sliced_data: the two buffer requests are not recognised')
    a, b = cs

    def sig(x):
        d = {'#%d' % i: unparse(v) for i, v in enumerate(x.args)}
        d.update({k.arg: unparse(k.value) for k in x.keywords})
        return d
    sa_, sb = sig(a), sig(b)
    diff = {k for k in set(sa_) | set(sb) if sa_.get(k) != sb.get(k)}
    ctx.ob(R, f.construct, 'both requests pass identical bounds, target_data, broadcast and cache_id', diff == {'target_cid', 'subset_state'},
           detail='the two compute_fixed_resolution_buffer calls differ in %s (expected only target_cid / subset_state): a layer and '
                  'its selection are sampled on different grids or share/unshare cache entries inconsistently' % sorted(diff), where=where(f, a))
    ok = 'cache_id' in sa_ and sa_['cache_id'] == sb.get('cache_id') and 'uuid' in sa_['cache_id']
    ctx.ob(R, f.construct + ' cache id', 'the cache id is the layer state\'s own uuid', ok,
           detail='cache_id is %s / %s' % (sa_.get('cache_id'), sb.get('cache_id')), where=where(f, a))


def rule_h(ctx, ix):
    """translate_pixel follows a link through all of its inputs and collects, side by side, the translated values and the pixel
    dimensions they depend on.  Both collections are filled once per input, inside the loop: dimensions collected from the last
    input only make the buffer constant along axes it depends on."""
    R = 'C16.h'
    ctx.describe(R, 'translate_pixel collects values and dimensions of every input of a link (both inside the loop)', floor=1)
    f = ix.func('glue.core.fixed_resolution_buffer.translate_pixel')
    # all results kept by a comprehension over the inputs: `translated = [translate_pixel(...) for cid in link._from]`
    for c in ast.walk(f.node):
        if isinstance(c, (ast.ListComp, ast.GeneratorExp)) and any(isinstance(x, ast.Call) and call_name(x) == 'translate_pixel' for x in ast.walk(c.elt)):
            ctx.ob(R, '%s (comprehension)' % f.construct, 'the result of every input is kept', not c.generators[0].ifs,
                   detail='translate_pixel translates only a selection of the inputs of the link (`%s`)' % unparse(c)[:100], where=where(f, c))
            return
    loops = [lp for lp in ast.walk(f.node) if isinstance(lp, ast.For) and any(call_name(c) == 'translate_pixel' for c in calls_in(lp))]
    if len(loops) != 1:
        raise AnalysisError('translate_pixel: the loop over the inputs of the link is no longer recognised')
    lp = loops[0]
    got = [st for st in lp.body if isinstance(st, ast.Assign) and isinstance(st.value, ast.Call) and call_name(st.value) == 'translate_pixel']
    if len(got) != 1:
        raise AnalysisError('translate_pixel: the recursive call is no longer assigned inside the loop')
    t0 = got[0].targets[0]
    if isinstance(t0, ast.Tuple) and len(t0.elts) == 2:
        names = [unparse(t) for t in t0.elts]
    elif isinstance(t0, ast.Name):
        names = ['%s[0]' % t0.id, '%s[1]' % t0.id]
    else:
        raise AnalysisError('translate_pixel: the result of the recursive call is kept in a form the checker does not know')
    for nm in names:
        inside = [c for c in calls_in(lp) if call_name(c) in ('append', 'extend', 'update', 'add') and any(unparse(a) == nm for a in c.args)]
        aug = [st for st in ast.walk(lp) if isinstance(st, ast.AugAssign) and any(unparse(x) == nm for x in ast.walk(st.value))]
        ctx.ob(R, '%s %s' % (f.construct, nm), '`%s` of every input is collected inside the loop' % nm, bool(inside or aug),
               detail='translate_pixel no longer collects `%s` inside its loop over the inputs of the link: only what the last input '
                      'returned is kept, so for a link with several inputs the buffer ignores the pixel dimensions (or values) of the '
                      'others' % nm, where=where(f, lp))
