"""C17 - a dataset stays structurally consistent and announces every structural change."""
import ast

from ..index import AnalysisError, dotted_chain, norm, unparse, walk_no_nested, body_stmts
from ..cfg import CFG, EXIT
from ..announce import Announcer, MSG
from ..effects import EffectAnalyzer
from ..util import calls_in, call_name, where, returns_of, parent_map
from .. import props
from . import common

props.prop(
    'C17',
    explanation='Static (ast + CFG) table of structural mutations of a dataset and the messages that document them: '
                'every mutation must be followed on all normal paths by its broadcast (only hub-presence and listed '
                'per-instance guards may skip it), every such broadcast must be preceded by the mutation, the '
                'identifier-holding structures must be updated together, and shape/validity guards must dominate insertion.',
    decides='must-announce and no-spurious-announcement for add/remove/reorder/re-identify/update of components, labels, '
            'subsets and collection membership (path-sensitively: boolean locals are followed along the paths), in every method '
            'that broadcasts these messages; coupled update of the id-holding structures; guard-before-insert',
    not_decided='uniqueness of identifiers, that shapes are actually equal, lookup precedence, payload values of messages',
    assumptions=['messages are only sent through hub.broadcast'])
props.also('C17',
           're-identification (update_id) announced without a spurious message; membership memory read whichever way the flag is written')


def _tgt(e):
    out = []
    for st in ([e] if isinstance(e, (ast.Assign, ast.AugAssign, ast.AnnAssign, ast.Delete)) else []):
        ts = st.targets if isinstance(st, (ast.Assign, ast.Delete)) else [st.target]
        for t in ts:
            for x in (t.elts if isinstance(t, (ast.Tuple, ast.List)) else [t]):
                out.append(unparse(x))
    return out


def assigns(*names):
    def pred(e):
        return any(t in names for t in _tgt(e))
    return pred


def assigns_prefix(prefix):
    def pred(e):
        return any(t.startswith(prefix) for t in _tgt(e))
    return pred


def calls_on(recv, *meths):
    def pred(e):
        for c in ast.walk(e):
            if isinstance(c, ast.Call) and isinstance(c.func, ast.Attribute) and c.func.attr in meths \
                    and unparse(c.func.value) == recv:
                return True
        return False
    return pred


def deletes_prefix(prefix):
    def pred(e):
        return isinstance(e, ast.Delete) and any(unparse(t).startswith(prefix) for t in e.targets)
    return pred


def either(*preds):
    return lambda e: any(p(e) for p in preds)


def attr_store(attr, not_self=True):
    def pred(e):
        if not isinstance(e, ast.Assign):
            return False
        for t in e.targets:
            if isinstance(t, ast.Attribute) and t.attr == attr and not (not_self and unparse(t.value) == 'self'):
                return True
        return False
    return pred


# (class, method-or-property-setter, write predicate, [messages], extra guards, what, flag, exceptions)
TABLE = [
    ('glue.core.data.Data', 'add_component', assigns_prefix('self._components['),
     ['DataAddComponentMessage', 'ComponentsChangedMessage'], ('not is_present',), 'a component is added', None, None),
    ('glue.core.data.Data', 'remove_component', either(calls_on('self._components', 'pop', '__delitem__'), deletes_prefix('self._components[')),
     ['DataRemoveComponentMessage', 'ComponentsChangedMessage'], (), 'a component is removed', None, None),
    ('glue.core.data.Data', 'reorder_components', assigns('self._components'),
     ['DataReorderComponentMessage'], (), 'the component order changes', None, None),
    ('glue.core.data.Data', 'update_id',
     either(assigns('self._components'), assigns_prefix('self._pixel_component_ids['), assigns_prefix('self._world_component_ids[')),
     ['ComponentReplacedMessage'], (), 'an identifier is replaced', None, None),     # dirty flag(s): followed along the paths
    ('glue.core.data.Data', 'update_components', attr_store('_data'),
     ['NumericalDataChangedMessage'], (), 'component values are replaced', None, None),
    ('glue.core.data.Data', 'update_values_from_data', either(attr_store('_data'), assigns('self._shape')),
     ['NumericalDataChangedMessage'], (), 'values / shape are replaced', None, None),
    ('glue.core.data.Data', 'label:setter', assigns('self._label'),
     ['DataUpdateMessage'], (), 'the label changes', None,
     {'self._label = value@value is None': 'equal-value re-store: the branch is only reached when the stored label already '
                                           'equals the new value (None)'}),
    ('glue.core.data.BaseData', 'add_subset', calls_on('self._subsets', 'append', 'insert'),
     ['SubsetCreateMessage'], (), 'a subset is attached', None, None),
    ('glue.core.subset.Subset', 'delete', calls_on('self.data._subsets', 'remove'),
     ['SubsetDeleteMessage'], ('dobroad',), 'a subset is detached', None, None),
    ('glue.core.component_id.ComponentID', 'label:setter', assigns('self._label'),
     ['DataRenameComponentMessage'], (), 'a component is renamed', None, None),
    ('glue.core.data_collection.DataCollection', 'append', calls_on('self._data', 'append', 'insert'),
     ['DataCollectionAddMessage'], (), 'a dataset joins the collection', None, None),
    ('glue.core.data_collection.DataCollection', 'remove', calls_on('self._data', 'remove', 'pop'),
     ['DataCollectionDeleteMessage'], (), 'a dataset leaves the collection', None, None),
    ('glue.core.data.BaseCartesianData', '_set_externally_derivable_components', assigns('self._externally_derivable_components'),
     ['ExternallyDerivableComponentsChangedMessage'], (), 'the linked attributes change', None, None),
    ('glue.core.data.BaseCartesianData', '_set_pixel_aligned_data', assigns('self._pixel_aligned_data'),
     ['PixelAlignedDataChangedMessage'], (), 'the pixel-aligned datasets change', None, None),
]


SPURIOUS_EXC = {
    ('glue.core.subset:Subset.delete', 'SubsetDeleteMessage'):
        'the broadcast is guarded by the subset\'s own live flag (_broadcasting), which delete() clears first and which is '
        'only set while the subset is registered with its dataset; the membership test merely protects the list removal',
}


def _func(ix, cq, name):
    cls = ix.cls(cq)
    if name.endswith(':setter'):
        m = cls.resolve(name.split(':')[0])
        if m is None or m.kind != 'property' or m.fset is None:
            raise AnalysisError('%s.%s setter vanished' % (cq, name.split(':')[0]))
        return m.fset
    f = cls.resolve_func(name)
    if f is None:
        raise AnalysisError('%s.%s vanished' % (cq, name))
    return f


def run(ctx):
    ix = ctx.index
    ctx.guard(rule_ab, ctx, ix)
    ctx.guard(rule_c, ctx, ix)
    ctx.guard(rule_d, ctx, ix)
    ctx.guard(rule_e, ctx, ix)
    ctx.guard(rule_f, ctx, ix)
    ctx.guard(rule_g, ctx, ix)
    ctx.guard(rule_h, ctx, ix)


def _canonical_flags(f, extra, flag):
    """The function with its flag locals under the names the TABLE rows use, found by role:
    a dirty flag is the local that is set to both False and True constants; `is_present` the local that remembers a membership
    test of the structure before it is written; `dobroad` the local holding the conjunction of the hub-presence conditions."""
    from ..util import rename_locals, FuncView
    from ..announce import HUB_ATOMS
    want = {x.replace('not ', '').strip() for x in (extra or ())} | ({flag} if flag else set())
    want = {w for w in want if w.isidentifier()}
    if not want:
        return f
    node = f.node
    have = {n.id for n in ast.walk(node) if isinstance(n, ast.Name)}
    m = {}
    for w in sorted(want - have):
        cands = []
        consts = {}
        for st in ast.walk(node):
            if isinstance(st, ast.Assign) and len(st.targets) == 1 and isinstance(st.targets[0], ast.Name):
                nm, v = st.targets[0].id, st.value
                if isinstance(v, ast.Constant) and isinstance(v.value, bool):
                    consts.setdefault(nm, set()).add(v.value)
                if w == 'is_present' and isinstance(v, ast.Compare) and len(v.ops) == 1 and isinstance(v.ops[0], ast.In) and '_components' in unparse(v.comparators[0]):
                    cands.append(nm)
                if w == 'dobroad' and any(a in unparse(v) for a in ('.hub is not None', '_broadcasting')):
                    cands.append(nm)
        if w == 'changed' or w == flag:
            cands += [nm for nm, vs in consts.items() if vs == {True, False}]
        cands = sorted(set(cands))
        if len(cands) == 1:
            m[cands[0]] = w
        elif not cands and w == 'is_present':
            # the same memory under the opposite name: `is_new = cid not in self._components`
            neg = [st.targets[0].id for st in ast.walk(node) if isinstance(st, ast.Assign) and len(st.targets) == 1
                   and isinstance(st.targets[0], ast.Name) and isinstance(st.value, ast.Compare) and len(st.value.ops) == 1
                   and isinstance(st.value.ops[0], ast.NotIn) and '_components' in unparse(st.value.comparators[0])]
            if len(set(neg)) == 1:
                import copy as _copy
                nm = neg[0]

                class Flip(ast.NodeTransformer):
                    def visit_Name(self, n):
                        if n.id == nm and isinstance(n.ctx, ast.Load):
                            return ast.copy_location(ast.UnaryOp(op=ast.Not(), operand=ast.Name(id=w, ctx=ast.Load())), n)
                        if n.id == nm:
                            return ast.copy_location(ast.Name(id=w, ctx=n.ctx), n)
                        return n

                    def visit_Assign(self, st):
                        self.generic_visit(st)
                        if len(st.targets) == 1 and isinstance(st.targets[0], ast.Name) and st.targets[0].id == w and \
                                isinstance(st.value, ast.Compare) and isinstance(st.value.ops[0], ast.NotIn):
                            st.value = ast.Compare(left=st.value.left, ops=[ast.In()], comparators=st.value.comparators)
                        return st
                node = ast.fix_missing_locations(Flip().visit(_copy.deepcopy(node)))
                flipped = True
    if m:
        node = rename_locals(node, m)
    return FuncView(f, node) if node is not f.node else f


def rule_ab(ctx, ix):
    RA, RB = 'C17.a', 'C17.b'
    ctx.describe(RA, 'every structural mutation reaches its documented broadcast (only hub-presence / listed guards skip it)', floor=18)
    ctx.describe(RB, 'every such broadcast is preceded by the mutation (or guarded by a dirty flag set beside each write)', floor=14)
    for cq, name, wpred, msgs, extra, what, flag, exc in TABLE:
        f = _canonical_flags(_func(ix, cq, name), extra, flag)
        an = Announcer(ctx, f)
        W = an.write_nodes(wpred)
        if not W:
            raise AnalysisError('%s: the state write of row "%s" is no longer recognised' % (f.construct, what))
        # exception rows are keyed by statement text @ innermost guard
        exc_txt = {}
        if exc:
            pm = parent_map(f.node)
            from ..util import guard_chain
            for w in W:
                st = an.cfg.stmt[w]
                gs = [g for g, br in guard_chain(pm, st, f.node) if isinstance(g, ast.If)]
                key = '%s@%s' % (norm(st), unparse(gs[0].test) if gs else '')
                if key in exc:
                    exc_txt[id(st)] = exc[key]
            stale = [k for k in exc if not exc_txt]
            if stale:
                raise AnalysisError('stale exception row in C17.a for %s: %s' % (f.construct, stale))
        # a dirty flag: each write must set it
        if flag:
            Wf, Uf, cfg = common.must_reach(
                ctx, RA, f, wpred,
                lambda e, flag=flag: isinstance(e, ast.Assign) and unparse(e.targets[0]) == flag
                and isinstance(e.value, ast.Constant) and e.value.value is True,
                'the write sets the dirty flag %s' % flag,
                '%(func)s performs `%(stmt)s` without setting ' + flag + ' = True afterwards: the change is not announced')
        for m in msgs:
            if exc_txt and len(exc_txt) == len(W):
                continue
            an.must_announce(RA, wpred, m, extra_guards=extra, what_write=what, exceptions=exc_txt or None)
            an.no_spurious(RB, _definite(wpred, f), m, flag=flag, exception=SPURIOUS_EXC.get((f.construct, m)))
    # the same messages broadcast from other methods of the class (a helper the removal was moved into, a sweep that announces
    # by itself): there too the broadcast has to follow a change that really happened
    rows = {(cq, name) for cq, name, *_ in TABLE}
    for cq, name, wpred, msgs, extra, what, flag, exc in TABLE:
        if name.endswith(':setter'):
            continue
        cls = ix.cls(cq)
        for oname, mem in sorted(cls.members.items()):
            g = mem.func
            if g is None or g.cls is not cls or oname == name or (cq, oname) in rows or ix.helper_status(g) == 'inlined':
                continue
            if not any(isinstance(c_, ast.Call) and call_name(c_) == 'broadcast' for c_ in ast.walk(g.node)):
                continue
            an = Announcer(ctx, g)
            sent = {m_ for _, m_, _ in an.broadcast_nodes()}
            for m in msgs:
                if MSG + m in sent:
                    an.no_spurious(RB, _definite(wpred, g), m, exception=SPURIOUS_EXC.get((g.construct, m)))


def _definite(wpred, f):
    """The write predicate restricted to writes that really change something: `d.pop(k, default)` / `s.discard(k)` do nothing
    when the key is absent, so they count only where the key is known to be present (the statement runs under `k in d`)."""
    from .. import cond

    def pred(e):
        if not wpred(e):
            return False
        for c in ast.walk(e):
            if isinstance(c, ast.Call) and isinstance(c.func, ast.Attribute) and \
                    (c.func.attr == 'pop' and len(c.args) == 2 or c.func.attr == 'discard' and len(c.args) == 1):
                key, coll = unparse(c.args[0]), unparse(c.func.value)
                st = None
                for x in ast.walk(f.node):
                    if isinstance(x, ast.stmt) and any(y is c for y in ast.walk(x)) and not isinstance(x, (ast.If, ast.For, ast.While, ast.With, ast.Try, ast.FunctionDef)):
                        st = x
                pc = cond.path_condition(f.node, st, expand=False) if st is not None else None
                try:
                    if pc is None or not cond.implies(pc, cond.T('in|%s|%s' % (key, coll))):
                        return False
                except ValueError:
                    return False
        return True
    return pred


# ---------------------------------------------------------------------------------------
ID_STRUCTS = ['_components', '_pixel_component_ids', '_world_component_ids']


def rule_c(ctx, ix):
    R = 'C17.c'
    ctx.describe(R, 'identifier-holding structures are updated together', floor=6)
    data = ix.cls('glue.core.data.Data')
    ea = EffectAnalyzer(ix)
    f = data.resolve_func('update_id')
    eff = ea.func_effects(data, f)
    for s in ID_STRUCTS:
        ctx.ob(R, f.construct, 'update_id rewrites %s' % s, s in eff.writes,
               detail='Data.update_id does not rewrite %s: the old identifier stays in that structure' % s, where=f.where)
    # links of derived components
    ok = any(call_name(c) == 'replace_ids' for c in calls_in(f.node))
    ctx.ob(R, f.construct + ' derived links', 'update_id replaces the identifier inside the links of derived components', ok,
           detail='Data.update_id does not call replace_ids on the links of derived components: an attribute defined from the '
                  'replaced identifier (e.g. x + 1) raises IncompatibleAttribute afterwards', where=f.where)
    # pixel / world creation appends to the id lists right after adding the component
    for meth, lst in (('_update_pixel_components', '_pixel_component_ids'), ('_update_world_components', '_world_component_ids')):
        g = data.resolve_func(meth)
        if g is None:
            raise AnalysisError('Data.%s vanished' % meth)
        adds = [c for c in calls_in(g.node) if call_name(c) == 'add_component']
        apps = [c for c in calls_in(g.node) if call_name(c) == 'append' and lst in unparse(c.func)]
        ok = len(adds) == 1 and len(apps) == 1 and apps[0].lineno > adds[0].lineno
        if ok:
            pm = parent_map(g.node)
            ok = pm.get(id(_stmt_of(pm, adds[0]))) is pm.get(id(_stmt_of(pm, apps[0])))
        ctx.ob(R, g.construct, 'each created coordinate component is recorded in %s' % lst, ok,
               detail='%s does not append every created identifier to %s' % (g.construct, lst), where=g.where)
    g = data.resolve_func('_update_world_components')
    rms = [c for c in calls_in(g.node) if call_name(c) == 'remove_component']
    dels = [c for c in calls_in(g.node) if call_name(c) in ('remove', 'pop', 'clear') and '_world_component_ids' in unparse(c.func)]
    ok = bool(rms) and bool(dels)
    snap = any(isinstance(n, ast.For) and unparse(n.iter) in ('self._world_component_ids[:]', 'list(self._world_component_ids)')
               for n in walk_no_nested(g.node))
    ctx.ob(R, g.construct, 'old world components are removed from the dataset and from the id list, iterating a snapshot',
           ok and snap,
           detail='%s does not remove old world identifiers from both structures (or iterates the live list while removing)' % g.construct,
           where=g.where)
    # removal: the identifier must leave every id-holding structure
    f = data.resolve_func('remove_component')
    eff = ea.func_effects(data, f)
    for s in ID_STRUCTS:
        ctx.ob(R, f.construct + ' ' + s, 'remove_component removes the identifier from %s' % s, s in eff.writes,
               detail='Data.remove_component leaves the removed identifier in %s: after refreshing a dataset from one with '
                      'another dimensionality the list names an attribute the dataset no longer has' % s, where=f.where)


def _stmt_of(pm, node):
    cur = node
    while cur is not None and not isinstance(cur, ast.stmt):
        cur = pm.get(id(cur))
    return cur


# ---------------------------------------------------------------------------------------
def rule_d(ctx, ix):
    R = 'C17.d'
    ctx.describe(R, 'validity guards dominate the insertion they protect', floor=4)
    data = ix.cls('glue.core.data.Data')
    rows = [
        ('add_component', lambda e: isinstance(e, ast.Compare) is False and '_check_can_add' in unparse(e),
         assigns_prefix('self._components['), 'the shape check (_check_can_add)'),
        ('update_components', lambda e: 'shape' in unparse(e) and '!=' in unparse(e), attr_store('_data'), 'the shape test'),
        ('reorder_components', lambda e: 'len(component_ids)' in unparse(e) and '!=' in unparse(e), assigns('self._components'),
         'the length validation'),
        ('reorder_components', lambda e: 'set(' in unparse(e) and '!=' in unparse(e), assigns('self._components'),
         'the identity validation'),
    ]
    for meth, gpred, wpred, what in rows:
        f = data.resolve_func(meth)
        if f is None:
            raise AnalysisError('Data.%s vanished' % meth)
        cfg = CFG(f.node)
        dom = cfg.dominators()
        G = [n for n in cfg.nodes() if cfg.kind[n] == 'if' and gpred(cfg.stmt[n].test)
             and any(isinstance(b, ast.Raise) for b in cfg.stmt[n].body)]
        W = common.nodes_where(cfg, wpred)
        if not W:
            raise AnalysisError('%s: protected store not recognised' % f.construct)
        ok = bool(G) and all(any(cfg.dominates(g, w, dom) for g in G) for w in W)
        ctx.ob(R, '%s %s' % (f.construct, what), '%s raises before the store on every path' % what, ok,
               detail='in %s %s does not dominate the store `%s`: an invalid argument is inserted (and possibly rejected '
                      'afterwards, leaving the dataset inconsistent)' % (f.construct, what, norm(cfg.stmt[W[0]])), where=f.where)
    f = data.resolve_func('_check_can_add')
    rets = returns_of(f)
    ok = any('shape' in unparse(r.value) and '==' in unparse(r.value) for r in rets if r.value is not None)
    ctx.ob(R, f.construct, 'the check compares the component shape with the dataset shape', ok,
           detail='Data._check_can_add no longer compares component.shape with self.shape', where=f.where)


def rule_e(ctx, ix):
    """Lookup by name returns the unique match or nothing: an ambiguous label in one category must not fall through to the next."""
    R = 'C17.e'
    ctx.describe(R, 'name lookup: unique match is returned, an ambiguous one yields None (no fall-through to later categories)', floor=3)
    data = ix.cls('glue.core.data.Data')
    f = data.resolve_func('find_component_id')
    if f is None:
        raise AnalysisError('Data.find_component_id vanished')
    loops = [n for n in body_stmts(f.node) if isinstance(n, ast.For)]
    if len(loops) != 1:
        raise AnalysisError('Data.find_component_id: category loop not recognised')
    lp = loops[0]
    from ..util import expand_locals
    cats = unparse(expand_locals(f.node, lp.iter))      # `order = (main, derived, ...); for cids in order`
    order = [cats.find(x) for x in ('main_components', 'derived_components', 'coordinate_components', '_externally_derivable_components')]
    ctx.ob(R, f.construct + ' precedence', 'categories are searched in the order main > derived > coordinate > linked',
           all(o >= 0 for o in order) and order == sorted(order),
           detail='find_component_id searches the categories as %s' % cats, where=where(f, lp))
    # the matches of one category: the local whose length decides what is returned
    from .. import cond
    uniq = amb = False
    lens = sorted({unparse(c.args[0]) for n in ast.walk(lp) if isinstance(n, ast.If) for c in ast.walk(n.test)
                   if isinstance(c, ast.Call) and isinstance(c.func, ast.Name) and c.func.id == 'len' and len(c.args) == 1 and isinstance(c.args[0], ast.Name)})
    if len(lens) == 1:
        X = lens[0]

        def holds(pc, n):
            """truth of the path condition when the category has n matches (atoms over len(X) and integer constants)"""
            env = {}
            for a_ in cond.atoms(pc):
                parts = a_.split('|')
                def val(t):
                    if t == 'len(%s)' % X:
                        return n
                    try:
                        return int(t)
                    except ValueError:
                        return None
                if a_ == X:
                    env[a_] = n > 0
                elif len(parts) == 3 and parts[0] in ('eq', 'lt'):
                    l_, r_ = val(parts[1]), val(parts[2])
                    if l_ is None or r_ is None:
                        return None
                    env[a_] = (l_ == r_) if parts[0] == 'eq' else (l_ < r_)
                else:
                    return None
            return cond.evaluate(pc, env)
        for r in [x for x in ast.walk(lp) if isinstance(x, ast.Return)]:
            pc = cond.path_condition(f.node, r, expand=False)
            if pc is None:
                continue
            truth = [holds(pc, n) for n in (0, 1, 2, 3)]
            if None in truth:
                continue
            if r.value is not None and unparse(r.value) == '%s[0]' % X and truth == [False, True, False, False]:
                uniq = True
            if (r.value is None or unparse(r.value) == 'None') and truth[2] and truth[3] and not truth[0] and not truth[1]:
                amb = True
    ctx.ob(R, f.construct + ' unique', 'exactly one match in a category is returned', uniq,
           detail='find_component_id no longer returns the single match of a category', where=where(f, lp))
    ctx.ob(R, f.construct + ' ambiguous', 'more than one match in a category yields None', amb,
           detail='find_component_id no longer returns None when a label is ambiguous within a category: the search falls through and '
                  'returns a component of a later category that happens to carry the label once (a non-unique match)', where=where(f, lp))


def rule_f(ctx, ix):
    """No method of the dataset classes mutates a structure while iterating it live."""
    R = 'C17.f'
    ctx.describe(R, 'dataset methods do not mutate an id-holding structure while iterating it', floor=12)
    n = 0
    for cq in ('glue.core.data.BaseData', 'glue.core.data.BaseCartesianData', 'glue.core.data.Data'):
        c = ix.cls(cq)
        for name, m in sorted(c.members.items()):
            for f in (m.func, m.fget, m.fset):
                if f is None or not any(isinstance(x, ast.For) for x in ast.walk(f.node)):
                    continue
                n += 1
                if not common.check_iter_mutation(ctx, R, f):
                    ctx.ob(R, f.construct, 'no loop mutates the collection it iterates', True)
    if n < 15:
        raise AnalysisError('C17.f: only %d looping dataset methods found' % n)


def rule_g(ctx, ix):
    """Exactly one pixel attribute (and one world attribute when coordinates are set) is created per dimension, once."""
    R = 'C17.g'
    ctx.describe(R, 'one pixel / world attribute per dimension, created when the first component arrives', floor=6)
    data = ix.cls('glue.core.data.Data')
    f = data.resolve_func('add_component')
    s = f.self_name
    cs = [c for c in calls_in(f.node) if call_name(c) == '_create_pixel_and_world_components']
    pm = parent_map(f.node)
    from ..util import guard_chain
    ok = len(cs) == 1
    if ok:
        tests = [unparse(g.test).replace(' ', '') for g, br in guard_chain(pm, cs[0], f.node) if isinstance(g, ast.If)]
        ok = tests == ['len(%s._components)==0' % s] and unparse(kwarg_or_pos(cs[0], 'ndim')) == 'component.ndim'
        store = [st for st in walk_no_nested(f.node) if isinstance(st, ast.Assign) and unparse(st.targets[0]).startswith('%s._components[' % s)]
        ok = ok and bool(store) and cs[0].lineno < store[0].lineno
    ctx.ob(R, f.construct, 'coordinate components are created exactly when the first component is added, with its dimensionality', ok,
           detail='add_component no longer creates the pixel/world components under `len(self._components) == 0` with ndim=component.ndim '
                  'before storing the first component', where=f.where)
    for meth, kw, lst in (('_update_pixel_components', None, '_pixel_component_ids'), ('_update_world_components', 'world', '_world_component_ids')):
        g = data.resolve_func(meth)
        loops = [n for n in ast.walk(g.node) if isinstance(n, ast.For) and unparse(n.iter) == 'range(ndim)']
        ok = len(loops) == 1
        if ok:
            lp = loops[0]
            i = unparse(lp.target)
            cc = [c for c in calls_in(lp) if call_name(c) == 'CoordinateComponent']
            ok = len(cc) == 1 and len(cc[0].args) >= 2 and unparse(cc[0].args[0]) == g.self_name and unparse(cc[0].args[1]) == i
            if kw:
                from ..util import kwarg
                v = kwarg(cc[0], kw) if cc else None
                ok = ok and v is not None and unparse(v) == 'True'
            else:
                pid = [c for c in calls_in(lp) if call_name(c) == 'PixelComponentID']
                ok = ok and len(pid) == 1 and unparse(pid[0].args[0]) == i
        ctx.ob(R, g.construct, 'one coordinate component per axis index, built for that index', ok,
               detail='%s no longer creates exactly one coordinate component per axis i with axis index i' % g.construct, where=g.where)
    g = data.resolve_func('_create_pixel_and_world_components')
    names = [call_name(c) for c in calls_in(g.node)]
    ctx.ob(R, g.construct, 'both pixel and world components are created', names == ['_update_pixel_components', '_update_world_components'],
           detail='_create_pixel_and_world_components calls %s' % names, where=g.where)
    w = data.resolve_func('_update_world_components')
    ok = any(isinstance(n, ast.If) and unparse(n.test) == '%s.coords' % w.self_name and
             any(isinstance(x, ast.For) and unparse(x.iter) == 'range(ndim)' for x in n.body) for n in ast.walk(w.node))
    ctx.ob(R, w.construct + ' coords', 'world components are created only when coordinates are set', ok,
           detail='_update_world_components no longer creates the world components under `if self.coords`', where=w.where)
    st = data.resolve('coords')
    ok = st is not None and st.fset is not None and any(call_name(c) == '_update_world_components' for c in calls_in(st.fset.node))
    ctx.ob(R, data.construct + '.coords', 'assigning new coordinates rebuilds the world components', ok,
           detail='the coords setter no longer calls _update_world_components', where=data.where)


def kwarg_or_pos(call, name):
    for k in call.keywords:
        if k.arg == name:
            return k.value
    return call.args[0] if call.args else ast.Constant(value=None)


# ---------------------------------------------------------------------------------------
# who may write the announced structures: the functions of TABLE (checked by C17.a/b) and the constructors
STRUCT_MUTATORS = ('append', 'insert', 'remove', 'pop', 'popitem', 'clear', 'extend', 'update', 'setdefault', '__delitem__',
                   '__setitem__', 'move_to_end', 'sort', 'reverse')
WRITERS = {
    # field: (class that owns the field or None = any receiver, allowed writer constructs)
    '_components': (None, ['glue.core.data:Data.__init__', 'glue.core.data:Data.add_component', 'glue.core.data:Data.remove_component',
                           'glue.core.data:Data.reorder_components', 'glue.core.data:Data.update_id']),
    '_subsets': (None, ['glue.core.data:BaseData.__init__', 'glue.core.data:BaseData.add_subset', 'glue.core.subset:Subset.delete']),
    '_data': ('glue.core.data_collection.DataCollection',
              ['glue.core.data_collection:DataCollection.__init__', 'glue.core.data_collection:DataCollection.append',
               'glue.core.data_collection:DataCollection.remove']),
}


def _struct_writes(node, fields):
    """(field, receiver text, statement-ish node) for every structural write of one of ``fields`` inside ``node`` (not nested defs)."""
    out = []
    for n in walk_no_nested(node):
        tgts = []
        if isinstance(n, (ast.Assign, ast.Delete)):
            tgts = list(n.targets)
        elif isinstance(n, (ast.AugAssign, ast.AnnAssign)):
            tgts = [n.target]
        flat = []
        for t in tgts:
            flat.extend(t.elts if isinstance(t, (ast.Tuple, ast.List)) else [t])
        for t in flat:
            base = t.value if isinstance(t, ast.Subscript) else t
            if isinstance(base, ast.Attribute) and base.attr in fields:
                out.append((base.attr, unparse(base.value), n))
        if isinstance(n, ast.Call) and isinstance(n.func, ast.Attribute) and n.func.attr in STRUCT_MUTATORS \
                and isinstance(n.func.value, ast.Attribute) and n.func.value.attr in fields:
            out.append((n.func.value.attr, unparse(n.func.value.value), n))
    return out


FIELD_MESSAGES = {
    '_components': ('DataRemoveComponentMessage', 'DataAddComponentMessage', 'DataReorderComponentMessage', 'ComponentReplacedMessage'),
    '_subsets': ('SubsetCreateMessage', 'SubsetDeleteMessage'),
    '_data': ('DataCollectionAddMessage', 'DataCollectionDeleteMessage'),
}


def self_announcing(fnode, write, fld):
    """A writer outside the table that announces the very element it changes itself: after the write, the same function builds
    one of the messages of that structure with the written key / element among its arguments and broadcasts."""
    key = None
    if isinstance(write, ast.Call) and write.args:
        key = unparse(write.args[0])
    elif isinstance(write, ast.Delete) and write.targets and isinstance(write.targets[0], ast.Subscript):
        key = unparse(write.targets[0].slice)
    elif isinstance(write, ast.Assign) and isinstance(write.targets[0], ast.Subscript):
        key = unparse(write.targets[0].slice)
    if key is None:
        return False
    casts = any(isinstance(c, ast.Call) and call_name(c) == 'broadcast' for c in ast.walk(fnode))
    for c in ast.walk(fnode):
        if isinstance(c, ast.Call) and call_name(c) in FIELD_MESSAGES.get(fld, ()) and getattr(c, 'lineno', 0) >= getattr(write, 'lineno', 0) \
                and any(unparse(a) == key for a in c.args):
            return casts
    return False


def rule_h(ctx, ix):
    """Only the announcing mutators (and the constructors) write the structures whose changes are announced."""
    R = 'C17.h'
    ctx.describe(R, 'the announced structures are written only by the functions that announce (and by constructors)', floor=10)
    tabled = set()
    for cq, name, *_ in TABLE:
        tabled.add(_func(ix, cq, name).construct)
    for fld, (owner, allowed) in WRITERS.items():
        for a in allowed:
            if not a.endswith('.__init__') and a not in tabled:
                raise AnalysisError('C17.h: allowed writer %s of %s is not a row of the announce table' % (a, fld))
    seen = {f: 0 for f in WRITERS}
    views = common.function_views(ix)

    def visit(mod, node, stack, cls):
        for ch in ast.iter_child_nodes(node):
            if isinstance(ch, ast.ClassDef):
                visit(mod, ch, stack + [ch.name], ch.name if not stack else cls)
            elif isinstance(ch, (ast.FunctionDef, ast.AsyncFunctionDef)):
                construct = '%s:%s' % (mod.name, '.'.join(stack + [ch.name]))
                owner_cls = '%s.%s' % (mod.name, stack[0]) if stack else None
                # a new private helper whose every call was inlined is read where it runs (in its callers' views below)
                view = views(ch)
                if view is None:
                    continue
                for fld, recv, n in _struct_writes(view, set(WRITERS)):
                    owner, allowed = WRITERS[fld]
                    if owner is not None:
                        c = ix.classes.get(owner_cls) if owner_cls else None
                        if c is None or not (c.qualname == owner or c.is_subclass_of(ix.cls(owner))) or recv != 'self':
                            continue
                    seen[fld] += 1
                    top = '%s:%s' % (mod.name, '.'.join((stack + [ch.name])[:2] if stack else [ch.name]))
                    ok = construct in allowed or top in allowed or self_announcing(ch, n, fld)
                    ctx.ob(R, '%s `%s`' % (construct, norm(n) if isinstance(n, ast.stmt) else unparse(n)),
                           'the structure %s is written only where the change is announced' % fld, ok,
                           detail='%s changes %s.%s with `%s` but is not one of the announcing mutators %s: the structural change '
                                  'is made without its documented message' % (construct, recv, fld, unparse(n)[:120],
                                                                             [a.split(':')[1] for a in allowed]),
                           where='%s:%d' % (mod.relpath, n.lineno))
                visit(mod, ch, stack + [ch.name], cls)
            elif not isinstance(ch, (ast.expr, ast.expr_context)):
                visit(mod, ch, stack, cls)

    for name, mod in sorted(ix.modules.items()):
        visit(mod, mod.tree, [], None)
    for fld, n in seen.items():
        if n < 3:
            raise AnalysisError('C17.h: only %d writes of %s recognised' % (n, fld))
