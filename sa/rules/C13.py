"""C13 - undo restores the previous session state and redo restores the undone one."""
import ast

from ..index import AnalysisError, dotted_chain, norm, unparse, walk_no_nested, body_stmts
from ..cfg import CFG, EXIT
from ..effects import EffectAnalyzer
from ..util import calls_in, call_name, where, returns_of, parent_map, guard_chain
from .. import props
from . import common

props.prop(
    'C13',
    explanation='Static (ast + CFG + effect summaries) decision of the command stack discipline (what do/undo/redo push, '
                'pop, call and clear), of inverse call pairs, of "snapshot precedes apply", and of undo restoring every '
                'observable session field that do may change (derived from what EditSubsetMode._combine_data writes).',
    decides='stack discipline incl. redo-history clearing and the undo bound; AddData/RemoveData/AddLayer inverse pairs; '
            'snapshot of all subset states before applying; undo re-assigning every snapshot entry, deleting new '
            'subsets, removing groups the command created and restoring the edit-subset choice',
    not_decided='value-level inverses (that the restored state object is the right one), commands defined outside glue/',
    assumptions=['selection commands change the session only through EditSubsetMode.update'])
props.also('C13',
           'the path conditions under which undo deletes / keeps subsets; that undo / redo can rely on the group life-cycle and the one-member-per-dataset guard (C06.b, C06.f)')

CMD = 'glue.core.command.'
INVERSE = {'append': 'remove', 'remove': 'append', 'add_layer': 'remove_layer', 'remove_layer': 'add_layer'}


def run(ctx):
    ix = ctx.index
    ctx.guard(rule_a, ctx, ix)
    ctx.guard(rule_b, ctx, ix)
    ctx.guard(rule_c, ctx, ix)
    ctx.guard(rule_d, ctx, ix)
    ctx.guard(rule_e, ctx, ix)
    ctx.guard(rule_f, ctx, ix)
    # undo / redo go through the collection: undoing a selection removes the groups it created (remove_subset_group must tear the
    # group down completely), undoing RemoveData / redoing AddData re-appends a dataset (every group must give it a member again)
    from ..report import BorrowedCtx
    from .C06 import rule_b as _group_life_cycle, rule_f as _member_per_dataset
    ctx.guard(_group_life_cycle, BorrowedCtx(ctx, {'C06.b': 'C13.g'}), ix)
    ctx.guard(_member_per_dataset, BorrowedCtx(ctx, {'C06.f': 'C13.h'}), ix)


def _stmts(f):
    return [st for st in walk_no_nested(f.node) if isinstance(st, ast.stmt)]


def rule_a(ctx, ix):
    R = 'C13.a'
    ctx.describe(R, 'stack discipline of do / undo / redo', floor=10)
    cs = ix.cls(CMD + 'CommandStack')
    do, undo, redo = (cs.resolve_func(n) for n in ('do', 'undo', 'redo'))
    if None in (do, undo, redo):
        raise AnalysisError('CommandStack.do/undo/redo vanished')
    s = do.self_name
    cmd = do.params[1]
    DONE, REDO = '%s._command_stack' % s, '%s._undo_stack' % s
    calls = calls_in(do.node)
    push = [c for c in calls if call_name(c) == 'append' and unparse(c.func.value) == DONE and unparse(c.args[0]) == cmd]
    run_ = [c for c in calls if call_name(c) == 'do' and unparse(c.func.value) == cmd]
    ctx.ob(R, do.construct, 'do pushes the command on the done list', len(push) == 1,
           detail='CommandStack.do does not push the executed command on the undo history', where=do.where)
    ctx.ob(R, do.construct, 'do runs the command with the session', len(run_) == 1 and len(run_[0].args) == 1 and
           unparse(run_[0].args[0]) in ('%s._session' % s, '%s.session' % s),
           detail='CommandStack.do does not call cmd.do(session) exactly once', where=do.where)
    trunc = [st for st in _stmts(do) if isinstance(st, ast.Assign) and unparse(st.targets[0]) == DONE]
    ok = any(unparse(st.value).replace(' ', '') == '%s[-MAX_UNDO:]' % DONE for st in trunc) or \
        any(isinstance(st, ast.Delete) and unparse(st.targets[0]).replace(' ', '') == '%s[:-MAX_UNDO]' % DONE for st in _stmts(do))
    touches = [st for st in _stmts(do) if 'MAX_UNDO' in unparse(st)]
    ctx.idiom(R, do.construct, 'the undo history is truncated to MAX_UNDO', accepted=ok, absent=not touches,
              detail_absent='CommandStack.do no longer truncates the undo history to the documented bound MAX_UNDO',
              shape='; '.join(norm(t) for t in touches), where=do.where)
    mod = ix.module('glue.core.command')
    mu = mod.assigns.get('MAX_UNDO')
    ctx.ob(R, 'glue.core.command:MAX_UNDO', 'MAX_UNDO is a positive literal', isinstance(mu, ast.Constant) and
           isinstance(mu.value, int) and mu.value > 0, detail='MAX_UNDO is not a positive integer literal', nontrivial=False)
    clr = [st for st in _stmts(do) if (isinstance(st, ast.Assign) and unparse(st.targets[0]) == REDO and
                                       isinstance(st.value, ast.List) and not st.value.elts)]
    clr += [c for c in calls if call_name(c) == 'clear' and unparse(c.func.value) == REDO]
    clr += [st for st in _stmts(do) if isinstance(st, ast.Assign) and unparse(st.targets[0]).replace(' ', '') == REDO + '[:]']
    ctx.ob(R, do.construct, 'a new command clears the redo history', bool(clr),
           detail='CommandStack.do does not clear the redo history: after do(A), undo, do(B), a redo re-applies A on top of B',
           where=do.where)
    # undo / redo
    for f, src, dst, meth, order in ((undo, DONE, REDO, 'undo', None), (redo, REDO, DONE, 'do', None)):
        s2 = f.self_name
        src = src.replace(s, s2)
        dst = dst.replace(s, s2)
        pops = [st for st in _stmts(f) if isinstance(st, ast.Assign) and isinstance(st.value, ast.Call)
                and call_name(st.value) == 'pop' and unparse(st.value.func.value) == src]
        ok = len(pops) == 1 and (not pops[0].value.args or unparse(pops[0].value.args[0]) == '-1')
        ctx.ob(R, f.construct, '%s pops the most recent entry of %s' % (f.name, src), ok,
               detail='CommandStack.%s does not pop the last entry of %s (found %s)' % (f.name, src, [norm(p) for p in pops]),
               where=f.where)
        if not ok:
            continue
        var = unparse(pops[0].targets[0])
        fc = calls_in(f.node)
        pushed = [c for c in fc if call_name(c) == 'append' and unparse(c.func.value) == dst and unparse(c.args[0]) == var]
        ctx.ob(R, f.construct, '%s pushes the same command on %s' % (f.name, dst), len(pushed) == 1,
               detail='CommandStack.%s does not push the popped command on %s: it can no longer be %s'
                      % (f.name, dst, 'redone' if f is undo else 'undone again'), where=f.where)
        called = [c for c in fc if call_name(c) == meth and unparse(c.func.value) == var]
        ctx.ob(R, f.construct, '%s calls %s on the popped command' % (f.name, meth), len(called) == 1 and
               not any(call_name(c) in ('do', 'undo') and unparse(c.func.value) == var and call_name(c) != meth for c in fc),
               detail='CommandStack.%s does not call exactly %s() on the popped command' % (f.name, meth), where=f.where)
    # no other writer
    ea = EffectAnalyzer(ix)
    for name, m in sorted(cs.members.items()):
        if m.func is None or name in ('__init__', 'do', 'undo', 'redo'):
            continue
        eff = ea.func_effects(cs, m.func)
        w = eff.writes & {'_command_stack', '_undo_stack'}
        ctx.ob(R, m.func.construct, 'only do/undo/redo write the two histories', not w,
               detail='%s also writes %s' % (m.func.construct, sorted(w)), where=m.func.where, nontrivial=False)


def rule_b(ctx, ix):
    R = 'C13.b'
    ctx.describe(R, 'single-call commands: undo is the inverse call of do on the same receiver and argument', floor=3)
    for cname in ('AddData', 'RemoveData', 'AddLayer'):
        c = ix.cls(CMD + cname)
        do, undo = c.resolve_func('do'), c.resolve_func('undo')
        dc = [x for x in calls_in(do.node)]
        uc = [x for x in calls_in(undo.node)]
        if len(dc) != 1 or len(uc) != 1:
            raise AnalysisError('%s: do/undo are no longer single calls' % c.qualname)
        d, u = dc[0], uc[0]
        ok = INVERSE.get(call_name(d)) == call_name(u) and unparse(d.func.value) == unparse(u.func.value) and \
            [unparse(a) for a in d.args] == [unparse(a) for a in u.args]
        ctx.ob(R, c.construct, 'undo (%s) is the inverse of do (%s)' % (unparse(u), unparse(d)), ok,
               detail='%s: do performs %s but undo performs %s, which is not its inverse on the same object' % (c.name, unparse(d), unparse(u)),
               where=c.where)


def _snapshot_parts(f, selfname):
    """The snapshot of the selections taken in do(), whatever it is written as - nested loops storing ``old[k] = v``,
    ``old.update(<generator>)``, a dict comprehension or ``dict(<generator>)``:
    (reset statement, fill statement, [(target text, iter text)] outermost first, key text, value text, conditional?) or None."""
    fld = '%s.old_states' % selfname
    top = body_stmts(f.node)
    reset = [st for st in top if isinstance(st, ast.Assign) and any(unparse(t) == fld for t in st.targets)]
    # `states = self.old_states = {}` / `states = self.old_states`: other names for the same dictionary
    aliases = {fld}
    for st in top:
        if isinstance(st, ast.Assign):
            tg = [unparse(t) for t in st.targets]
            if fld in tg or unparse(st.value) == fld:
                aliases |= {t for t in tg if t.isidentifier()}

    def it(e):
        # `dc = self.data_collection; for data in dc`: the collection behind a local name
        from ..util import expand_locals
        return unparse(expand_locals(f.node, e))

    def comp_parts(c):
        gens = [(unparse(g.target), it(g.iter)) for g in c.generators]
        cond = any(g.ifs for g in c.generators)
        if isinstance(c, ast.DictComp):
            return gens, unparse(c.key), unparse(c.value), cond
        if isinstance(c.elt, ast.Tuple) and len(c.elt.elts) == 2:
            return gens, unparse(c.elt.elts[0]), unparse(c.elt.elts[1]), cond
        return None
    pm = parent_map(f.node)
    for st in top:
        # (a) the field (or an alias) is bound to a comprehension / dict(generator)
        if isinstance(st, ast.Assign) and any(unparse(t) in aliases for t in st.targets):
            v = st.value
            if isinstance(v, ast.Call) and isinstance(v.func, ast.Name) and v.func.id in ('dict', 'OrderedDict') and len(v.args) == 1:
                v = v.args[0]
            if isinstance(v, (ast.DictComp, ast.GeneratorExp, ast.ListComp)):
                parts = comp_parts(v)
                if parts:
                    return (st, st) + parts
        # (b) old.update(<generator>)
        if isinstance(st, ast.Expr) and isinstance(st.value, ast.Call) and call_name(st.value) == 'update' and \
                unparse(st.value.func.value) in aliases and len(st.value.args) == 1 and \
                isinstance(st.value.args[0], (ast.GeneratorExp, ast.ListComp, ast.DictComp)):
            parts = comp_parts(st.value.args[0])
            if parts and reset:
                return (reset[0], st) + parts
        # (c) loops storing old[k] = v
        if isinstance(st, ast.For):
            for x in ast.walk(st):
                if isinstance(x, ast.Assign) and isinstance(x.targets[0], ast.Subscript) and unparse(x.targets[0].value) in aliases:
                    gens = []
                    cur = x
                    cond = False
                    while cur is not st:
                        cur = pm.get(id(cur))
                        if isinstance(cur, ast.For):
                            gens.insert(0, (unparse(cur.target), it(cur.iter)))
                        elif isinstance(cur, (ast.If, ast.Try, ast.While)):
                            cond = True
                    if reset:
                        return reset[0], st, gens, unparse(x.targets[0].slice), unparse(x.value), cond
    return None


def rule_c(ctx, ix):
    R = 'C13.c'
    ctx.describe(R, 'the snapshot of all subset states precedes the apply; undo re-assigns every entry and deletes new subsets', floor=8)
    for cname, apply_pred in (('ApplyROI', lambda c: unparse(c.func).endswith('.apply_func')),
                              ('ApplySubsetState', lambda c: call_name(c) == 'update' and 'mode' in unparse(c.func))):
        c = ix.cls(CMD + cname)
        do, undo = c.resolve_func('do'), c.resolve_func('undo')
        s = do.self_name
        parts = _snapshot_parts(do, s)
        if parts is None:
            ctx.ob(R, do.construct, 'do snapshots the selection of every subset', False,
                   detail='%s.do no longer fills self.old_states' % cname, where=do.where)
            continue
        reset0, lp, gens, key, val, conditional = parts
        reset = [reset0]
        # for data in self.data_collection: for subset in data.subsets: old[subset] = subset.subset_state
        ok = len(gens) == 2 and gens[0][1] == '%s.data_collection' % s and gens[1][1] == '%s.subsets' % gens[0][0] and \
            key == gens[1][0] and val == '%s.subset_state' % gens[1][0]
        ctx.ob(R, do.construct, 'the snapshot covers every subset of every dataset', ok and not conditional,
               detail='%s.do does not record subset.subset_state for every subset of every dataset of the collection (found: %s -> %s: %s%s)'
                      % (cname, gens, key, val, ', conditionally' if conditional else ''),
               where=where(do, lp))
        cfg = CFG(do.node)
        dom = cfg.dominators()
        A = [n for n in cfg.nodes() if common.node_expr(cfg, n) is not None and
             any(isinstance(x, ast.Call) and apply_pred(x) for x in ast.walk(common.node_expr(cfg, n)))]
        L = cfg.node_for(lp)
        Rn = cfg.node_for(reset[0])
        if not A:
            raise AnalysisError('%s.do: applying call not recognised' % cname)
        ok = all(cfg.dominates(L, a, dom) and cfg.dominates(Rn, L, dom) for a in A)
        ctx.ob(R, do.construct, 'the snapshot (reset, then fill) dominates the applying call', ok,
               detail='%s.do applies the selection before (or without) taking the snapshot: undo restores the new state'
                      % cname, where=where(do, cfg.stmt[A[0]]))
        # undo
        u = undo.self_name
        re = False
        for lp2 in [x for x in body_stmts(undo.node) if isinstance(x, ast.For)]:
            if unparse(lp2.iter) == '%s.old_states.items()' % u and isinstance(lp2.target, ast.Tuple) and len(lp2.target.elts) == 2:
                k, v = (unparse(e) for e in lp2.target.elts)
                # unconditionally: an entry that is skipped keeps the selection the command gave it
                skipping = any(isinstance(x, (ast.Continue, ast.Break)) for x in ast.walk(lp2))
                for x in lp2.body:
                    if isinstance(x, ast.Assign) and unparse(x.targets[0]) == '%s.subset_state' % k and unparse(x.value) == v and not skipping:
                        re = True
        ctx.ob(R, undo.construct, 'undo re-assigns every snapshot entry', re,
               detail='%s.undo no longer re-assigns subset_state for every entry of the snapshot' % cname, where=undo.where)
        de = False
        for lp2 in [x for x in body_stmts(undo.node) if isinstance(x, ast.For)]:
            for x in ast.walk(lp2):
                conj = x.test.values if isinstance(x, ast.If) and isinstance(x.test, ast.BoolOp) and isinstance(x.test.op, ast.And) \
                    else ([x.test] if isinstance(x, ast.If) else [])
                if any(unparse(cj).replace(' ', '').endswith('notin%s.old_states' % u) for cj in conj) and \
                        any(call_name(cc) == 'delete' for cc in calls_in(x)):
                    de = True
        if not de:
            # the same test as a guard clause (`if subset in self.old_states: continue`) or nested differently
            from .. import cond as _c
            pm_u2 = parent_map(undo.node)
            for cc in calls_in(undo.node):
                if call_name(cc) != 'delete':
                    continue
                st_ = cc
                while st_ is not None and not isinstance(st_, ast.stmt):
                    st_ = pm_u2.get(id(st_))
                pc_ = _c.path_condition(undo.node, st_, expand=False) if st_ is not None else None
                if pc_ is None:
                    continue
                for a_ in _c.atoms(pc_):
                    try:
                        if a_.startswith('in|') and a_.endswith('|%s.old_states' % u) and _c.implies(pc_, _c.Not(_c.T(a_))):
                            de = True
                    except ValueError:
                        pass
        ctx.ob(R, undo.construct, 'undo deletes subsets that are absent from the snapshot', de,
               detail='%s.undo no longer deletes the subsets the command created' % cname, where=undo.where)


def rule_d(ctx, ix, parts=('groups', 'edit', 'siblings')):
    R = 'C13.d'
    ctx.describe(R, 'undo restores every observable session field that do may change', floor=5 if len(parts) == 3 else 3)
    esm = ix.cls('glue.core.edit_subset_mode.EditSubsetMode')
    cd = esm.resolve_func('_combine_data')
    up = esm.resolve_func('update')
    if cd is None or up is None:
        raise AnalysisError('EditSubsetMode._combine_data/update vanished')
    ea = EffectAnalyzer(ix)
    eff = ea.func_effects(esm, up)
    creates_group = any(call_name(c) == 'new_subset_group' for c in calls_in(cd.node))
    sets_edit = '_edit_subset' in eff.writes
    ctx.ob(R, cd.construct, 'what applying a selection may change is derived from the code (group creation: %s, edit subset: %s)'
           % (creates_group, sets_edit), True, nontrivial=False)
    a, b = ix.cls(CMD + 'ApplySubsetState'), ix.cls(CMD + 'ApplyROI')
    for c in (a, b):
        do, undo = c.resolve_func('do'), c.resolve_func('undo')
        if creates_group and 'groups' in parts:
            ok = any(call_name(x) == 'remove_subset_group' for x in calls_in(undo.node))
            snap = any(isinstance(st, ast.Assign) and 'subset_groups' in unparse(st.value) and unparse(st.targets[0]).startswith(do.self_name + '.')
                       for st in walk_no_nested(do.node))
            from ..util import guard_chain as _gc
            pm_u = parent_map(undo.node)
            member = True
            for x in calls_in(undo.node):
                if call_name(x) == 'remove_subset_group':
                    tests = [unparse(g.test) for g, br in _gc(pm_u, x, undo.node) if isinstance(g, ast.If)]
                    member = any(' not in ' in t and 'old_' in t for t in tests)
            ctx.ob(R, undo.construct + ' membership', 'the groups to remove are those not in the snapshot (by membership, not by position)',
                   (not ok) or member,
                   detail='%s.undo removes groups without testing membership in the snapshot taken by do(): if the collection\'s groups '
                          'changed in between (an older group removed), the wrong groups are removed or the created one survives' % c.name,
                   where=undo.where)
            ctx.ob(R, undo.construct, 'undo removes the subset groups the command created', ok and snap,
                   detail='applying a selection can create a subset group (EditSubsetMode._combine_data calls new_subset_group), '
                          'but %s.undo never removes it (do records the groups: %s; undo calls remove_subset_group: %s): after '
                          'undo the collection still holds the new, empty group' % (c.name, snap, ok), where=undo.where)
        if sets_edit and 'edit' in parts:
            ok = any(isinstance(st, ast.Assign) and unparse(st.targets[0]).endswith(('.edit_subset', '._edit_subset'))
                     for st in walk_no_nested(undo.node))
            snap = any(isinstance(st, ast.Assign) and unparse(st.value).endswith(('.edit_subset', '._edit_subset'))
                       and unparse(st.targets[0]).startswith(do.self_name + '.') for st in walk_no_nested(do.node))
            ctx.ob(R, undo.construct, 'undo restores the edit-subset choice', ok and snap,
                   detail='applying a selection can change the edit subset (EditSubsetMode writes _edit_subset), but %s.undo '
                          'does not restore it (do records it: %s; undo re-assigns it: %s): a redo then edits the wrong group'
                          % (c.name, snap, ok), where=undo.where)
    if 'siblings' not in parts:
        return
    # sibling agreement: the two selection commands restore in the same way
    ua, ub = a.resolve_func('undo'), b.resolve_func('undo')
    ta = [norm(st) for st in body_stmts(ua.node)]
    tb = [norm(st) for st in body_stmts(ub.node)]
    ctx.ob(R, ub.construct, 'ApplyROI.undo and ApplySubsetState.undo restore the same things', ta == tb,
           detail='the two selection commands undo differently: %s vs %s' % (ta, tb), where=ub.where)


def rule_e(ctx, ix):
    """The session wires the stack, the edit mode and the collection together; the application delegates un-crossed."""
    R = 'C13.e'
    ctx.describe(R, 'session / application wiring of the command stack', floor=5)
    ses = ix.cls('glue.core.session.Session')
    f = ses.resolve_func('__init__')
    s = f.self_name
    stores = {unparse(st.targets[0]): unparse(st.value) for st in walk_no_nested(f.node) if isinstance(st, ast.Assign)}
    ctx.ob(R, f.construct, 'commands receive this session', stores.get('%s.command_stack.session' % s) == s,
           detail='Session.__init__ does not hand itself to its command stack (command_stack.session = self): commands are '
                  'executed with another (or no) session', where=f.where)
    ctx.ob(R, f.construct, 'the edit mode works on this session\'s collection',
           stores.get('%s.edit_subset_mode.data_collection' % s) == '%s.data_collection' % s,
           detail='Session.__init__ does not connect the edit-subset mode to the session\'s data collection', where=f.where)
    app = ix.cls('glue.core.application_base.Application')
    init = app.resolve_func('__init__')
    ok = any(isinstance(st, ast.Assign) and unparse(st.targets[0]).endswith('._cmds') and unparse(st.value).endswith('._session.command_stack')
             for st in walk_no_nested(init.node))
    ctx.ob(R, init.construct, 'the application drives the session\'s command stack', ok,
           detail='Application.__init__ no longer takes its command stack from the session', where=init.where)
    for name in ('do', 'undo', 'redo'):
        g = app.resolve_func(name)
        if g is None:
            raise AnalysisError('Application.%s vanished' % name)
        cs = [c for c in calls_in(g.node) if isinstance(c.func, ast.Attribute) and unparse(c.func.value).endswith('._cmds')]
        ok = len(cs) == 1 and cs[0].func.attr == name
        ctx.ob(R, g.construct, 'Application.%s delegates to CommandStack.%s' % (name, name), ok,
               detail='Application.%s calls %s on the command stack' % (name, [c.func.attr for c in cs]), where=g.where)


def rule_f(ctx, ix):
    """The undo snapshot holds the selection OBJECTS the subsets had: an edit mode that writes into the current object instead of
    building a new one changes the snapshot with it, and undo restores the edited state."""
    from .C01 import mode_edits_in_place, MODES
    R = 'C13.f'
    ctx.describe(R, 'edit modes build a new selection; they never write into the object the snapshot holds', floor=5)
    for name in sorted(MODES):
        f = ix.func('glue.core.edit_subset_mode.' + name)
        edits = mode_edits_in_place(f)
        ctx.ob(R, f.construct, '%s leaves the current selection object untouched' % name, not edits,
               detail='%s writes into the selection object the subset currently holds (`%s`): the snapshot that undo restores from holds '
                      'the same object, so after undo the selection still contains the edit' % (name, norm(edits[0]) if edits else ''),
               where=where(f, edits[0]) if edits else f.where)
