"""C19 - exported data files load back to the same table or image (partial: the structural clauses only)."""
import ast

from ..index import AnalysisError, dotted_chain, norm, unparse, walk_no_nested, body_stmts
from ..flow import Flow
from ..serial import Registry
from ..util import calls_in, call_name, where, returns_of, kwarg, parent_map, guard_chain
from .. import props
from . import common
from .C02 import key_agreement

props.prop(
    'C19',
    explanation='Static (ast + dataflow) decision of the structural clauses of the exporters: every exporter enumerates the same '
                'components in the dataset\'s order and writes each under its label; for a subset the mask is the subset\'s own '
                'mask and reaches every written column, either by indexing or by masking a *copy* (never the dataset\'s own '
                'array); the three exporters agree with each other; the load log writes and reads the same keys and reloads '
                'with the saved path, factory and keyword arguments.',
    decides='component enumeration, naming and order in the three exporters; mask applied to every exported column; in-place '
            'masking only on copies; sibling agreement; LoadLog key agreement and argument forwarding, computed from what was '
            'logged (no live reads); dtypes passed on whole (byte order kept)',
    not_decided='fidelity of the file formats themselves (astropy.io, h5py, numpy), the factories\' type inference, encodings, '
                'NaN/blank conventions: those quantify over array contents and external library behaviour',
    assumptions=['Table.write / h5py / fits write what they are given'])
props.also('C19',
           'that exporters never read category codes; that the subset mask reaches every written column also when it is applied as a filter condition of the writer; that the sentinel written into masked integer pixels is announced as BLANK unconditionally')

EXPORTERS = [
    ('glue.core.data_exporters.astropy_table.data_to_astropy_table', 0),
    ('glue.core.data_exporters.hdf5.hdf5_writer', 1),
    ('glue.core.data_exporters.gridded_fits.fits_writer', 1),
]
SINKS = {'create_dataset', 'ImageHDU', 'PrimaryHDU', 'Column', 'add_column'}


def run(ctx):
    ix = ctx.index
    ctx.guard(rule_a, ctx, ix)
    ctx.guard(rule_b, ctx, ix)
    ctx.guard(rule_c, ctx, ix)
    ctx.guard(rule_d, ctx, ix)
    ctx.guard(rule_e, ctx, ix)
    ctx.guard(rule_f, ctx, ix)
    ctx.guard(rule_g, ctx, ix)
    ctx.guard(rule_h, ctx, ix)


def _loop(f, data_p):
    loops = [n for n in body_stmts(f.node) if isinstance(n, ast.For)]
    loops = [lp for lp in loops if 'main_components' in unparse(lp.iter) or 'components' in unparse(lp.iter)]
    if len(loops) != 1:
        raise AnalysisError('%s: component loop not recognised' % f.construct)
    return loops[0]


def rule_a(ctx, ix):
    R = 'C19.a'
    ctx.describe(R, 'every exporter writes the main and derived components, in order, each under its label', floor=9)
    shapes = []
    for q, di in EXPORTERS:
        f = ix.func(q)
        data_p = f.params[di]
        lp = _loop(f, data_p)
        it = unparse(lp.iter).replace(' ', '')
        ok = it == '%s.main_components+%s.derived_components' % (data_p, data_p)
        ctx.idiom(R, f.construct, 'the exported components are main + derived, in the dataset\'s order',
                  accepted=ok, absent=('main_components' not in it) or ('sorted(' in it) or ('reversed(' in it) or ('set(' in it),
                  detail_absent='%s iterates %s: components are dropped or re-ordered on export' % (f.construct, unparse(lp.iter)),
                  shape=unparse(lp.iter), where=where(f, lp))
        shapes.append(it.replace(data_p, 'D'))
        cid = unparse(lp.target)
        # the filter on `components`
        flt = [n for n in lp.body if isinstance(n, ast.If) and 'components' in unparse(n.test) and any(isinstance(x, ast.Continue) for x in n.body)]
        ok = len(flt) >= 1 and 'is not None' in unparse(flt[0].test) and ('%s not in' % cid) in unparse(flt[0].test)
        if not ok and flt:
            # the same test in another spelling: skipped  <=>  a list was given and the component is not in it
            from .. import cond as _c
            for n_ in flt:
                lst = sorted({a_.split('|')[2] for a_ in _c.atoms(_c.formula(n_.test)) if a_.startswith('in|%s|' % cid)})
                if len(lst) == 1:
                    want_ = _c.And(_c.Not(_c.T('is|None|%s' % lst[0])), _c.Not(_c.T('in|%s|%s' % (cid, lst[0]))))
                    try:
                        ok = ok or _c.equivalent(_c.formula(n_.test), want_)
                    except ValueError:
                        pass
        if not ok:
            # whichever way the loop is written (skip with continue, or the body under the positive test): a component is
            # written exactly when no list was given or it is in the list - read off the condition of the writing statement
            from .. import cond as _c
            from ..util import parent_map as _pmap
            pm_ = _pmap(f.node)
            for n_ in ast.walk(lp):
                is_sink = (isinstance(n_, ast.Assign) and isinstance(n_.targets[0], ast.Subscript) and unparse(n_.targets[0].slice) == '%s.label' % cid) or \
                    (isinstance(n_, ast.Expr) and isinstance(n_.value, ast.Call) and call_name(n_.value) in SINKS)
                if not is_sink:
                    for c_ in (ast.walk(n_) if isinstance(n_, ast.stmt) and not isinstance(n_, (ast.For, ast.If, ast.While, ast.With, ast.Try)) else ()):
                        if isinstance(c_, ast.Call) and call_name(c_) in SINKS and '%s.label' % cid in [unparse(a) for a in c_.args] + [unparse(k.value) for k in c_.keywords]:
                            is_sink = True
                if not is_sink or not isinstance(n_, ast.stmt):
                    continue
                pc_ = _c.path_condition(f.node, n_, expand=False) or ('const', True)
                lst = sorted({a_.split('|')[2] for a_ in _c.atoms(pc_) if a_.startswith('in|%s|' % cid)})
                if len(lst) != 1:
                    continue
                keep = {'is|None|%s' % lst[0], 'in|%s|%s' % (cid, lst[0])}
                try:
                    r_ = _c.restrict(pc_, lambda a: a in keep)
                    ok = ok or _c.equivalent(r_, _c.Or(_c.T('is|None|%s' % lst[0]), _c.T('in|%s|%s' % (cid, lst[0]))))
                except ValueError:
                    pass
        ctx.ob(R, f.construct + ' filter', 'a component is skipped only when a component list was given and it is not in it', ok,
               detail='%s filters the exported components with `%s`' % (f.construct, unparse(flt[0].test) if flt else None), where=where(f, lp))
        # written under its label
        named = False
        for n in ast.walk(lp):
            if isinstance(n, ast.Assign) and isinstance(n.targets[0], ast.Subscript) and unparse(n.targets[0].slice) == '%s.label' % cid:
                named = True
            if isinstance(n, ast.Call) and call_name(n) in SINKS:
                args = [unparse(a) for a in n.args] + [unparse(k.value) for k in n.keywords if k.arg in ('name',)]
                if '%s.label' % cid in args:
                    named = True
        ctx.ob(R, f.construct + ' naming', 'each component is written under its own label', named,
               detail='%s does not write each component under %s.label' % (f.construct, cid), where=where(f, lp))
        # values come from the dataset by that identifier
        reads = [n for n in ast.walk(lp) if isinstance(n, ast.Subscript) and unparse(n.value) == data_p and isinstance(n.ctx, ast.Load)]
        ok = bool(reads) and all(unparse(n.slice) == cid for n in reads)
        ctx.ob(R, f.construct + ' values', 'the written values are data[<that component>]', ok,
               detail='%s reads %s inside the component loop' % (f.construct, [unparse(n) for n in reads]), where=where(f, lp))
    ctx.ob(R, 'exporters', 'the three exporters enumerate the same components', len(set(shapes)) == 1,
           detail='the exporters enumerate different component sets: %s' % shapes)


def rule_b(ctx, ix):
    R = 'C19.b'
    ctx.describe(R, 'for a subset: its own mask reaches every written column; masking in place only on a copy', floor=9)
    for q, di in EXPORTERS:
        f = ix.func(q)
        data_p = f.params[di]
        # dataflow: IN = the exporter's argument; on the branch where it is a Subset: SUB; X.to_mask() of SUB = MASK (of anything
        # else = BADMASK); X.data of SUB = PARENT; None = NONE.  At the component loop the mask variable must hold MASK (subset)
        # or NONE (whole dataset), and the dataset variable PARENT or the argument itself.
        from .. import cond
        from ..util import expand_locals

        def classify(expr, state, data_p=data_p):
            if isinstance(expr, ast.Name):
                return set(state.get(expr.id, ()))
            if isinstance(expr, ast.Constant) and expr.value is None:
                return {'NONE'}
            if isinstance(expr, ast.Call) and isinstance(expr.func, ast.Attribute) and expr.func.attr == 'to_mask':
                src = classify(expr.func.value, state)
                return {'MASK'} if src and src <= {'SUB'} else ({'BADMASK'} if src else {'BADMASK'})
            if isinstance(expr, ast.Attribute) and expr.attr == 'data':
                src = classify(expr.value, state)
                if src and src <= {'SUB'}:
                    return {'PARENT'}
                return {'OTHERDATA'} if src else set()
            if isinstance(expr, ast.IfExp):
                return classify(expr.body, refine(expr.test, state, True)) | classify(expr.orelse, refine(expr.test, state, False))
            return set()

        def refine(test, state, branch, data_p=data_p):
            f_ = cond.formula(test)
            key = 'isinstance(%s,Subset)' % data_p
            st2 = dict(state)
            try:
                if cond.equivalent(f_, cond.T(key)):
                    pos = True
                elif cond.equivalent(f_, cond.Not(cond.T(key))):
                    pos = False
                else:
                    return state
            except ValueError:
                return state
            for k, v in state.items():
                if 'IN' in v:
                    st2[k] = frozenset((set(v) - {'IN'}) | ({'SUB'} if branch == pos else {'DS'}))
            return st2
        at_loop = {}

        def on_stmt0(st, state):
            if st is lp0:
                at_loop.update(state)
        lp0 = _loop(f, data_p)
        fl0 = Flow(classify, on_stmt=on_stmt0, refine=refine)
        fl0.run(f.node, {data_p: frozenset(['IN'])})
        if not at_loop:
            raise AnalysisError('%s: the component loop is not reached by the dataflow' % f.construct)
        masks = sorted(k for k, v in at_loop.items() if 'MASK' in v or 'BADMASK' in v)
        ok = len(masks) == 1 and set(at_loop[masks[0]]) - {'<undef>'} == {'MASK', 'NONE'} if masks else False
        dtags = set(at_loop.get(data_p, ())) - {'<undef>'}
        ok = ok and dtags and dtags <= {'PARENT', 'DS'} and 'PARENT' in dtags
        ctx.ob(R, f.construct + ' mask', 'the mask is the subset\'s own mask, taken before the subset is replaced by its dataset', bool(ok),
               detail='%s prepares the subset export so that at the component loop the mask variable(s) hold %s and `%s` holds %s '
                      '(expected: the mask of the subset itself or None; the parent dataset or the dataset given)'
                      % (f.construct, {m: sorted(at_loop[m]) for m in masks}, data_p, sorted(dtags)), where=where(f, lp0))
        mask_v = masks[0] if masks else 'mask'
        ctx.ob(R, f.construct + ' no mask', 'a whole dataset is exported without a mask', bool(masks) and 'NONE' in at_loop[mask_v],
               detail='%s does not set the mask to None for a whole dataset' % f.construct, where=where(f, lp0), nontrivial=False)
        lp = lp0
        # every path that writes a column has applied the mask when there is one: an indexing with the mask that runs exactly
        # when the mask is present (the test may be written through a local flag)
        present = cond.Not(cond.T('is|%s|%s' % tuple(sorted(('None', mask_v)))))
        idx = [n for n in ast.walk(lp) if isinstance(n, ast.Subscript) and unparse(n.slice).replace(' ', '') in (mask_v, '~' + mask_v)]
        applied = []
        for n in idx:
            pc = cond.restrict(cond.expr_condition(f.node, n), lambda a: a in cond.atoms(present))
            try:
                if cond.equivalent(pc, present):
                    applied.append(n)
            except ValueError:
                pass
        ctx.ob(R, f.construct + ' applied', 'inside the component loop the mask is applied when present', bool(applied),
               detail='%s never applies the subset mask to the exported values (no indexing with `%s` that runs exactly when the mask is '
                      'present): the whole dataset is written for a subset' % (f.construct, mask_v), where=where(f, lp))
        if applied:
            ctx.ob(R, f.construct + ' indexed', 'the values are indexed / masked with that mask', True)
            # the write must come after the masking, in the same iteration
            sinks = [n for n in ast.walk(lp) if (isinstance(n, ast.Call) and call_name(n) in SINKS) or
                     (isinstance(n, ast.Assign) and isinstance(n.targets[0], ast.Subscript) and '.label' in unparse(n.targets[0].slice))]
            first = min(n.lineno for n in applied)
            def inside(s_):
                # the masked values are computed in the written expression itself: `out[label] = v if m is None else v[m]`
                src = s_.value if isinstance(s_, ast.Assign) else s_
                return any(a_ is x_ for a_ in applied for x_ in ast.walk(src))
            ok = bool(sinks) and all(s_.lineno > first or inside(s_) for s_ in sinks)
            ctx.ob(R, f.construct + ' order', 'the column is written after the mask was applied', ok,
                   detail='%s writes the column before applying the mask' % f.construct, where=where(f, lp))
        # fresh-before-mutate: in-place masking only on copies
        cid = unparse(lp.target)

        def classify(expr, state, data_p=data_p):
            if isinstance(expr, ast.Name):
                return set(state.get(expr.id, ()))
            if isinstance(expr, ast.Call) and isinstance(expr.func, ast.Attribute) and expr.func.attr in ('copy', 'astype'):
                return {'fresh'}
            if isinstance(expr, ast.Call) and call_name(expr) in ('encode', 'array', 'zeros_like', 'where'):
                return {'fresh'}
            if isinstance(expr, ast.Subscript) and unparse(expr.value) == data_p:
                return {'shared'}
            if isinstance(expr, ast.Subscript):
                base = classify(expr.value, state)
                # boolean-mask indexing copies
                if unparse(expr.slice).replace(' ', '') in ('mask', mask_v):
                    return {'fresh'}
                return base
            return {'fresh'} if isinstance(expr, (ast.BinOp, ast.Compare, ast.UnaryOp)) else {'unknown'}
        sites = []

        def on_stmt(st, state):
            if isinstance(st, ast.Assign) and isinstance(st.targets[0], ast.Subscript) and isinstance(st.targets[0].value, ast.Name):
                nm = st.targets[0].value.id
                if nm in state:
                    sites.append((st, set(state[nm])))
        fl = Flow(classify, on_stmt=on_stmt)
        fl.block(lp.body, {})
        for st, tags in sites:
            if '.label' in unparse(st.targets[0].slice):
                continue
            ctx.ob(R, '%s `%s`' % (f.construct, norm(st)), 'values masked in place are a copy, not the dataset\'s own array', 'shared' not in tags,
                   detail='%s masks the values in place with `%s` although they may be the dataset\'s own array (%s[%s] without a copy): '
                          'exporting a subset overwrites the dataset outside the selection' % (f.construct, norm(st), data_p, cid),
                   where=where(f, st))


def rule_c(ctx, ix):
    R = 'C19.c'
    ctx.describe(R, 'the load log writes and reads the same keys and reloads with the saved path, factory and arguments', floor=4)
    reg = Registry(ix)
    c = ix.cls('glue.core.data_factories.helpers.LoadLog')
    s, l = c.resolve_func('__gluestate__'), c.resolve_func('__setgluestate__')
    if s is None or l is None:
        raise AnalysisError('LoadLog.__gluestate__/__setgluestate__ vanished')
    key_agreement(ctx, R, 'LoadLog.__gluestate__ <-> LoadLog.__setgluestate__', c.qualname, s, l,
                  reg.saver_info(s, c), reg.loader_info(l, c), reg)
    rec = l.params[1]
    ld = [x for x in calls_in(l.node) if call_name(x) == 'load_data']
    ok = len(ld) == 1 and unparse(ld[0].args[0]) == "%s['path']" % rec and kwarg(ld[0], 'factory') is not None
    ctx.ob(R, l.construct, 'the file is re-read from the saved path with the saved factory', ok,
           detail='LoadLog.__setgluestate__ does not call load_data(rec[\'path\'], factory=<saved factory>, ...)', where=l.where)
    if ld:
        fac = unparse(kwarg(ld[0], 'factory')) if kwarg(ld[0], 'factory') is not None else ''
        defs = {unparse(st.targets[0]): unparse(st.value) for st in walk_no_nested(l.node) if isinstance(st, ast.Assign)}
        ok = "rec['factory']" in defs.get(fac, fac).replace('"', "'").replace(rec, 'rec')
        ctx.ob(R, l.construct + ' factory', 'the factory passed is the one that was saved', ok,
               detail='load_data is called with factory=%s' % fac, where=l.where)
        star = [k for k in ld[0].keywords if k.arg is None]
        ok = len(star) == 1 and "rec['kwargs']" in defs.get(unparse(star[0].value), '').replace(rec, 'rec')
        ctx.ob(R, l.construct + ' kwargs', 'the saved keyword arguments are passed on', ok,
               detail='load_data is not called with the saved keyword arguments', where=l.where)
    sv = reg.saver_info(s, c)
    ok = all(k in sv.keys for k in ('path', 'factory', 'kwargs'))
    ctx.ob(R, s.construct, 'path, factory and keyword arguments are saved', ok,
           detail='LoadLog.__gluestate__ writes %s' % sorted(sv.keys), where=s.where)
    # reload() forwards the same three
    r = c.resolve_func('reload')
    ld = [x for x in calls_in(r.node) if call_name(x) == 'load_data']
    sn = r.self_name
    ok = len(ld) == 1 and unparse(ld[0].args[0]) == '%s.path' % sn and kwarg(ld[0], 'factory') is not None and \
        unparse(kwarg(ld[0], 'factory')) == '%s.factory' % sn and any(k.arg is None and unparse(k.value) == '%s.kwargs' % sn for k in ld[0].keywords)
    ctx.ob(R, r.construct, 'reload re-reads the same path with the same factory and arguments', ok,
           detail='LoadLog.reload does not call load_data(self.path, factory=self.factory, **self.kwargs)', where=r.where)


def rule_d(ctx, ix):
    """One load log per load_data call, shared by every dataset the file produced (the log loader hands back the log of the
    *first* dataset and every component is looked up in it by index)."""
    R = 'C19.d'
    ctx.describe(R, 'load_data creates one log per file and logs every dataset and component in it', floor=3)
    f = ix.func('glue.core.data_factories.helpers.load_data')
    pm = parent_map(f.node)
    mk = [c for c in calls_in(f.node) if call_name(c) == 'LoadLog']
    ok = len(mk) == 1 and not [g for g, br in guard_chain(pm, mk[0], f.node) if isinstance(g, (ast.For, ast.While))]
    ctx.ob(R, f.construct, 'exactly one LoadLog is created per call, outside the per-dataset loop', ok,
           detail='load_data creates its LoadLog %s: datasets of one file no longer share a log, but the restored session takes the '
                  'log of the first dataset for all of them (every later dataset comes back with the first one\'s values)'
                  % ('inside the per-dataset loop' if len(mk) == 1 else '%d times' % len(mk)), where=f.where)
    if mk:
        a = [unparse(x) for x in mk[0].args]
        ctx.ob(R, f.construct + ' args', 'the log records the path, the factory and the keyword arguments of this call',
               a == ['path', 'factory', 'kwargs'], detail='LoadLog is created with (%s)' % ', '.join(a), where=where(f, mk[0]))
    logs = [c for c in calls_in(f.node) if call_name(c) == 'log' and 'log' in unparse(c.func.value)]
    loops = [n for n in walk_no_nested(f.node) if isinstance(n, ast.For)]
    inloop = [c for c in logs if any(any(c is x for x in ast.walk(lp)) for lp in loops)]
    ctx.ob(R, f.construct + ' logging', 'every dataset and each of its components is logged', len(inloop) >= 2,
           detail='load_data logs %d objects inside its dataset loop (expected the dataset and its components)' % len(inloop), where=f.where)


def rule_e(ctx, ix):
    """The log is shared by every dataset of the file (C19.d): a quantity of ONE dataset (its dimensionality) must not be
    compared with a count over the components of ALL of them."""
    R = 'C19.e'
    ctx.describe(R, 'per-dataset quantities in the load log\'s saver are computed over one dataset\'s components', floor=1)
    ll = ix.cls('glue.core.data_factories.helpers.LoadLog')
    f = ll.resolve_func('__gluestate__')
    s = f.self_name
    shared = any(call_name(c) == 'append' and unparse(c.func.value) == '%s.components' % ll.resolve_func('_log_component').self_name
                 for c in calls_in(ll.resolve_func('_log_component').node))
    if not shared:
        raise AnalysisError('LoadLog._log_component no longer appends to the shared component list')
    n = 0
    from ..util import expand_locals
    for cmp0 in [x for x in ast.walk(f.node) if isinstance(x, ast.Compare) and len(x.comparators) == 1]:
        # local names for the two sides (n_coords, ndim, ...) are read through
        cmp_ = expand_locals(f.node, cmp0)
        ast.copy_location(cmp_, cmp0)
        sides = [cmp_.left, cmp_.comparators[0]]

        def counts(e):
            return [c for c in ast.walk(e) if isinstance(c, (ast.ListComp, ast.GeneratorExp, ast.SetComp))
                    and any(unparse(g.iter) == '%s.components' % s for g in c.generators)]
        count_sides = [e for e in sides if counts(e)]
        single = [e for e in sides if not counts(e) and
                  any(isinstance(y, ast.Subscript) and unparse(y.value) in ('%s.components' % s, '%s.data' % s)
                      and isinstance(y.slice, ast.Constant) for y in ast.walk(e))]
        if not single or not count_sides:
            continue
        for e in count_sides:
            comps = counts(e)
            for c in comps:
                n += 1
                conds = [unparse(i) for g in c.generators for i in g.ifs]
                per_dataset = any(('_data' in t or '.data' in t) and (' is ' in t or '==' in t) for t in conds)
                ctx.idiom(R, '%s `%s`' % (f.construct, unparse(cmp_)[:60]),
                          'a count compared with a property of the first dataset ranges over that dataset\'s components only',
                          accepted=per_dataset, absent=not per_dataset,
                          detail_absent='LoadLog.__gluestate__ compares `%s`, a count over the components of every dataset loaded from the '
                                        'file, with `%s`, a property of the first one: for a file that yields several datasets (two '
                                        'tables, several image extensions) the decision (force_coords) is taken on the wrong count, and '
                                        'the session saved by reference does not restore' % (unparse(c)[:90], unparse(single[0])),
                          shape=unparse(c), where=where(f, cmp_))
    # what the log writes describes the file as it was read: it is computed from what was logged then (self.components, path,
    # factory, kwargs).  The datasets themselves (self.data[k]) are live objects the user may have changed since (coords
    # assigned, components added): they may be named (identity tests), not read.
    from ..util import single_assignments
    defs = single_assignments(f.node)
    live_names = {k for k, v in defs.items() if isinstance(v, ast.Subscript) and unparse(v.value) == '%s.data' % s}
    live = []
    for a in ast.walk(f.node):
        if isinstance(a, ast.Attribute) and isinstance(a.ctx, ast.Load):
            b = a.value
            if (isinstance(b, ast.Subscript) and unparse(b.value) == '%s.data' % s) or (isinstance(b, ast.Name) and b.id in live_names):
                live.append(a)
    ctx.ob(R, f.construct + ' live', 'the saved record is computed from what was logged at load time, not from the live datasets', not live,
           detail='LoadLog.__gluestate__ reads `%s` of a dataset as it is now: after the user changed the loaded dataset (data.coords = ..., '
                  'a component added) the record no longer describes what the file yields, and the session saved by reference does not '
                  'restore (the logged component positions are shifted)' % (unparse(live[0]) if live else ''), where=f.where)
    if n < 1 and not live:
        raise AnalysisError('LoadLog.__gluestate__: the coordinate-count heuristic is no longer recognised')


BUILTIN_SCALARS = {'float': 'float64 only (float32 / float16 columns are not sub-dtypes of it)', 'int': 'the platform integer only',
                   'complex': 'complex128 only', 'bool': 'numpy.bool_ only', 'str': 'numpy.str_', 'bytes': 'numpy.bytes_'}


def rule_f(ctx, ix):
    """Column kinds are decided per dtype family.  ``np.issubdtype(dtype, float)`` looks like "is this a floating-point column"
    but the builtin stands for ONE dtype (float64): single-precision columns take the other branch."""
    R = 'C19.f'
    ctx.describe(R, 'dtype family tests in the readers/writers use the abstract numpy families, not one concrete builtin type', floor=3)
    n = 0
    for m in sorted(ix.modules.values(), key=lambda m_: m_.name):
        if not (m.name.startswith('glue.core.data_factories') or m.name.startswith('glue.core.data_exporters')):
            continue
        for c in ast.walk(m.tree):
            if isinstance(c, ast.Attribute) and c.attr == 'kind' and isinstance(c.value, ast.Attribute) and c.value.attr == 'dtype':
                n += 1      # dtype.kind tests: family tests by construction
                ctx.ob(R, '%s dtype.kind' % m.name, 'family test through dtype.kind', True, nontrivial=False)
            if not (isinstance(c, ast.Call) and call_name(c) == 'issubdtype' and len(c.args) == 2):
                continue
            n += 1
            t = c.args[1]
            bad = isinstance(t, ast.Name) and t.id in BUILTIN_SCALARS
            ctx.ob(R, '%s `%s`' % (m.name, norm(c)), 'the second argument of issubdtype is a dtype family (np.floating, np.integer, ...)', not bad,
                   detail='`%s` in %s tests against the builtin `%s`, which numpy reads as %s: columns of the same family with another '
                          'width (float32 in a VO table, int32 in a FITS table) are treated as if they were of another kind, e.g. their '
                          'missing values are filled with -1 instead of NaN' % (norm(c), m.name, unparse(t), BUILTIN_SCALARS.get(unparse(t), '')),
                   where='%s:%d' % (m.relpath, c.lineno))
    if n < 3:
        raise AnalysisError('C19.f: only %d dtype family tests found in the readers / writers' % n)
    # a dtype that is rebuilt from parts of another one keeps what the parts say: kind, itemsize, char, name and type do not carry
    # the byte order (files - FITS, HDF5 written elsewhere - are often big-endian), only the dtype itself / .str / .descr do
    LOSSY = ('kind', 'itemsize', 'char', 'name', 'type', 'num')
    KEEPS = ('str', 'descr', 'byteorder', 'newbyteorder')
    probe = ast.parse("d = np.dtype('{0.kind}{0.itemsize}'.format(info['dtype']))").body[0]

    def rebuilt(node):
        out = []
        for c in ast.walk(node):
            ex = None
            if isinstance(c, ast.Call) and call_name(c) == 'dtype' and c.args:
                ex = c.args[0]
            elif isinstance(c, ast.keyword) and c.arg == 'dtype':
                ex = c.value
            if ex is None:
                continue
            txt = unparse(ex)
            parts = {a.attr for a in ast.walk(ex) if isinstance(a, ast.Attribute)} | \
                {p_ for p_ in LOSSY + KEEPS if ('.%s}' % p_) in txt or ('.%s!' % p_) in txt or ('.%s:' % p_) in txt}
            if parts & set(LOSSY) and not parts & set(KEEPS) and (parts & {'kind', 'char', 'name', 'type', 'num'}):
                out.append((c, ex, sorted(parts & set(LOSSY))))
        return out
    if not rebuilt(probe):
        raise AnalysisError('C19.f: the detector of rebuilt dtypes no longer recognises its reference example')
    nmod = 0
    for m in sorted(ix.modules.values(), key=lambda m_: m_.name):
        if not (m.name.startswith('glue.core.data_factories') or m.name.startswith('glue.core.data_exporters')) or '.tests' in m.name:
            continue
        nmod += 1
        for c, ex, parts in rebuilt(m.tree):
            ctx.ob(R, '%s `%s`' % (m.name, unparse(ex)[:60]), 'a dtype is passed on as it is, not rebuilt from parts that drop the byte order', False,
                   detail='%s builds a dtype from %s of another dtype (`%s`): the byte order is lost, so big-endian values (every array that '
                          'came from a FITS file, then exported and read back) are reinterpreted as native ones - 1.5 comes back as '
                          '3e-319, without an error' % (m.name, '/'.join(parts), unparse(ex)),
                   where='%s:%d' % (m.relpath, getattr(c, 'lineno', getattr(ex, 'lineno', 0))))
    ctx.ob(R, 'readers / writers dtypes', 'every dtype= / np.dtype(...) expression of the readers and writers was examined (%d modules)' % nmod, nmod >= 5,
           detail='only %d reader / writer modules seen' % nmod)


def rule_g(ctx, ix):
    """The exporters write the values the dataset hands out (for a text column: its labels).  The integer codes of a categorical
    array are a display quantity - jitter is added to them - so a writer that rebuilds the labels as categories[codes] writes the
    neighbouring category for jittered rows."""
    R = 'C19.g'
    ctx.describe(R, 'the exporters never rebuild text columns from the integer codes of a categorical array', floor=1)
    probe = ast.parse('values = categories[values.codes.astype(int)]')
    if not [a for a in ast.walk(probe) if isinstance(a, ast.Attribute) and a.attr == 'codes']:
        raise AnalysisError('C19.g: the detector no longer recognises its reference example')
    n = 0
    for m in sorted(ix.modules.values(), key=lambda m_: m_.name):
        if not m.name.startswith('glue.core.data_exporters') or '.tests' in m.name:
            continue
        n += 1
        uses = [a for a in ast.walk(m.tree) if isinstance(a, ast.Attribute) and a.attr in ('codes', '_codes')]
        ctx.ob(R, m.name, 'no use of categorical codes in the writer', not uses,
               detail='%s reads `.codes` of the values it exports (line %s): the codes include the display jitter of the component, so '
                      'labels rebuilt from them (categories[codes.astype(int)]) are those of the neighbouring category for jittered rows - '
                      'the file silently holds other labels than the dataset' % (m.name, uses[0].lineno if uses else ''),
               where='%s:%d' % (m.relpath, uses[0].lineno if uses else 1))
    if n < 3:
        raise AnalysisError('C19.g: only %d exporter modules seen' % n)


def rule_h(ctx, ix):
    """Integer images have no NaN: the pixels outside the subset are overwritten with a sentinel, and the reader turns exactly the
    value announced as BLANK in that HDU's header back into NaN.  The sentinel written into the pixels must therefore be stored under
    BLANK for every component that was masked with it - unconditionally: the header may already carry a BLANK (from the file the data
    came from, or from the previous component when the header object is shared)."""
    from .. import cond
    R = 'C19.h'
    ctx.describe(R, 'gridded FITS: the sentinel written into masked integer pixels is the BLANK announced in the same HDU header', floor=1)
    f = ix.func('glue.core.data_exporters.gridded_fits.fits_writer')
    fills = [st for st in ast.walk(f.node) if isinstance(st, ast.Assign) and isinstance(st.targets[0], ast.Subscript)
             and isinstance(st.value, ast.Name) and 'mask' in unparse(st.targets[0].slice)]
    if not fills:
        raise AnalysisError('fits_writer: the sentinel fill `values[~mask] = blank` is no longer recognised')
    for fill in fills:
        var = fill.value.id
        stores = [st for st in ast.walk(f.node) if isinstance(st, ast.Assign) and isinstance(st.targets[0], ast.Subscript)
                  and isinstance(st.targets[0].slice, ast.Constant) and st.targets[0].slice.value == 'BLANK']
        soft = [c for c in calls_in(f.node) if call_name(c) == 'setdefault' and c.args and isinstance(c.args[0], ast.Constant) and c.args[0].value == 'BLANK']
        good = []
        for st in stores:
            pc = cond.path_condition(f.node, st, expand=False) or ('const', True)
            if isinstance(st.value, ast.Name) and st.value.id == var and not any('BLANK' in a for a in cond.atoms(pc)):
                good.append(st)
        # other spellings of the unconditional store: header.set('BLANK', v), header.update(BLANK=v), header.update({'BLANK': v})
        for c in calls_in(f.node):
            pc = cond.path_condition(f.node, c, expand=False) or ('const', True)
            if any('BLANK' in a for a in cond.atoms(pc)):
                continue
            if call_name(c) == 'set' and len(c.args) >= 2 and isinstance(c.args[0], ast.Constant) and c.args[0].value == 'BLANK' \
                    and isinstance(c.args[1], ast.Name) and c.args[1].id == var:
                good.append(c)
            if call_name(c) == 'update':
                if any(k.arg == 'BLANK' and isinstance(k.value, ast.Name) and k.value.id == var for k in c.keywords):
                    good.append(c)
                for a in c.args:
                    if isinstance(a, ast.Dict) and any(isinstance(k_, ast.Constant) and k_.value == 'BLANK' and isinstance(v_, ast.Name) and v_.id == var
                                                      for k_, v_ in zip(a.keys, a.values)):
                        good.append(c)
        other = [c for c in calls_in(f.node) if any(isinstance(a, ast.Constant) and a.value == 'BLANK' for a in c.args) and c not in soft and c not in good]
        ctx.idiom(R, '%s `%s`' % (f.construct, norm(fill)), 'header[\'BLANK\'] = %s, whatever the header held before' % var,
                  accepted=bool(good), absent=not good and not other,
                  detail_absent='fits_writer fills the masked integer pixels with `%s` but %s: when the header already has a BLANK (the shared '
                                'component header after an integer component of another width, or the header of the file the data came '
                                'from) the sentinel of this component is not the announced one, and the pixels outside the subset reload '
                                'as a large negative number instead of NaN' % (
                                    var, 'announces it only with `%s`, which keeps an existing value' % unparse(soft[0]) if soft else
                                    'stores BLANK only under a test of what the header holds' if stores else 'never stores it under BLANK'),
                  shape='; '.join(unparse(c) for c in other)[:200], where=where(f, fill))
