"""C14 - derived attributes compute their defining expression and go with their inputs."""
import ast

from ..index import AnalysisError, dotted_chain, norm, unparse, walk_no_nested, body_stmts
from ..effects import EffectAnalyzer
from ..util import calls_in, call_name, where, returns_of, parent_map
from .. import props
from . import common
from .C04 import view_flow, _none_only

props.prop(
    'C14',
    explanation='Static (ast) agreement of the arithmetic operator dunders of ComponentID / ComponentLink with the '
                'operator they pass and the operand order (incl. reflected operands), operand order and view forwarding of '
                'BinaryComponentLink.compute, coverage of replace_ids, the recursive dependent sweep of remove_component, '
                'and the identifier-holding structures rewritten by update_id.',
    decides='that x <op> y builds op(x, y) and y <op> x (reflected) builds op(y, x) for + - * / **; that compute applies '
            'op(left, right) with both operands read through the same view; that removing an attribute removes its '
            'dependents transitively (recursion through remove_component); that update_id rewrites every structure that '
            'holds identifiers, including derived links',
    not_decided='broadcasting numerics, evaluation of parsed strings, user functions',
    assumptions=['__div__/__rdiv__ are Python-2 leftovers (operator.div does not exist in Python 3): exempt'])
props.also('C14',
           'that what compute / replace_ids does to one operand is never conditioned on the other; that every ComponentLink subclass whose compute() reads a field of its own rewrites that field in replace_ids; that evaluating a parsed expression never removes names from the shared namespace; that the shared namespace is not overwritten after eval() either; that the tag normalisation of parsed expressions keys its replacement table by the matched text (every spelling replaced)')

ARITH = {'add': 'add', 'sub': 'sub', 'mul': 'mul', 'truediv': 'truediv', 'pow': 'pow'}
BCL = 'glue.core.component_link.BinaryComponentLink'


def run(ctx):
    ix = ctx.index
    ctx.guard(rule_a, ctx, ix)
    ctx.guard(rule_b, ctx, ix)
    ctx.guard(rule_c, ctx, ix)
    ctx.guard(rule_d, ctx, ix)
    ctx.guard(rule_e, ctx, ix)
    ctx.guard(rule_f, ctx, ix)
    ctx.guard(rule_g, ctx, ix)
    ctx.guard(rule_h, ctx, ix)


def rule_a(ctx, ix):
    R = 'C14.a'
    ctx.describe(R, 'arithmetic dunders <-> operator tables incl. reflected operand order; compute applies op(left, right)', floor=22)
    for cq in ('glue.core.component_id.ComponentID', 'glue.core.component_link.ComponentLink'):
        cls = ix.cls(cq)
        for name, op in sorted(ARITH.items()):
            common.check_operator_dunder(ctx, R, cls, '__%s__' % name, BCL, op, reflected=False)
            common.check_operator_dunder(ctx, R, cls, '__r%s__' % name, BCL, op, reflected=True)
        for d in ('__div__', '__rdiv__'):
            if d in cls.members:
                ctx.exception(R, '%s.%s' % (cls.construct, d), 'Python-2 leftover: references operator.div, never called in Python 3')
    bcl = ix.cls(BCL)
    f = bcl.resolve_func('compute')
    common.check_binary_apply(ctx, R, bcl, f, op_field='_op', left_field='_left', right_field='_right')
    # constructor stores operands in the fields compute reads
    init = bcl.resolve_func('__init__')
    p = init.params
    stores = {unparse(st.targets[0]): unparse(st.value) for st in walk_no_nested(init.node)
              if isinstance(st, ast.Assign) and isinstance(st.targets[0], ast.Attribute)}
    s = init.self_name
    ok = stores.get('%s._left' % s) == p[1] and stores.get('%s._right' % s) == p[2] and stores.get('%s._op' % s) == p[3]
    ctx.ob(R, init.construct, 'the constructor stores (left, right, op) in (_left, _right, _op)', ok,
           detail='BinaryComponentLink.__init__ stores its arguments as %s' % stores, where=init.where)
    # both operands read through the same view
    view = f.params[2] if len(f.params) > 2 else 'view'
    operands = ('%s._left' % f.self_name, '%s._right' % f.self_name, 'left', 'right')
    reads = [n for n in ast.walk(f.node) if isinstance(n, ast.Subscript) and _input_read(n, view) is not None
             and _input_read(n, view) in operands]
    ok = len(reads) == 2 and all(unparse(n.value) == f.params[1] for n in reads)
    ctx.ob(R, f.construct, 'both operands are read from the same dataset with the same view', ok,
           detail='BinaryComponentLink.compute does not read both operands as data[operand, view]: %s' % [unparse(n) for n in reads],
           where=f.where)
    # the list of input ids handed to the base class is built here, never a sub-link's own list mutated in place
    from ..flow import Flow

    def _cl(expr, state):
        if (isinstance(expr, ast.Call) and call_name(expr) in ('get_from_ids', 'get_to_ids')) or \
                (isinstance(expr, ast.Attribute) and expr.attr in ('_from', '_from_all')):
            return {'shared:' + unparse(expr)}
        if isinstance(expr, ast.Name):
            return set(state.get(expr.id, ()))
        return {'fresh'}
    bad = []
    shared = {}

    def _on(st, state):
        tgt = None
        if isinstance(st, ast.Expr) and isinstance(st.value, ast.Call) and isinstance(st.value.func, ast.Attribute) \
                and st.value.func.attr in ('append', 'extend', 'insert', 'remove', 'pop') and isinstance(st.value.func.value, ast.Name):
            tgt = st.value.func.value.id
        elif isinstance(st, ast.AugAssign) and isinstance(st.target, ast.Name):
            tgt = st.target.id
        if tgt is not None:
            sh = [t for t in state.get(tgt, ()) if t.startswith('shared:')]
            if sh:
                bad.append(st)
                shared[tgt] = sh[0]
    Flow(_cl, on_stmt=_on).run(init.node, {})
    ctx.ob(R, init.construct + ' inputs', 'the input-id list is fresh (a sub-link\'s own list is never extended in place)', not bad,
           detail='BinaryComponentLink.__init__ takes the input-id list of an operand link (`%s`) and mutates it in place (`%s`): the '
                  'operand link - which may itself be stored as an attribute - now claims the other operand\'s ids as its inputs, so '
                  'removing one of them also removes the unrelated attribute'
                  % (list(shared.values())[0] if shared else '', norm(bad[0]) if bad else ''), where=init.where)
    # replace_ids covers every id-holding field
    ea = EffectAnalyzer(ix)
    g = bcl.resolve_func('replace_ids')
    eff = ea.func_effects(bcl, g)
    for fld in ('_from', '_to', '_left', '_right'):
        ctx.ob(R, g.construct, 'replace_ids rewrites %s' % fld, fld in eff.writes,
               detail='BinaryComponentLink.replace_ids does not rewrite %s: after an identifier is replaced the link still refers '
                      'to the old one' % fld, where=g.where)
    # ... each operand on its own: an expression may name one attribute on both sides (x * x), so what is done to the right
    # operand must not depend on a test of the left one (and the other way round)
    from .. import cond as _cd
    s_g = g.self_name
    for fld, other in (('_left', '_right'), ('_right', '_left')):
        for st in walk_no_nested(g.node):
            touches = (isinstance(st, ast.Assign) and any(unparse(t) == '%s.%s' % (s_g, fld) for t in st.targets)) or \
                (isinstance(st, ast.Expr) and isinstance(st.value, ast.Call) and call_name(st.value) == 'replace_ids'
                 and unparse(st.value.func.value) == '%s.%s' % (s_g, fld))
            if not touches:
                continue
            pc = _cd.path_condition(g.node, st, expand=False) or ('const', True)
            foreign = sorted(a for a in _cd.atoms(pc) if ('%s.%s' % (s_g, other)) in a)
            ctx.ob(R, '%s %s `%s`' % (g.construct, fld, norm(st)[:50]), 'the %s operand is handled independently of the other one' % fld[1:], not foreign,
                   detail='BinaryComponentLink.replace_ids handles %s only under `%s`, a condition on the OTHER operand: for an expression '
                          'with the same attribute on both sides (x * x, (x + 1) / x) one side keeps the old identifier and the derived '
                          'attribute raises IncompatibleAttribute after Data.update_id' % (fld, pc), where=where(g, st))
    # nested links are followed
    ok = sum(1 for c in calls_in(g.node) if call_name(c) == 'replace_ids' and 'super' not in unparse(c.func)) >= 2
    ctx.ob(R, g.construct, 'replace_ids recurses into operand links', ok,
           detail='BinaryComponentLink.replace_ids does not recurse into operands that are links themselves', where=g.where)


def _input_read(sub, view):
    """``data[X, view]`` or ``data[join_component_view(X, view)]`` -> text of X (the packing helper is checked by C14.e)."""
    sl = sub.slice
    if isinstance(sl, ast.Tuple) and len(sl.elts) == 2 and unparse(sl.elts[1]) == view:
        return unparse(sl.elts[0])
    if isinstance(sl, ast.Call) and call_name(sl) == 'join_component_view' and len(sl.args) == 2 and unparse(sl.args[1]) == view:
        return unparse(sl.args[0])
    return None


def rule_e(ctx, ix):
    """A link evaluates each of its inputs on exactly the requested view."""
    from ..util import guard_chain, parent_map
    R = 'C14.e'
    ctx.describe(R, 'user-function links read every input with the requested view; the key-packing helper keeps the view whole', floor=2)
    cl = ix.cls('glue.core.component_link.ComponentLink')
    f = cl.resolve_func('compute')
    view = f.params[2]
    reads = [n for n in ast.walk(f.node) if isinstance(n, ast.Subscript) and unparse(n.value) == f.params[1]]
    ok = len(reads) == 1 and _input_read(reads[0], view) is not None
    if ok:
        var = _input_read(reads[0], view)
        # one whole pass over the inputs (a comprehension or an append loop), reading each input itself
        from ..util import iterations, enclosing
        pm = parent_map(f.node)
        ok = False
        for it, tg, owner, kind in iterations(f.node):
            if unparse(it) != '%s._from' % f.self_name or unparse(tg) != var or not any(reads[0] is x for x in ast.walk(owner)):
                continue
            if kind == 'comp':
                ok = not any(g.ifs for g in owner.generators)
            else:
                st_ = reads[0]
                while st_ is not None and not isinstance(st_, ast.stmt):
                    st_ = pm.get(id(st_))
                ok = st_ in owner.body and not any(isinstance(x, (ast.Break, ast.Continue, ast.Return)) for x in ast.walk(owner))
    ctx.ob(R, f.construct, 'every input of the link is read from the dataset with the requested view', ok,
           detail='ComponentLink.compute no longer reads each of its inputs as data[input, view]: %s' % [unparse(n) for n in reads], where=f.where)
    j = ix.func('glue.core.util.join_component_view')
    comp_p, view_p = j.params[0], j.params[1]
    pm = parent_map(j.node)
    unpack = []
    for n in ast.walk(j.node):
        if isinstance(n, ast.Call) and call_name(n) in ('extend',) and n.args and any(isinstance(x, ast.Name) and x.id == view_p for x in ast.walk(n.args[0])):
            unpack.append(n)
        elif isinstance(n, ast.Starred) and any(isinstance(x, ast.Name) and x.id == view_p for x in ast.walk(n.value)):
            unpack.append(n)
        elif isinstance(n, ast.BinOp) and isinstance(n.op, ast.Add) and any(isinstance(x, ast.Name) and x.id == view_p for x in ast.walk(n.right)):
            unpack.append(n)
        elif isinstance(n, ast.Call) and call_name(n) in ('tuple', 'list') and n.args and isinstance(n.args[0], ast.Name) and n.args[0].id == view_p \
                and not isinstance(pm.get(id(n)), ast.BinOp):
            unpack.append(n)
    guarded = []
    for u in unpack:
        tests = [unparse(g.test).replace(' ', '') for g, br in guard_chain(pm, u, j.node) if isinstance(g, ast.If) and br == 'body']
        guarded.append(any(t == 'isinstance(%s,tuple)' % view_p for t in tests))
    rets = [unparse(r.value).replace(' ', '') for r in returns_of(j) if r.value is not None]
    whole = any(t in ('(%s,%s)' % (comp_p, view_p), 'tuple([%s,%s])' % (comp_p, view_p)) for t in rets)
    ctx.idiom(R, j.construct, 'only a tuple view is spliced into the key; any other view (list, index array, mask, scalar) stays one element',
              accepted=all(guarded) and whole and comp_p in rets,
              absent=bool(unpack) and not all(guarded),
              detail_absent='join_component_view splices the elements of the view into the key (`%s`) without testing that the view is a '
                            'tuple: a list, index-array or boolean-mask view is taken apart into separate indices, so a derived attribute '
                            'evaluated on such a view is not function(inputs)[view]'
                            % (unparse(unpack[guarded.index(False)]) if unpack and not all(guarded) else ''),
              shape='returns %s' % rets, where=j.where)


def rule_b(ctx, ix):
    R = 'C14.b'
    ctx.describe(R, 'removing an attribute removes its dependents through remove_component itself (transitive)', floor=4)
    data = ix.cls('glue.core.data.Data')
    f = data.resolve_func('remove_component')
    g = data.resolve_func('_removed_derived_that_depend_on')
    if f is None or g is None:
        raise AnalysisError('Data.remove_component/_removed_derived_that_depend_on vanished')
    from ..util import key_removals, iterations, short_circuits
    pops = key_removals(f.node, '_components')
    sweeps = [c for c in calls_in(f.node) if call_name(c) == g.name]
    ok = bool(pops) and bool(sweeps) and pops[0][0].lineno < sweeps[0].lineno and \
        unparse(sweeps[0].args[0]) == unparse(pops[0][1])
    ctx.ob(R, f.construct, 'the dependent sweep follows the removal, for the removed identifier', ok,
           detail='Data.remove_component does not sweep the dependents of the removed identifier after popping it', where=f.where)
    # selection by get_from_ids membership: the identifier that was removed - the parameter, or the entry of a work list that
    # started with it
    p = g.params[1]
    from ..util import enclosing
    pm_g = parent_map(g.node)
    worklists = {}        # name of a removed-identifier variable -> the list it is popped from
    for st in ast.walk(g.node):
        if isinstance(st, ast.Assign) and len(st.targets) == 1 and isinstance(st.targets[0], ast.Name) and isinstance(st.value, ast.Call) \
                and call_name(st.value) in ('pop', 'popleft') and isinstance(st.value.func.value, ast.Name):
            worklists[st.targets[0].id] = st.value.func.value.id
    seeded_lists = {st.targets[0].id for st in ast.walk(g.node) if isinstance(st, ast.Assign) and len(st.targets) == 1
                    and isinstance(st.targets[0], ast.Name) and isinstance(st.value, (ast.List, ast.Tuple)) and
                    any(unparse(e) == p for e in st.value.elts)}
    removed_vars = {p} | {v for v, l in worklists.items() if l in seeded_lists}
    for n_ in ast.walk(g.node):
        if isinstance(n_, ast.comprehension) and isinstance(n_.iter, ast.Name) and n_.iter.id in seeded_lists and isinstance(n_.target, ast.Name):
            removed_vars.add(n_.target.id)
        if isinstance(n_, ast.For) and isinstance(n_.iter, ast.Name) and n_.iter.id in seeded_lists and isinstance(n_.target, ast.Name):
            removed_vars.add(n_.target.id)
    sel = [n for n in ast.walk(g.node) if isinstance(n, ast.Compare) and isinstance(n.ops[0], ast.In)
           and unparse(n.left) in removed_vars and 'get_from_ids' in unparse(n.comparators[0])]
    ctx.ob(R, g.construct, 'dependents are those whose link reads the removed identifier', bool(sel),
           detail='the dependent sweep no longer selects derived components by `removed in link.get_from_ids()`', where=g.where)
    scans = [(it, tg, owner, kind) for it, tg, owner, kind in iterations(g.node) if 'derived_components' in unparse(it)]
    ok = len(scans) == 1
    if ok:
        it, tg, owner, kind = scans[0]
        ok = not any(isinstance(x, (ast.Break, ast.Return)) for x in ast.walk(owner)) if kind == 'for' else not short_circuits(pm_g, owner)
    ctx.ob(R, g.construct, 'every derived component is examined', ok,
           detail='the dependent sweep does not examine every derived component', where=g.where)
    # transitive: once a dependent is removed, ITS dependents are looked for as well - through remove_component (which sweeps),
    # through the sweep itself, or by putting it on the work list the sweep drains.  (Whether each removal is announced is C17.)
    rec = [c for c in calls_in(g.node) if unparse(c.func) in ('%s.remove_component' % g.self_name, '%s.%s' % (g.self_name, g.name)) and c.args]
    direct = key_removals(g.node, '_components')
    closed, why = bool(rec) and not direct, 'not at all'
    if direct:
        closed, why = True, ''
        for node_, key_ in direct:
            k = unparse(key_)
            again = any(unparse(c.args[0]) == k for c in rec)
            wl = False
            w = enclosing(pm_g, node_, (ast.While,))
            if w is not None:
                for c in calls_in(w):
                    if call_name(c) in ('append', 'add', 'extend', 'appendleft') and isinstance(c.func, ast.Attribute) and \
                            isinstance(c.func.value, ast.Name) and c.func.value.id in set(worklists.values()) & seeded_lists and \
                            c.args and unparse(c.args[0]) == k:
                        wl = True
            if not (again or wl):
                closed, why = False, 'by popping `%s` from the dict in a single pass' % k
    ctx.ob(R, g.construct, 'the sweep is transitive: the dependents of a removed dependent are removed too', closed,
           detail='the dependent sweep removes dependents %s: attributes derived from a removed dependent survive when they come '
                  'earlier in the component order than the attribute they depend on' % why, where=g.where)
    bad = common.check_iter_mutation(ctx, R, g)


def rule_c(ctx, ix):
    R = 'C14.c'
    ctx.describe(R, 'update_id rewrites every identifier-holding structure', floor=4)
    data = ix.cls('glue.core.data.Data')
    f = data.resolve_func('update_id')
    ea = EffectAnalyzer(ix)
    eff = ea.func_effects(data, f)
    for s in ('_components', '_pixel_component_ids', '_world_component_ids'):
        ctx.ob(R, f.construct, 'update_id rewrites %s' % s, s in eff.writes,
               detail='Data.update_id does not rewrite %s' % s, where=f.where)
    ok = any(call_name(c) == 'replace_ids' for c in calls_in(f.node))
    ctx.ob(R, f.construct + ' derived links', 'update_id replaces the identifier inside derived links', ok,
           detail='Data.update_id does not call replace_ids on the links of derived components: an attribute defined from the '
                  'replaced identifier raises IncompatibleAttribute afterwards', where=f.where)
    # order kept: the dict is rebuilt in iteration order with the key swapped in place
    rebuild = [st for st in walk_no_nested(f.node) if isinstance(st, ast.Assign) and unparse(st.targets[0]) == '%s._components' % f.self_name]
    ok = len(rebuild) == 1 and _rebuilt_in_order(f.node, rebuild[0].value, '%s._components' % f.self_name)
    ctx.ob(R, f.construct, 'the component order is preserved (dict rebuilt in place order)', ok,
           detail='Data.update_id no longer rebuilds _components in iteration order with the key replaced in place: the replaced '
                  'attribute moves to the end', where=f.where)


def _rebuilt_in_order(fnode, value, src):
    """Is ``value`` a new mapping made by ONE unfiltered pass over the mapping ``src`` in its iteration order, with a key swapped
    on the way (a conditional key)?  Written as a comprehension / generator handed to a dict constructor, or as a loop filling a
    fresh local mapping that is then stored."""
    def whole_pass(it):
        t = unparse(it)
        return t in (src, src + '.items()', 'list(%s.items())' % src, 'list(%s)' % src, src + '.keys()', 'iter(%s.items())' % src)

    v = value
    if isinstance(v, ast.Call) and isinstance(v.func, ast.Name) and v.func.id in ('OrderedDict', 'dict') and len(v.args) == 1 and not v.keywords:
        v = v.args[0]
    if isinstance(v, (ast.GeneratorExp, ast.ListComp, ast.DictComp)):
        if len(v.generators) != 1 or v.generators[0].ifs or not whole_pass(v.generators[0].iter):
            return False
        key = v.key if isinstance(v, ast.DictComp) else v.elt
        return any(isinstance(x, ast.IfExp) for x in ast.walk(key))
    if isinstance(v, ast.Name):
        defs = [st for st in walk_no_nested(fnode) if isinstance(st, ast.Assign) and any(isinstance(t, ast.Name) and t.id == v.id for t in st.targets)]
        if len(defs) != 1:
            return False
        d = defs[0].value
        if isinstance(d, (ast.GeneratorExp, ast.ListComp, ast.DictComp)) or \
                isinstance(d, ast.Call) and d.args:
            return _rebuilt_in_order(fnode, d, src)
        empty = isinstance(d, ast.Dict) and not d.keys or isinstance(d, ast.Call) and isinstance(d.func, ast.Name) and \
            d.func.id in ('OrderedDict', 'dict') and not d.args and not d.keywords
        if not empty:
            return False
        stores = [st for st in walk_no_nested(fnode) if isinstance(st, ast.Assign) and isinstance(st.targets[0], ast.Subscript)
                  and unparse(st.targets[0].value) == v.id]
        loops = [lp for lp in walk_no_nested(fnode) if isinstance(lp, ast.For) and any(st in stores for st in ast.walk(lp))]
        if len(loops) != 1 or not whole_pass(loops[0].iter) or not stores:
            return False
        lp = loops[0]
        if any(isinstance(x, (ast.Break, ast.Continue, ast.Return, ast.Raise)) for x in ast.walk(lp)) or lp.orelse:
            return False
        if len(stores) != len([st for st in stores if any(st is x for x in ast.walk(lp))]):
            return False        # the mapping is also written outside the pass

        def always_stores(stmts):
            for st in stmts:
                if st in stores:
                    return True
                if isinstance(st, ast.If) and st.orelse and always_stores(st.body) and always_stores(st.orelse):
                    return True
            return False
        if not always_stores(lp.body):
            return False
        # no other mutation of the new mapping (pop / del / move_to_end) that could re-order it
        for c in calls_in(fnode):
            if isinstance(c.func, ast.Attribute) and unparse(c.func.value) == v.id and c.func.attr in \
                    ('pop', 'popitem', 'move_to_end', 'clear', 'update', 'setdefault', '__delitem__', '__setitem__'):
                return False
        if any(isinstance(x, ast.Delete) and any(unparse(t).startswith(v.id + '[') for t in x.targets) for x in walk_no_nested(fnode)):
            return False
        swapped = any(isinstance(x, ast.IfExp) for st in stores for x in ast.walk(st.targets[0].slice)) or \
            any(isinstance(x, ast.If) and sum(1 for st in stores if any(st is y for y in ast.walk(x))) >= 2 for x in ast.walk(lp))
        return swapped
    return False


def rule_d(ctx, ix):
    R = 'C14.d'
    ctx.describe(R, 'the compute paths of derived attributes depend on the view (instances of C04.a)', floor=5)
    targets = [('glue.core.component_link.ComponentLink', 'compute'), (BCL, 'compute'),
               ('glue.core.parse.ParsedComponentLink', 'compute'), ('glue.core.component.DerivedComponent', '__getitem__'),
               ('glue.core.parse.ParsedCommand', 'evaluate'), ('glue.core.component_link.CoordinateComponentLink', 'compute')]
    for cq, name in targets:
        c = ix.cls(cq)
        f = c.resolve_func(name)
        if f is None:
            raise AnalysisError('%s.%s vanished' % (cq, name))
        vp = [p for p in f.params[1:] if p in ('view', 'key')]
        if not vp:
            raise AnalysisError('%s has no view parameter' % f.construct)
        for r, dep in view_flow(f, vp[0]):
            if r.value is None:
                continue
            ok = dep or _none_only(f, vp[0], r)
            ctx.ob(R, '%s `%s`' % (f.construct, norm(r)), 'the computed values depend on the view', ok,
                   detail='%s returns `%s` independently of the requested view' % (f.construct, norm(r)), where=where(f, r))


def rule_f(ctx, ix):
    """A parsed expression can refer to another parsed expression: evaluating the outer one evaluates the inner one in the middle
    of its own eval().  Both put the current view into one shared namespace (glue.env), so evaluation must not take anything
    out of that namespace again - the outer expression still needs it after the inner one returned."""
    R = 'C14.f'
    ctx.describe(R, 'evaluating a parsed expression never removes names from the shared namespace (re-entrancy)', floor=2)
    c = ix.cls('glue.core.parse.ParsedCommand')
    n = 0
    for name in ('evaluate', 'evaluate_test'):
        f = c.resolve_func(name)
        if f is None:
            raise AnalysisError('ParsedCommand.%s vanished' % name)
        shared = {st.targets[0].id for st in walk_no_nested(f.node) if isinstance(st, ast.Assign) and isinstance(st.targets[0], ast.Name)
                  and isinstance(st.value, ast.Call) and unparse(st.value).replace(' ', '') in ('vars(env)', 'env.__dict__', 'vars(glue.env)')}
        if not shared:
            raise AnalysisError('%s: the shared namespace is no longer recognised' % f.construct)
        n += 1
        bad = []
        for x in ast.walk(f.node):
            if isinstance(x, ast.Call) and isinstance(x.func, ast.Attribute) and x.func.attr in ('pop', 'popitem', 'clear', '__delitem__') \
                    and isinstance(x.func.value, ast.Name) and x.func.value.id in shared:
                bad.append(x)
            if isinstance(x, ast.Delete) and any(isinstance(t, ast.Subscript) and isinstance(t.value, ast.Name) and t.value.id in shared for t in x.targets):
                bad.append(x)
        # ... nor overwritten once eval() has started: a store after the eval (or in a finally around it) runs when a nested
        # evaluation returns, in the middle of the outer eval().  Putting back a value saved before the eval is the exception.
        evals = [x for x in ast.walk(f.node) if isinstance(x, ast.Call) and isinstance(x.func, ast.Name) and x.func.id == 'eval']
        if not evals:
            raise AnalysisError('%s: the eval() call is no longer recognised' % f.construct)
        if evals:
            first = min(e.lineno for e in evals)
            saved_ = {st.targets[0].id for st in walk_no_nested(f.node) if isinstance(st, ast.Assign) and isinstance(st.targets[0], ast.Name)
                      and st.lineno < first and any(isinstance(v, ast.Name) and v.id in shared for v in ast.walk(st.value))}
            for st in ast.walk(f.node):
                if isinstance(st, ast.Assign) and st.lineno > first and any(
                        isinstance(t, ast.Subscript) and isinstance(t.value, ast.Name) and t.value.id in shared for t in st.targets) \
                        and not (isinstance(st.value, ast.Name) and st.value.id in saved_):
                    bad.append(st)
                if isinstance(st, ast.Call) and isinstance(st.func, ast.Attribute) and st.func.attr in ('update', 'setdefault', '__setitem__') \
                        and isinstance(st.func.value, ast.Name) and st.func.value.id in shared and st.lineno > first:
                    bad.append(st)
        ctx.ob(R, f.construct, 'nothing is removed from the namespace shared by nested evaluations', not bad,
               detail='%s removes or overwrites an entry of the namespace all parsed expressions share (`%s`) after its eval(): when the expression refers to another '
                      'parsed expression, the inner evaluation takes `__view` away while the outer eval() still needs it - every reference '
                      'after the nested one raises NameError or is read on the whole dataset instead of the view'
                      % (f.construct, norm(bad[0]) if bad else ''), where=where(f, bad[0]) if bad else f.where)


def rule_g(ctx, ix):
    """ComponentLink.replace_ids rewrites the link's own list of inputs (_from) and its output.  A subclass that evaluates through
    its own copy of the inputs (operands, a parsed command with references) has to rewrite that copy too - siblings of one
    interface: every subclass that overrides compute() and reads a field of its own there overrides replace_ids and touches it."""
    R = 'C14.g'
    ctx.describe(R, 'every link class that computes from its own copy of the inputs rewrites that copy in replace_ids', floor=2)
    base = ix.cls('glue.core.component_link.ComponentLink')
    n = 0
    for c in base.subclasses(strict=True):
        if not c.module.name.startswith('glue.') or '.tests' in c.module.name:
            continue
        mc = c.members.get('compute')
        if mc is None or mc.func is None or mc.func.cls is not c:
            continue
        comp = mc.func
        s_ = comp.self_name
        init = c.members.get('__init__')
        own = set()
        if init is not None and init.func is not None and init.func.cls is c:
            for st in ast.walk(init.func.node):
                if isinstance(st, ast.Assign):
                    for t in st.targets:
                        if isinstance(t, ast.Attribute) and isinstance(t.value, ast.Name) and t.value.id == init.func.self_name:
                            own.add(t.attr)
        read = {a.attr for a in ast.walk(comp.node) if isinstance(a, ast.Attribute) and isinstance(a.value, ast.Name) and a.value.id == s_
                and a.attr in own and isinstance(a.ctx, ast.Load)}
        # fields that hold identifiers: assigned (directly or through a container) from constructor arguments that are ids or
        # links - recognised here by being what compute() evaluates: operands and parsed commands
        read = {f_ for f_ in read if not f_.startswith('_op') and f_ not in ('_using', '_inverse', 'coords', 'index', 'pixel2world', 'hidden')}
        if not read:
            continue
        n += 1
        mr = c.members.get('replace_ids')
        g = mr.func if mr is not None and mr.func is not None and mr.func.cls is c else None
        touched = set()
        if g is not None:
            touched = {a.attr for a in ast.walk(g.node) if isinstance(a, ast.Attribute) and isinstance(a.value, ast.Name) and a.value.id == g.self_name}
        missing = sorted(read - touched)
        ctx.ob(R, c.qualname, 'replace_ids rewrites every field compute() evaluates from (%s)' % ', '.join(sorted(read)), g is not None and not missing,
               detail='%s computes from %s, its own copy of the input identifiers, but %s: after Data.update_id(old, new) the derived '
                      'attribute still asks the dataset for the old identifier and raises IncompatibleAttribute'
                      % (c.qualname, ', '.join('self.' + f_ for f_ in sorted(read)),
                         'does not override replace_ids' if g is None else 'its replace_ids does not touch %s' % ', '.join(missing)),
               where=comp.where)
    if n < 2:
        raise AnalysisError('C14.g: only %d link classes with their own copy of the inputs found' % n)


def rule_h(ctx, ix):
    """A parsed expression is normalised by replacing every `{label}` tag with `{uuid}`.  The table of replacements is keyed by the
    text that was matched: one attribute can be spelled in several ways (`{x}`, `{ x }`, two labels of one identifier), and every
    spelling has to be replaced - a table keyed by the identifier keeps the last spelling only."""
    R = 'C14.h'
    ctx.describe(R, 'tag normalisation of parsed expressions replaces every spelling (the table is keyed by the matched text)', floor=1)
    f = ix.func('glue.core.parse._validate')
    loops = [lp for lp in walk_no_nested(f.node) if isinstance(lp, ast.For) and 'finditer' in unparse(lp.iter)]
    if len(loops) != 1 or not isinstance(loops[0].target, ast.Name):
        raise AnalysisError('parse._validate: the loop over the tags is no longer recognised')
    m = loops[0].target.id
    derived = {m}
    for _ in range(3):
        for st in ast.walk(loops[0]):
            if isinstance(st, ast.Assign) and isinstance(st.targets[0], ast.Name) and any(isinstance(x, ast.Name) and x.id in derived for x in ast.walk(st.value)) \
                    and not any(isinstance(x, ast.Subscript) and isinstance(x.value, ast.Name) and x.value.id == f.params[1] for x in ast.walk(st.value)):
                derived.add(st.targets[0].id)
    stores = [st for st in ast.walk(loops[0]) if isinstance(st, ast.Assign) and isinstance(st.targets[0], ast.Subscript)
              and isinstance(st.targets[0].value, ast.Name)]
    # the table that is later used with str.replace
    used = {unparse(lp.iter).split('.')[0] for lp in walk_no_nested(f.node) if isinstance(lp, ast.For) and any(call_name(c) == 'replace' for c in calls_in(lp))}
    tables = [st for st in stores if st.targets[0].value.id in used]
    if not tables:
        raise AnalysisError('parse._validate: the replacement table is no longer recognised')
    for st in tables:
        key = st.targets[0].slice
        ok = any(isinstance(x, ast.Name) and x.id in derived for x in ast.walk(key)) and not any(
            isinstance(x, ast.Attribute) and x.attr == 'uuid' for x in ast.walk(key))
        ctx.ob(R, '%s `%s`' % (f.construct, norm(st)[:70]), 'the replacement table is keyed by the matched text', ok,
               detail='parse._validate keys its replacement table by `%s`, not by the text that was matched: when one attribute is spelled in '
                      'two ways in a command (`{x} * { x }`, or two labels of the same identifier) only the last spelling is replaced, and '
                      'the expression is rejected or cannot be evaluated' % unparse(key), where=where(f, st))
