"""C18 - viewers and attribute pickers mirror the collection (partial)."""
import ast

from ..index import AnalysisError, dotted_chain, norm, unparse, walk_no_nested, body_stmts
from ..serial import Registry
from ..util import calls_in, call_name, where, returns_of, kwarg, parent_map, guard_chain
from .. import props
from . import common
from .C03 import _subscriptions
from .C02 import key_agreement

props.prop(
    'C18',
    explanation='Static (ast) decision of the structure that keeps viewers and pickers in sync: the hub subscription tables '
                '(message -> handler that reaches the documented operation), the two registered directions of the layer '
                'synchronisation, writer/reader key agreement of the viewer\'s save/restore and its restore loop, what '
                'remove_data / remove_subset / add_data touch, and a package-wide sweep for loops that mutate the collection '
                'they iterate.',
    decides='that viewers react to subset create/delete, collection delete and data changes; that pickers refresh on '
            'component changes/reorder and dataset removal; that both directions of the layer sync are registered; that a '
            'restored viewer gets one layer artist per saved layer; that no handler mutates a live collection while iterating it; '
            'that a change detector never acts on a value without remembering it',
    not_decided='which choices a picker offers or selects, distinctness of the image axes, callback-property values',
    assumptions=['LayerArtistContainer notifies synchronously on every mutation'])
props.also('C18',
           'membership of a layer in the artist container by identity; change detectors compare with and store the same field; that the dataset-removed subscription of viewers is unfiltered; that a change detector does not remember a filtered selection of a field the set-up reads whole')

M = 'glue.core.message.'
V = 'glue.viewers.common.viewer.Viewer'

# (class, message, operation that must be reached from the handler)
SUBS = [
    (V, 'SubsetCreateMessage', 'add_subset'),
    (V, 'SubsetDeleteMessage', 'remove_subset'),
    (V, 'DataCollectionDeleteMessage', 'remove_data'),
    (V, 'SubsetUpdateMessage', 'update'),
    (V, 'NumericalDataChangedMessage', 'update'),
    (V, 'ComponentsChangedMessage', 'update'),
    (V, 'ExternallyDerivableComponentsChangedMessage', 'update'),
    ('glue.core.data_combo_helper.ComponentIDComboHelper', 'ComponentsChangedMessage', 'refresh'),
    ('glue.core.data_combo_helper.ComponentIDComboHelper', 'DataReorderComponentMessage', 'refresh'),
    ('glue.core.data_combo_helper.ComponentIDComboHelper', 'DataCollectionDeleteMessage', 'remove_data'),
    ('glue.core.data_combo_helper.ComponentIDComboHelper', 'DataRenameComponentMessage', '_on_rename'),
    ('glue.core.data_combo_helper.ManualDataComboHelper', 'DataCollectionDeleteMessage', 'remove_data'),
    ('glue.core.data_combo_helper.ManualDataComboHelper', 'DataUpdateMessage', '_on_data_update'),
    ('glue.core.data_combo_helper.DataCollectionComboHelper', 'DataCollectionAddMessage', 'refresh'),
    ('glue.core.data_combo_helper.DataCollectionComboHelper', 'DataCollectionDeleteMessage', 'refresh'),
    ('glue.core.data_combo_helper.DataCollectionComboHelper', 'DataUpdateMessage', '_on_data_update'),
]

SCOPE = ('glue.viewers', 'glue.core.layer_artist', 'glue.core.data_combo_helper', 'glue.core.state_objects',
         'glue.core.application_base')

ITER_EXCEPTIONS = {
    ('glue.viewers.common.viewer:Viewer._sync_state_layers', 'self.state.layers'):
        'every container mutation notifies synchronously, so at most one entry is stale per call (confirmed by reading; not '
        'demonstrable as a defect)',
    ('glue.viewers.common.viewer:Viewer._sync_layer_artist_container', 'self._layer_artist_container'):
        'LayerArtistContainer.__iter__ iterates a sorted() copy of the artists (checked structurally below)',
}


def run(ctx):
    ix = ctx.index
    ctx.guard(rule_a, ctx, ix)
    ctx.guard(rule_b, ctx, ix)
    ctx.guard(rule_c, ctx, ix)
    ctx.guard(rule_d, ctx, ix)
    ctx.guard(rule_e, ctx, ix)
    ctx.guard(rule_f, ctx, ix)
    ctx.guard(rule_g, ctx, ix)
    ctx.guard(rule_h, ctx, ix)


def _reaches(ix, cls, handler_src, target, depth=0):
    """Does the handler expression (``self.m`` / lambda) reach a call of ``target`` within three self-calls?"""
    if handler_src is None:
        return False
    name = handler_src.rpartition('.')[2]
    if name == target:
        return True
    if 'lambda' in handler_src:
        return ('.%s(' % target) in handler_src
    f = cls.resolve_func(name)
    if f is None or depth > 3:
        return False
    for c in calls_in(f.node):
        if call_name(c) == target:
            return True
    for c in calls_in(f.node):
        if isinstance(c.func, ast.Attribute) and unparse(c.func.value) == f.self_name and c.func.attr != name:
            if _reaches(ix, cls, 'self.' + c.func.attr, target, depth + 1):
                return True
    return False


def _all_subscriptions(ix, cls):
    """Subscriptions made by register_to_hub along the super() chain."""
    out = []
    seen = set()
    for k in cls.mro():
        m = k.members.get('register_to_hub')
        if m is None or m.func is None or id(m.func.node) in seen:
            continue
        seen.add(id(m.func.node))
        out += _subscriptions(ix, m.func)
        if not any(isinstance(c.func, ast.Attribute) and isinstance(c.func.value, ast.Call) and
                   unparse(c.func.value.func) == 'super' for c in calls_in(m.func.node)):
            break
    return out


def rule_a(ctx, ix):
    R = 'C18.a'
    ctx.describe(R, 'subscription tables: message -> handler that reaches the documented operation', floor=16)
    for cq, msg, target in SUBS:
        cls = ix.cls(cq)
        subs = _all_subscriptions(ix, cls)
        hs = [(h, flt) for mq, h, flt in subs if mq == M + msg]
        ok = any(_reaches(ix, cls, h, target) for h, flt in hs)
        ctx.ob(R, '%s <- %s' % (cls.construct, msg), '%s is subscribed with a handler that reaches %s' % (msg, target), ok,
               detail='%s %s: %s' % (cls.name, 'subscribes %s to %s, which never reaches %s' % ([h for h, _ in hs], msg, target)
                                     if hs else 'no longer subscribes to %s' % msg,
                                     'the %s keeps showing what was removed / does not show what was added' % ('viewer' if 'Viewer' in cq else 'picker')),
               where=cls.where)
    # filters of the viewer's subset subscriptions: create is filtered on the subset's dataset being shown, update/delete on
    # the subset (or dataset) itself being shown - a viewer may show a subset without its dataset
    v = ix.cls(V)
    subs = _all_subscriptions(ix, v)
    for msg, want_data in (('SubsetCreateMessage', True), ('SubsetDeleteMessage', False), ('SubsetUpdateMessage', False)):
        for mq, h, flt in subs:
            if mq != M + msg or flt is None:
                continue
            ff = v.resolve_func(flt.rpartition('.')[2])
            if ff is None:
                continue
            rets = [unparse(r.value) for r in returns_of(ff) if r.value is not None]
            txt = ' '.join(rets)
            on_data = '.sender.data in' in txt
            on_self = '.sender in' in txt
            ok = on_data if want_data else (on_self and not on_data)
            ctx.ob(R, '%s <- %s filter' % (v.construct, msg), 'the filter accepts the message when %s is shown'
                   % ('the dataset of the new subset' if want_data else 'the subset itself'), ok,
                   detail='Viewer subscribes %s with filter %s (`%s`): %s' % (
                       msg, flt, txt, 'a shown subset whose dataset has no layer in this viewer is never removed/updated'
                       if not want_data else 'new subsets of shown datasets are not added'), where=v.where)
    # a removed dataset takes its subsets with it, and a viewer may show those without showing the dataset: the delete subscription
    # is not filtered on the dataset having a layer of its own
    for mq, h, flt in subs:
        if mq != M + 'DataCollectionDeleteMessage':
            continue
        if flt is None:
            ctx.ob(R, '%s <- DataCollectionDeleteMessage filter' % v.construct, 'the dataset-removed subscription is unfiltered', True)
            continue
        ff = v.resolve_func(flt.rpartition('.')[2])
        txt = ' '.join(unparse(r.value) for r in returns_of(ff) if r.value is not None) if ff is not None else flt
        narrow = '.data in' in txt and 'subset' not in txt
        ctx.idiom(R, '%s <- DataCollectionDeleteMessage filter' % v.construct, 'the dataset-removed subscription is unfiltered',
                  accepted=False, absent=narrow,
                  detail_absent='Viewer subscribes DataCollectionDeleteMessage with filter %s (`%s`), which accepts the message only when '
                                'the removed dataset has a layer of its own: a viewer that shows only subsets of that dataset keeps their '
                                'layers (and layer states) after the dataset left the collection' % (flt, txt),
                  shape='filter %s: %s' % (flt, txt[:120]), where=v.where)
    f = v.resolve_func('remove_data')
    from .. import cond
    from ..util import elementwise
    lp = [n for n in ast.walk(f.node) if isinstance(n, ast.For)]
    snap = False
    removed_when = None
    expected = None
    if len(lp) == 1:
        ew = elementwise(lp[0].iter)
        live = unparse(lp[0].iter) == '%s.state.layers' % f.self_name
        snap = ew is not None and ew.source == '%s.state.layers' % f.self_name and not live and not ew.filtered
        t, d = unparse(lp[0].target), f.params[1]
        for c in calls_in(lp[0]):
            if call_name(c) == 'remove' and unparse(c.func.value) == '%s.state.layers' % f.self_name and c.args and unparse(c.args[0]) == t:
                from ..util import branch_locals
                with branch_locals():
                    pc = cond.expr_condition(f.node, c)
                removed_when = pc if removed_when is None else cond.Or(removed_when, pc)
        base = cond.T('isinstance(%s.layer,BaseData)' % t)
        own = cond.formula(ast.parse('%s.layer is %s' % (t, d), mode='eval').body)
        sub = cond.formula(ast.parse('%s.layer.data is %s' % (t, d), mode='eval').body)
        expected = cond.Or(cond.And(base, own), cond.And(cond.Not(base), sub))
    try:
        same = removed_when is not None and cond.equivalent(removed_when, expected)
    except ValueError:
        same = False
    ctx.ob(R, f.construct, 'remove_data removes the layer of the dataset and the layers of its subsets, iterating a snapshot',
           snap and same,
           detail='Viewer.remove_data: snapshot iteration=%s; layers are removed when `%s` (expected: the layer is the dataset, or the '
                  'layer is a subset of the dataset)' % (snap, removed_when), where=f.where)
    f = v.resolve_func('remove_subset')
    ok = any(call_name(c) in ('pop', 'remove') and '_layer_artist_container' in unparse(c.func) and unparse(c.args[0]) == f.params[1]
             for c in calls_in(f.node))
    ctx.ob(R, f.construct, 'remove_subset removes the subset\'s artists from the container', ok,
           detail='Viewer.remove_subset no longer pops the subset from the layer artist container', where=f.where)
    for meth in ('add_data', 'add_subset'):
        f = v.resolve_func(meth)
        ok = any(call_name(c) == 'append' and '_layer_artist_container' in unparse(c.func) for c in calls_in(f.node))
        ctx.ob(R, f.construct, '%s appends the new artist to the container' % meth, ok,
               detail='Viewer.%s no longer appends the layer artist to the container' % meth, where=f.where)
        dup = [n for n in walk_no_nested(f.node) if isinstance(n, ast.If) and 'in self._layer_artist_container' in unparse(n.test)
               and any(isinstance(x, ast.Return) for x in n.body)]
        ctx.ob(R, f.construct + ' dup', '%s refuses a second layer for the same object (unless duplicates are allowed)' % meth, len(dup) == 1,
               detail='Viewer.%s no longer returns early when the object already has a layer: a second layer is created' % meth, where=f.where)
    f = v.resolve_func('add_data')
    ok = any(isinstance(n, ast.For) and unparse(n.iter).endswith('.subsets') and any(call_name(c) == 'add_subset' for c in calls_in(n))
             for n in ast.walk(f.node))
    ctx.ob(R, f.construct + ' subsets', 'adding a dataset also adds a layer for each of its subsets', ok,
           detail='Viewer.add_data no longer adds the existing subsets of the dataset', where=f.where)


def rule_b(ctx, ix):
    R = 'C18.b'
    ctx.describe(R, 'both directions of the layer synchronisation are registered', floor=2)
    v = ix.cls(V)
    f = v.resolve_func('__init__')
    s = f.self_name
    a = [c for c in calls_in(f.node) if call_name(c) == 'on_changed' and '_layer_artist_container' in unparse(c.func)
         and c.args and unparse(c.args[0]) == '%s._sync_state_layers' % s]
    b = [c for c in calls_in(f.node) if call_name(c) == 'add_callback' and unparse(c.func.value) == '%s.state' % s and len(c.args) >= 2
         and isinstance(c.args[0], ast.Constant) and c.args[0].value == 'layers' and unparse(c.args[1]) == '%s._sync_layer_artist_container' % s]
    ctx.ob(R, f.construct, 'container changes prune the state\'s layer list', len(a) == 1,
           detail='Viewer.__init__ no longer registers _sync_state_layers on the layer artist container: removed artists leave '
                  'their layer state behind', where=f.where)
    ctx.ob(R, f.construct, 'changes of the state\'s layer list prune the container', len(b) == 1,
           detail='Viewer.__init__ no longer registers _sync_layer_artist_container on state.layers: removed layer states leave '
                  'their artist behind', where=f.where)
    g = v.resolve_func('_sync_state_layers')
    ok = any(call_name(c) == 'remove' and unparse(c.func.value) == 'self.state.layers' for c in calls_in(g.node)) and \
        any('not in self._layer_artist_container' in unparse(n.test) for n in ast.walk(g.node) if isinstance(n, ast.If))
    ctx.ob(R, g.construct, 'layer states without an artist are removed', ok,
           detail='_sync_state_layers no longer removes states whose layer is not in the container', where=g.where)
    g = v.resolve_func('_sync_layer_artist_container')
    ok = any(call_name(c) == 'remove' and '_layer_artist_container' in unparse(c.func) for c in calls_in(g.node)) and \
        any('not in layer_states' in unparse(n.test) for n in ast.walk(g.node) if isinstance(n, ast.If))
    ctx.ob(R, g.construct, 'artists without a layer state are removed', ok,
           detail='_sync_layer_artist_container no longer removes artists whose layer has no state', where=g.where)


def rule_c(ctx, ix):
    R = 'C18.c'
    ctx.describe(R, 'viewer save/restore: keys agree; one artist appended per saved layer; the restored viewer is registered', floor=4)
    reg = Registry(ix)
    v = ix.cls(V)
    s, l = v.resolve_func('__gluestate__'), v.resolve_func('__setgluestate__')
    sinfo, linfo = reg.saver_info(s, v), reg.loader_info(l, v)
    key_agreement(ctx, R, 'Viewer.__gluestate__ <-> Viewer.__setgluestate__', V, s, l, sinfo, linfo, reg)
    rec = l.params[1]
    loops = [n for n in ast.walk(l.node) if isinstance(n, ast.For) and unparse(n.iter) == "%s['layers']" % rec]
    ok = len(loops) == 1
    if ok:
        lp = loops[0]
        apps = [st for st in lp.body if isinstance(st, ast.Expr) and isinstance(st.value, ast.Call) and call_name(st.value) == 'append'
                and '_layer_artist_container' in unparse(st.value.func)]
        ok = len(apps) == 1
    ctx.ob(R, l.construct, 'one layer artist is appended, unconditionally, for every saved layer', ok,
           detail='Viewer.__setgluestate__ does not append exactly one artist per entry of rec[\'layers\']', where=l.where)
    ok = any(call_name(c) == 'register_to_hub' for c in calls_in(l.node))
    ctx.ob(R, l.construct + ' hub', 'the restored viewer is registered to the hub', ok,
           detail='the restored viewer is not registered to the hub: it ignores every later change of the collection', where=l.where)
    ok = "layers" in sinfo.keys and any('self.layers' in unparse(x) for x in sinfo.values.get('layers', []))
    ctx.ob(R, s.construct, 'every current layer is saved', ok, detail='Viewer.__gluestate__ does not save self.layers', where=s.where)


def rule_d(ctx, ix):
    R = 'C18.d'
    ctx.describe(R, 'viewer / picker / layer-artist modules: no loop mutates the live collection it iterates', floor=60)
    from ..index import Func
    nloops = 0
    used = set()
    for m in ix.modules.values():
        if not m.name.startswith(SCOPE):
            continue
        owner = {}
        for cn in ast.walk(m.tree):
            if isinstance(cn, ast.ClassDef):
                for st in cn.body:
                    if isinstance(st, ast.FunctionDef):
                        owner[id(st)] = cn.name
        for node in ast.walk(m.tree):
            if not isinstance(node, ast.FunctionDef):
                continue
            loops = [n for n in ast.walk(node) if isinstance(n, ast.For)]
            if not loops:
                continue
            cname = owner.get(id(node))
            construct = '%s:%s%s' % (m.name, (cname + '.') if cname else '', node.name)
            hits = [(lp, coll, hit) for lp, coll, hit in common.iter_mutations(node) if not common._leaves_loop_after(lp, hit)]
            nloops += len(loops)
            bad = {}
            for lp, coll, hit in hits:
                key = (construct, coll)
                if key in ITER_EXCEPTIONS:
                    used.add(key)
                    ctx.exception(R, '%s loop over %s' % key, ITER_EXCEPTIONS[key])
                    continue
                bad[id(lp)] = (coll, hit)
            ix.consulted.add(m.relpath)
            for lp in loops:
                if id(lp) in bad:
                    coll, hit = bad[id(lp)]
                    ctx.ob(R, construct, 'the loop over %s does not mutate it' % coll, False,
                           detail='%s iterates %s and mutates it inside the loop with `%s`: elements are skipped (or the iteration '
                                  'raises)' % (construct, coll, norm(hit)), where='%s:%d' % (m.relpath, hit.lineno))
                else:
                    ctx.ob(R, construct, 'loop `for %s in %s` does not mutate what it iterates' % (unparse(lp.target)[:30], unparse(lp.iter)[:50]),
                           True, nontrivial=True)
    for key in ITER_EXCEPTIONS:
        if key not in used:
            raise AnalysisError('stale exception row in C18.d: %s loop over %s' % key)
    lac = ix.cls('glue.core.layer_artist.LayerArtistContainer')
    it = lac.resolve_func('__iter__')
    rets = returns_of(it) if it is not None else []
    ok = len(rets) == 1 and rets[0].value is not None and unparse(rets[0].value).startswith(('iter(sorted(', 'iter(list(', 'iter(tuple('))
    ctx.ob(R, lac.construct + '.__iter__', 'the container iterates a copy of its artists (excuses _sync_layer_artist_container)', ok,
           detail='LayerArtistContainer.__iter__ no longer iterates a copy: Viewer._sync_layer_artist_container removes artists while '
                  'iterating the live list', where=lac.where)


def rule_e(ctx, ix):
    """The layer-artist container notifies its listeners after every mutation (the layer sync of C18.b depends on it)."""
    R = 'C18.e'
    ctx.describe(R, 'every mutator of the layer-artist container notifies (or delegates to one that does)', floor=3)
    lac = ix.cls('glue.core.layer_artist.LayerArtistContainer')
    EXC = {'clear': 'only called by Viewer.cleanup after clear_callbacks(): nobody is left to notify',
           '__init__': 'creates the list'}
    n = 0
    for name, m in sorted(lac.members.items()):
        f = m.func
        if f is None:
            continue
        s = f.self_name
        muts = [c for c in calls_in(f.node) if call_name(c) in ('append', 'remove', 'pop', 'insert', 'clear', 'extend')
                and unparse(c.func.value) == '%s.artists' % s]
        if not muts:
            continue
        if name in EXC:
            ctx.exception(R, '%s.%s' % (lac.construct, name), EXC[name])
            continue
        n += 1
        common.must_reach(ctx, R, f,
                          lambda e, s=s: any(isinstance(c, ast.Call) and call_name(c) in ('append', 'remove', 'pop', 'insert', 'clear', 'extend')
                                             and unparse(c.func.value) == '%s.artists' % s for c in ast.walk(e)),
                          lambda e, s=s: any(isinstance(c, ast.Call) and unparse(c.func) == '%s._notify' % s for c in ast.walk(e)),
                          'the change of the artist list is followed by _notify()',
                          '%(func)s changes the artist list with `%(stmt)s` and can return without calling _notify(): the viewer state\'s '
                          'layer list is not pruned / the viewer is not told')
    if n < 2:
        raise AnalysisError('LayerArtistContainer: only %d mutators of the artist list recognised' % n)
    f = lac.resolve_func('_notify')
    ok = any(isinstance(x, ast.For) and 'change_callbacks' in unparse(x.iter) and any(isinstance(c, ast.Call) for c in ast.walk(x)) for x in ast.walk(f.node))
    ctx.ob(R, f.construct, 'notifying calls every change callback', ok,
           detail='LayerArtistContainer._notify no longer calls the change callbacks', where=f.where)
    p = lac.resolve_func('pop')
    ok = any(unparse(c.func) == '%s.remove' % p.self_name for c in calls_in(p.node))
    ctx.ob(R, p.construct, 'pop removes through remove() (which notifies)', ok,
           detail='LayerArtistContainer.pop no longer removes the artists through remove()', where=p.where)


def _conj_atoms(test):
    """Atoms that certainly hold when ``test`` is true (conjuncts only)."""
    if isinstance(test, ast.BoolOp) and isinstance(test.op, ast.And):
        out = []
        for v in test.values:
            out.extend(_conj_atoms(v))
        return out
    return [unparse(test).replace(' ', '')]


def rule_f(ctx, ix):
    """Every category of attributes is offered by the attribute picker only under its kind flag(s)."""
    from ..util import guard_chain, parent_map
    R = 'C18.f'
    ctx.describe(R, 'the attribute picker adds each category of attributes only under its kind filter', floor=4)
    cls = ix.cls('glue.core.data_combo_helper.ComponentIDComboHelper')
    f = cls.resolve_func('refresh')
    if f is None:
        raise AnalysisError('ComponentIDComboHelper.refresh vanished')
    s = f.self_name
    pm = parent_map(f.node)
    # main components: offered exactly when (kind == K and self.<flag of K>) for one of the three kinds - whether the pass over
    # the main components is a loop with a conditional append or a comprehension with a filter
    from .. import cond
    from ..util import iterations
    passes = [(it, tg, owner, kind) for it, tg, owner, kind in iterations(f.node) if unparse(it).endswith('.main_components')]
    if len(passes) != 1:
        raise AnalysisError('ComponentIDComboHelper.refresh: loop over the main components not recognised')
    it, tg, owner, kind = passes[0]
    lp = owner
    F = None
    bare = False
    if kind == 'for':
        offers = [st for st in ast.walk(owner) if isinstance(st, ast.Expr) and isinstance(st.value, ast.Call)
                  and call_name(st.value) in ('append', 'extend') and any(unparse(a) == unparse(tg) for a in st.value.args)]
        for st in offers:
            pc = cond.path_condition(f.node, st)
            if pc is None or pc == ('const', True):
                bare = True
            else:
                F = pc if F is None else cond.Or(F, pc)
    else:
        ifs = [i for g in owner.generators for i in g.ifs]
        if not ifs:
            bare = True
        else:
            F = cond.And(*[cond.formula(i, f.node) for i in ifs])
    want = {'numerical': 'numeric', 'datetime': 'datetime', 'categorical': 'categorical'}
    expected, found = None, {}
    if F is not None:
        for a in sorted(cond.atoms(F)):
            if a.startswith('eq|') and 'get_kind(' in a:
                sides = a.split('|')[1:]
                const = [x for x in sides if x[:1] in '\'"']
                if len(const) == 1:
                    found[const[0].strip('\'"')] = a
        if set(found) == set(want):
            expected = cond.Or(*[cond.And(cond.T(found[k]), cond.T('%s.%s' % (s, want[k]))) for k in sorted(want)])
    try:
        good = expected is not None and not bare and cond.equivalent(F, expected)
    except ValueError:
        good = False
    ctx.idiom(R, f.construct + ' main', 'a main attribute is offered only when the flag of its own kind is set',
              accepted=good,
              absent=bare or F is None or (not good and set(found) <= set(want) and all('get_kind(' in a or a.startswith(s + '.') for a in cond.atoms(F))),
              detail_absent='ComponentIDComboHelper.refresh offers main attributes under `%s` (expected each kind under its own flag: %s): '
                            'the picker shows attributes that do not match its kind filters, or hides ones that do'
                            % (F if not bare else 'no kind test', sorted(want.items())),
              shape=str(F), where=where(f, lp))
    # the other categories
    rows = [('derived_components', {'numeric', 'derived'}, 'derived attributes are numerical: they are offered only when both numeric and derived are set'),
            ('pixel_component_ids', {'pixel_coord'}, 'pixel attributes are offered only when pixel_coord is set'),
            ('world_component_ids', {'world_coord'}, 'world attributes are offered only when world_coord is set')]
    for src, need, what in rows:
        uses = []
        # the category itself, or a local list computed from it
        names = {src}
        for st in walk_no_nested(f.node):
            if isinstance(st, ast.Assign) and len(st.targets) == 1 and isinstance(st.targets[0], ast.Name) and ('.' + src) in unparse(st.value):
                names.add(st.targets[0].id)

        def is_src(e):
            t = unparse(e)
            return t in names or t.endswith('.' + src)
        for n in walk_no_nested(f.node):
            if isinstance(n, ast.For) and is_src(n.iter) and \
                    any(call_name(c) in ('append', 'extend') for c in calls_in(n)):
                uses.append(n)
            elif isinstance(n, ast.AugAssign) and is_src(n.value):
                uses.append(n)
            elif isinstance(n, ast.Call) and call_name(n) in ('extend',) and n.args and is_src(n.args[0]):
                uses.append(n)
        if not uses:
            raise AnalysisError('ComponentIDComboHelper.refresh: no use of %s recognised' % src)
        for u in uses:
            have = set()
            for g, br in guard_chain(pm, u, f.node):
                if isinstance(g, ast.If) and br == 'body':
                    for a in _conj_atoms(g.test):
                        if a.startswith(s + '.'):
                            have.add(a[len(s) + 1:])
            ctx.ob(R, '%s %s' % (f.construct, src), what, need <= have,
                   detail='ComponentIDComboHelper.refresh adds %s under the flags %s only (needs %s): a picker whose filter excludes '
                          'them still offers these attributes' % (src, sorted(have), sorted(need)), where=where(f, u))


def _change_detectors(fnode, selfname):
    """Remembered-value change detectors of a handler: {field: (tests, stores)} for the private fields that are compared with a
    current value in an ``if`` (through `self._f`, `getattr(self, '_f', d)`, `hasattr(self, '_f')`, possibly via a local) and
    assigned in the same function."""
    from ..util import expand_locals
    stores = {}
    for st in walk_no_nested(fnode):
        if isinstance(st, ast.Assign):
            for t in st.targets:
                if isinstance(t, ast.Attribute) and isinstance(t.value, ast.Name) and t.value.id == selfname and t.attr.startswith('_'):
                    stores.setdefault(t.attr, []).append(st)
    out = {}
    for fld, sts in stores.items():
        tests = []
        stored = {unparse(expand_locals(fnode, st.value)) for st in sts} | {unparse(st.value) for st in sts}

        def mentions(e, fld=fld):
            t = unparse(e)
            return ("'%s'" % fld) in t or ('%s.%s' % (selfname, fld)) in t
        for n in walk_no_nested(fnode):
            if not isinstance(n, ast.If):
                continue
            for raw in (n.test, expand_locals(fnode, n.test)):
                for c in ast.walk(raw):
                    # <current> is not / != <remembered>, where <current> is what the store remembers
                    if isinstance(c, ast.Compare) and len(c.ops) == 1 and isinstance(c.ops[0], (ast.Is, ast.IsNot, ast.Eq, ast.NotEq)):
                        a, b = c.left, c.comparators[0]
                        for cur, rem in ((a, b), (b, a)):
                            if mentions(rem) and not mentions(cur) and unparse(cur) in stored and n not in tests:
                                tests.append(n)
        if tests:
            out[fld] = (tests, sts)
    return out


def rule_g(ctx, ix):
    """Viewer states remember the last value they acted on (`_last_reference_data`, `_layers_data_cache`, ...) and skip their
    set-up when nothing changed.  A path through such a handler that acts on the current value but leaves without refreshing the
    remembered one makes the next "did it change?" test lie: the set-up is skipped when the old value comes back."""
    from ..cfg import CFG, ENTRY, EXIT
    from ..util import expand_locals
    from .. import cond
    R = 'C18.g'
    ctx.describe(R, 'change detectors: every path that acts on the current value refreshes the remembered one', floor=5)
    n = 0
    for mname in sorted(ix.modules):
        if not (mname.startswith('glue.viewers.') and mname.endswith('.state')):
            continue
        mod = ix.module(mname)
        for c in [c for c in ix.classes.values() if c.module is mod]:
            for name, mem in sorted(c.members.items()):
                f = mem.func
                if f is None or f.cls is not c:
                    continue
                s_ = f.self_name
                if s_ is None:
                    continue
                dets = _change_detectors(f.node, s_)
                if not dets:
                    continue
                cfg = CFG(f.node)
                all_stores = {cfg.node_for(st) for fld, (ts, sts) in dets.items() for st in sts}

                def acts(nd, s_=s_, cfg=cfg):
                    st = cfg.stmt[nd]
                    if st is None or cfg.kind[nd] != 'stmt':
                        return False
                    if isinstance(st, (ast.Assign, ast.AugAssign)):
                        tg = st.targets if isinstance(st, ast.Assign) else [st.target]
                        if any(isinstance(t, ast.Attribute) and isinstance(t.value, ast.Name) and t.value.id == s_ for t in tg):
                            return True
                    return any(isinstance(x, ast.Call) and isinstance(x.func, ast.Attribute) and unparse(x.func).startswith(s_ + '.')
                               and not unparse(x.func).startswith(s_ + '.layers') for x in ast.walk(st))
                for fld, (tests, sts) in sorted(dets.items()):
                    # the remembered value covers what the set-up uses: not a filtered selection of a field the set-up reads whole
                    for st in sts:
                        ev = expand_locals(f.node, st.value)
                        for comp in [x for x in ast.walk(ev) if isinstance(x, (ast.ListComp, ast.GeneratorExp, ast.SetComp)) and x.generators[0].ifs]:
                            src = unparse(comp.generators[0].iter)
                            if not src.startswith(s_ + '.'):
                                continue
                            inside = {id(x) for x in ast.walk(comp)}
                            whole = [x for x in ast.walk(f.node) if isinstance(x, ast.Attribute) and unparse(x) == src and id(x) not in inside
                                     and not any(id(x) in {id(y) for y in ast.walk(d_)} for d_ in ast.walk(f.node)
                                                 if isinstance(d_, (ast.ListComp, ast.GeneratorExp, ast.SetComp)) and d_.generators[0].ifs
                                                 and unparse(d_.generators[0].iter) == src)]
                            ctx.ob(R, '%s %s selection' % (f.construct, fld), 'the remembered value is not a selection of a field the set-up uses whole', not whole,
                                   detail='%s remembers (and compares) only a selection of `%s` (`%s`) but sets up from the whole of it: a change '
                                          'among the entries the selection leaves out is never noticed, and the set-up is skipped although its '
                                          'input changed' % (f.construct, src, unparse(comp)[:90]), where=where(f, st))
                    n += 1
                    mine = {cfg.node_for(st) for st in sts}
                    others = all_stores - mine
                    # the edge of each test taken when nothing changed
                    pruned = set()
                    for t in tests:
                        fm = cond.formula(expand_locals(f.node, t.test))
                        env = {}
                        for a in cond.atoms(fm):
                            if fld in a:
                                env[a] = True if a.startswith(('is|', 'eq|', 'hasattr(')) else False
                            else:
                                env[a] = False
                        try:
                            v = cond.evaluate(fm, env)
                        except Exception:
                            continue
                        pruned.add((cfg.node_for(t), 'true' if v else 'false'))
                    # search: (node, acted, saw another detector's store)
                    seen = set()
                    todo = [(ENTRY, False, False, (ENTRY,))]
                    bad = None
                    while todo and bad is None:
                        nd, acted, other, path = todo.pop()
                        if (nd, acted, other) in seen:
                            continue
                        seen.add((nd, acted, other))
                        if nd == EXIT:
                            if acted and not other:
                                bad = path
                            continue
                        for (s2, lab) in cfg.succ[nd]:
                            if lab in ('exc', 'raise') or (nd, lab) in pruned or s2 in mine:
                                continue
                            todo.append((s2, acted or acts(s2), other or s2 in others, path + (s2,)))
                    ctx.ob(R, '%s %s' % (f.construct, fld), 'no path acts on the current value and leaves without refreshing %s.%s' % (s_, fld), bad is None,
                           detail='%s can act on the current value (`%s`) and return without refreshing `%s.%s`, the value its "did it '
                                  'change?" test compares with: when the old value comes back later the test says "unchanged" and the '
                                  'set-up is skipped (e.g. a dataset removed from a viewer and added again leaves the viewer without '
                                  'attribute choices)' % (f.construct, next((norm(cfg.stmt[x]) for x in (bad or ()) if x not in (ENTRY, EXIT) and acts(x)), ''), s_, fld),
                           where=where(f, tests[0]), path=cfg.guards_on_path(list(bad)) if bad else None)
    if n < 5:
        raise AnalysisError('C18.g: only %d change detectors found in the viewer states' % n)


def rule_h(ctx, ix):
    """"Does the viewer already show this dataset / subset?" is asked by identity: two subsets of different datasets that share a
    selection and a style compare equal (Subset.__eq__), and the second must still get its own layer."""
    R = 'C18.h'
    ctx.describe(R, 'membership of a layer in the artist container is decided by identity, not by equality', floor=1)
    c = ix.cls('glue.core.layer_artist.LayerArtistContainer')
    f = c.resolve_func('__contains__')
    if f is None:
        raise AnalysisError('LayerArtistContainer.__contains__ vanished')
    item = f.params[1]
    ident = [x for x in ast.walk(f.node) if isinstance(x, ast.Compare) and isinstance(x.ops[0], (ast.Is, ast.IsNot)) and
             item in [unparse(x.left), unparse(x.comparators[0])]]
    by_eq = [x for x in ast.walk(f.node) if isinstance(x, ast.Compare) and isinstance(x.ops[0], (ast.In, ast.NotIn, ast.Eq, ast.NotEq)) and
             item in [unparse(x.left), unparse(x.comparators[0])]]
    by_eq += [x for x in calls_in(f.node) if call_name(x) in ('index', 'count') and x.args and unparse(x.args[0]) == item]
    ctx.ob(R, f.construct, 'the layer is looked for with `is`', bool(ident) and not by_eq,
           detail='LayerArtistContainer.__contains__ compares by equality (`%s`): plain subsets of two datasets that share one selection '
                  'object and have equal styles compare equal, so the viewer takes the second for a duplicate and creates no layer for it'
                  % (unparse(by_eq[0]) if by_eq else 'no identity test'), where=f.where)
