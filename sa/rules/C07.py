"""C07 - the hub delivers each message exactly once, in order, to the right listeners."""
import ast

from ..index import AnalysisError, dotted_chain, norm, unparse, walk_no_nested, body_stmts
from ..cfg import CFG, EXIT
from ..util import calls_in, call_name, where, returns_of, parent_map, enclosing, in_finally, guard_chain
from .. import props
from . import common

props.prop(
    'C07',
    explanation='Static (ast + CFG) decision of the hub\'s delivery structure: the decision order inside broadcast '
                '(dominators), the delay block as a nest-safe, exception-safe typestate that flushes a detached queue '
                'only at the outermost exit, the ignore block\'s counter discipline, and handler selection (snapshot '
                'iteration, most specific subscription, filter before listing, priority order).',
    decides='ignore test before pause test before delivery; nothing delivered while paused; nested delay blocks; '
            'restore in finally; flush only when outermost and from a detached snapshot; most-derived subscription, '
            'filter and descending priority in handler selection',
    not_decided='exactly-once per listener over schedules, per-listener ordering across re-entrant broadcasts, '
                'weak-reference clean-up, double subscription',
    assumptions=['handlers are arbitrary callables (may broadcast, open blocks, subscribe)'])
props.also('C07',
           'that the priority parameter is replaced only under an identity test with None and the callback container stores every subscription it is given (or compares all three parts); (the same for `priority or DEFAULT` and conditional expressions); that the clean-up of dead subscriptions looks at every weak reference the container stores with that callback (handler and filter object)')

HUB = 'glue.core.hub.Hub'


def run(ctx):
    ix = ctx.index
    hub = ix.cls(HUB)
    ctx.guard(rule_a, ctx, ix, hub)
    ctx.guard(rule_b, ctx, ix, hub)
    ctx.guard(rule_c, ctx, ix, hub)
    ctx.guard(rule_d, ctx, ix, hub)
    ctx.guard(rule_e, ctx, ix, hub)
    ctx.guard(rule_f, ctx, ix)


def _mentions_field(node, selfname, field):
    return any(isinstance(n, ast.Attribute) and n.attr == field and isinstance(n.value, ast.Name) and n.value.id == selfname
               for n in ast.walk(node))


def rule_a(ctx, ix, hub):
    R = 'C07.a'
    ctx.describe(R, 'broadcast: ignore test dominates pause test dominates delivery; paused => enqueue once, no delivery', floor=6)
    f = hub.resolve_func('broadcast')
    if f is None:
        raise AnalysisError('Hub.broadcast vanished')
    s = f.self_name
    msg = f.params[1]
    cfg = CFG(f.node)
    dom = cfg.dominators()
    from ..util import expand_locals as _xl
    I = [n for n in cfg.nodes() if cfg.kind[n] == 'if' and _mentions_field(_xl(f.node, cfg.stmt[n].test), s, '_ignore')]
    P = [n for n in cfg.nodes() if cfg.kind[n] == 'if' and _mentions_field(_xl(f.node, cfg.stmt[n].test), s, '_paused')]
    Q = [n for n in cfg.nodes() if cfg.kind[n] == 'stmt' and any(
        call_name(c) in ('append', 'put', 'extend') and _mentions_field(c.func, s, '_queue') for c in calls_in(cfg.stmt[n]))]
    D = [n for n in cfg.nodes() if cfg.kind[n] == 'for' and any(call_name(c) == '_find_handlers' for c in calls_in(cfg.stmt[n].iter))]
    if len(I) != 1 or len(P) != 1 or len(Q) != 1 or len(D) != 1:
        raise AnalysisError('Hub.broadcast: ignore test / pause test / enqueue / delivery loop not recognised '
                            '(%d/%d/%d/%d)' % (len(I), len(P), len(Q), len(D)))
    I, P, Q, D = I[0], P[0], Q[0], D[0]
    ctx.ob(R, f.construct, 'the ignore test precedes the pause test on every path', cfg.dominates(I, P, dom),
           detail='Hub.broadcast tests the pause state before (or without) the ignore counter: an ignored message type is '
                  'queued inside a delay block and delivered when the block closes', where=where(f, cfg.stmt[P]))

    def branch(n, lab):
        outs = [t for (t, l) in cfg.succ[n] if l == lab]
        seen = set()
        for o in outs:
            seen |= cfg.reachable_from(o)
        return seen
    from .. import cond

    def active_label(n, field):
        """The edge of the test taken when the counter / flag in ``field`` is set (> 0): the test may be written negated."""
        fm = cond.formula(_xl(f.node, cfg.stmt[n].test))
        env = {}
        for a in cond.atoms(fm):
            if field not in a:
                raise AnalysisError('Hub.broadcast: the test `%s` mixes the %s state with something else' % (unparse(cfg.stmt[n].test), field))
            # `x == 0`, `x < 1`: true when the counter is NOT set
            env[a] = not (a.startswith('eq|0|') or (a.startswith('lt|') and a.endswith('|1')) or a.startswith('is|None|') or a.startswith('eq|False|'))
        return 'true' if cond.evaluate(fm, env) else 'false'
    li, lp_ = active_label(I, '_ignore'), active_label(P, '_paused')
    it = branch(I, li)
    ctx.ob(R, f.construct, 'an ignored message is neither queued nor delivered', Q not in it and D not in it,
           detail='on the ignored branch Hub.broadcast still reaches %s' % ('the queue' if Q in it else 'delivery'),
           where=where(f, cfg.stmt[I]))
    pt, pf = branch(P, lp_), branch(P, 'false' if lp_ == 'true' else 'true')
    ctx.ob(R, f.construct, 'while paused the message is queued and not delivered', Q in pt and D not in pt,
           detail='while a delay block is open Hub.broadcast %s' % ('delivers the message' if D in pt else 'does not queue the message'),
           where=where(f, cfg.stmt[P]))
    ctx.ob(R, f.construct, 'when not paused the message is delivered and not queued', D in pf and Q not in pf,
           detail='outside delay blocks Hub.broadcast %s' % ('queues the message' if Q in pf else 'does not deliver'),
           where=where(f, cfg.stmt[P]))
    # enqueue the message itself, exactly once
    qcall = [c for c in calls_in(cfg.stmt[Q]) if call_name(c) in ('append', 'put')]
    ok = len(qcall) == 1 and len(qcall[0].args) == 1 and unparse(qcall[0].args[0]) == msg and \
        not any(cfg.kind[a] in ('for', 'while') and Q in cfg.reachable_from(a) and a in cfg.reachable_from(Q) for a in cfg.nodes())
    ctx.ob(R, f.construct, 'the message is enqueued exactly once', ok,
           detail='Hub.broadcast does not enqueue exactly the message once: %s' % norm(cfg.stmt[Q]), where=where(f, cfg.stmt[Q]))
    # delivery: every handler found is called with the message, in yield order
    lp = cfg.stmt[D]
    it_ok = isinstance(lp.iter, ast.Call) and call_name(lp.iter) == '_find_handlers' and \
        len(lp.iter.args) == 1 and unparse(lp.iter.args[0]) == msg
    hname = None
    if isinstance(lp.target, ast.Tuple) and len(lp.target.elts) == 2 and isinstance(lp.target.elts[1], ast.Name):
        hname = lp.target.elts[1].id
    called = [c for st in lp.body for c in calls_in(st) if isinstance(c.func, ast.Name) and c.func.id == hname
              and len(c.args) == 1 and unparse(c.args[0]) == msg]
    uncond = any(isinstance(st, ast.Expr) and st.value in called for st in lp.body)
    ctx.ob(R, f.construct, 'every handler yielded by _find_handlers(message) is called with the message', it_ok and uncond,
           detail='the delivery loop of Hub.broadcast does not call each found handler with the message unconditionally',
           where=where(f, lp))


def rule_b(ctx, ix, hub):
    R = 'C07.b'
    ctx.describe(R, 'delay block: nest-safe pause state, restored in finally, flush only when outermost, from a detached queue', floor=4)
    f = hub.resolve_func('delay_callbacks')
    if f is None:
        raise AnalysisError('Hub.delay_callbacks vanished')
    if not f.has_decorator('contextmanager'):
        raise AnalysisError('Hub.delay_callbacks is no longer a @contextmanager generator')
    s = f.self_name
    node = f.node
    pm = parent_map(node)
    ys = [n for n in walk_no_nested(node) if isinstance(n, ast.Yield)]
    if len(ys) != 1:
        raise AnalysisError('Hub.delay_callbacks: expected one yield')
    y = ys[0]
    stores = [st for st in walk_no_nested(node) if isinstance(st, (ast.Assign, ast.AugAssign))
              and any(t.endswith('._paused') for t in common._attr_store_targets(st))]
    pre = [st for st in stores if st.lineno < y.lineno]
    post = [st for st in stores if st.lineno > y.lineno]
    if not pre or not post:
        raise AnalysisError('Hub.delay_callbacks: pause stores before/after the yield not recognised')
    # (1) nesting
    counter = all(isinstance(st, ast.AugAssign) and isinstance(st.op, ast.Add) for st in pre) and \
        all(isinstance(st, ast.AugAssign) and isinstance(st.op, ast.Sub) for st in post)
    saved = None
    for st in walk_no_nested(node):
        if isinstance(st, ast.Assign) and isinstance(st.targets[0], ast.Name) and unparse(st.value) == '%s._paused' % s \
                and st.lineno < pre[0].lineno:
            saved = st.targets[0].id
    restore_prev = saved is not None and all(isinstance(st, ast.Assign) and unparse(st.value) == saved for st in post)
    ctx.ob(R, f.construct, 'the pause state nests (depth counter or save-and-restore)', counter or restore_prev,
           detail='Hub.delay_callbacks sets the pause state with %s and clears it with %s: the exit of an inner delay '
                  'block un-pauses the hub and delivers while the outer block is still open'
                  % (norm(pre[0]), norm(post[0])), where=where(f, pre[0]))
    # (2) restore in finally
    for st in post:
        tr = in_finally(pm, st)
        ok = tr is not None and any(y is x for b in tr.body for x in ast.walk(b))
        ctx.ob(R, f.construct, 'the pause state is restored in a finally block', ok,
               detail='Hub.delay_callbacks restores the pause state with `%s` outside a finally block: an exception inside '
                      'the block leaves the hub paused for ever' % norm(st), where=where(f, st))
    # (3)+(4) the flush
    loops = [n for n in walk_no_nested(node) if isinstance(n, (ast.For, ast.While)) and not any(x is y for x in ast.walk(n))
             and any(call_name(c) == 'broadcast' for c in calls_in(n))]
    if len(loops) != 1:
        raise AnalysisError('Hub.delay_callbacks: flush loop not recognised')
    lp = loops[0]
    tr = in_finally(pm, lp)
    ctx.ob(R, f.construct, 'the queue is flushed in the finally block (also when the block raised)', tr is not None,
           detail='Hub.delay_callbacks flushes the queue outside the finally block: messages queued before an exception '
                  'are never delivered', where=where(f, lp))
    from .. import cond
    guards = [g for g, br in guard_chain(pm, lp, node) if isinstance(g, ast.If)]
    pc = cond.path_condition(node, lp) or ('const', True)
    depth_atoms = [k for k in cond.atoms(pc) if '%s._paused' % s in k or (saved and saved in k)]
    got = cond.restrict(pc, lambda k: k in depth_atoms)
    P_ = '%s._paused' % s
    zero_forms = [cond.T('eq|0|%s' % P_), cond.Not(cond.T(P_)), cond.Not(cond.T('lt|0|%s' % P_)), cond.T('lt|%s|1' % P_)]
    outer = any(cond.equivalent(got, z) for z in zero_forms)
    if restore_prev:
        outer = bool(depth_atoms)
    any_depth_test = bool(depth_atoms)
    ctx.idiom(R, f.construct, 'the flush runs only when the outermost block closes', accepted=outer, absent=not any_depth_test,
              detail_absent='Hub.delay_callbacks flushes the queue at the exit of every block, not only the outermost one (no test '
                            'of the pause depth guards the flush): messages are delivered while an outer delay block is still open',
              shape='; '.join(unparse(g.test) for g in guards), where=where(f, lp))
    detached = False
    why = ''
    if isinstance(lp, ast.For):
        it = lp.iter
        if isinstance(it, ast.Name):
            # queue, self._queue = self._queue, []   /   queue = self._queue ; self._queue = []
            for st in walk_no_nested(node):
                if isinstance(st, ast.Assign) and st.lineno < lp.lineno and st.lineno > y.lineno:
                    txt = unparse(st).replace(' ', '')
                    if txt in ('%s,%s._queue=(%s._queue,[])' % (it.id, s, s), '%s,%s._queue=%s._queue,[]' % (it.id, s, s),
                               '(%s,%s._queue)=(%s._queue,[])' % (it.id, s, s)):
                        detached = True
            defs = [st for st in walk_no_nested(node) if isinstance(st, ast.Assign) and unparse(st.targets[0]) == it.id
                    and st.lineno < lp.lineno]
            # `snapshot = pending` with `pending = self._queue`: one more name for the same list
            for _ in range(3):
                if defs and isinstance(defs[-1].value, ast.Name):
                    nm_ = defs[-1].value.id
                    defs = [st for st in walk_no_nested(node) if isinstance(st, ast.Assign) and unparse(st.targets[0]) == nm_
                            and st.lineno < lp.lineno]
            resets = [st for st in walk_no_nested(node) if isinstance(st, ast.Assign) and unparse(st.targets[0]) == '%s._queue' % s
                      and st.lineno < lp.lineno and isinstance(st.value, (ast.List, ast.Call))]
            if defs and resets and unparse(defs[-1].value) == '%s._queue' % s and resets[-1].lineno > defs[-1].lineno:
                detached = True
            derived = None
            for st in walk_no_nested(node):
                if isinstance(st, ast.Assign) and st.lineno < lp.lineno and st.lineno > y.lineno and isinstance(st.targets[0], ast.Tuple) \
                        and isinstance(st.value, ast.Tuple) and len(st.targets[0].elts) == len(st.value.elts) == 2 \
                        and unparse(st.targets[0].elts[0]) == it.id and unparse(st.targets[0].elts[1]) == '%s._queue' % s \
                        and isinstance(st.value.elts[1], ast.List) and not st.value.elts[1].elts:
                    v0 = unparse(st.value.elts[0]).replace(' ', '')
                    if v0 in ('list(%s._queue)' % s, 'tuple(%s._queue)' % s, '%s._queue[:]' % s, '%s._queue.copy()' % s):
                        detached = True
                    elif '%s._queue' % s in v0:
                        derived = unparse(st.value.elts[0])
            if not detached and derived is None:
                # the flushed list built by a loop over the queue (a spliced helper): a plain copy loop detaches, a filtered one drops messages
                names_ = {it.id}
                for _ in range(4):
                    for st in walk_no_nested(node):
                        if isinstance(st, ast.Assign) and isinstance(st.value, ast.Name):
                            for t_ in st.targets:
                                if isinstance(t_, ast.Name) and t_.id in names_:
                                    names_.add(st.value.id)
                        elif isinstance(st, ast.Assign) and isinstance(st.targets[0], ast.Tuple) and isinstance(st.value, ast.Tuple):
                            for t_, v_ in zip(st.targets[0].elts, st.value.elts):
                                if isinstance(t_, ast.Name) and t_.id in names_ and isinstance(v_, ast.Name):
                                    names_.add(v_.id)
                from ..util import parent_map as _pm
                pm_ = _pm(node)
                for l2 in [x for x in walk_no_nested(node) if isinstance(x, ast.For) and unparse(x.iter) == '%s._queue' % s and x is not lp]:
                    for c_ in calls_in(l2):
                        if call_name(c_) == 'append' and isinstance(c_.func.value, ast.Name) and c_.func.value.id in names_:
                            cur, cond_ = pm_.get(id(c_)), False
                            while cur is not None and cur is not l2:
                                cond_ = cond_ or isinstance(cur, ast.If)
                                cur = pm_.get(id(cur))
                            if cond_:
                                derived = 'a selection of %s._queue (appended under a test)' % s
                            else:
                                resets_ = [st for st in walk_no_nested(node) if isinstance(st, ast.Assign) and st.lineno < lp.lineno and st.lineno > l2.lineno and any(
                                    unparse(t_) == '%s._queue' % s for T_ in st.targets for t_ in (T_.elts if isinstance(T_, ast.Tuple) else [T_]))]
                                detached = detached or bool(resets_)
            if not detached and derived:
                why = ('the flushed list `%s` is computed from the queue, it is not the queue: messages that were queued while paused can '
                       'be dropped or reordered before they are delivered' % derived)
            elif not detached:
                why = 'the loop variable %s is not a detached snapshot of the queue' % it.id
        else:
            why = 'the flush iterates %s directly and empties the queue only afterwards' % unparse(it)
    else:
        # while self._queue: msg = self._queue.pop(0); self.broadcast(msg)
        # while self._queue: self.broadcast(self._queue.pop(0)) - each message leaves the queue before it is delivered, but the
        # rest stays in the SHARED queue while handlers run with the pause depth already at 0: a handler that opens and closes
        # a delay block of its own flushes the remaining top-level messages from inside the current delivery, so the listeners
        # served after that handler see later messages before the current one
        detached = False
        why = 'the flush takes the messages one by one from the shared queue, which handlers (through their own delay blocks) flush again'
    ctx.ob(R, f.construct, 'the flush delivers from a detached snapshot; the shared queue is emptied first', detached,
           detail='Hub.delay_callbacks: %s%s' % (why, '' if 'computed from the queue' in why else ' - a handler that opens a delay block (or broadcasts) during the flush re-delivers '
                  'the same messages or delivers the remaining ones out of order, nested in the current delivery'), where=where(f, lp))


def rule_c(ctx, ix, hub):
    R = 'C07.c'
    ctx.describe(R, 'ignore block: counter incremented before the yield and decremented in finally on the same key; '
                    'all context managers of the package restore their state in finally', floor=5)
    f = hub.resolve_func('ignore_callbacks')
    if f is None:
        raise AnalysisError('Hub.ignore_callbacks vanished')
    node = f.node
    ys = [n for n in walk_no_nested(node) if isinstance(n, ast.Yield)]
    if len(ys) != 1:
        raise AnalysisError('Hub.ignore_callbacks: expected one yield')
    y = ys[0]
    augs = [st for st in walk_no_nested(node) if isinstance(st, ast.AugAssign) and '_ignore' in unparse(st.target)]
    inc = [st for st in augs if isinstance(st.op, ast.Add) and st.lineno < y.lineno]
    dec = [st for st in augs if isinstance(st.op, ast.Sub) and st.lineno > y.lineno]
    ok = len(inc) == 1 and len(dec) == 1 and unparse(inc[0].target) == unparse(dec[0].target) and \
        unparse(inc[0].value) == unparse(dec[0].value) == '1'
    key_ok = ok and isinstance(inc[0].target, ast.Subscript) and unparse(inc[0].target.slice) == f.params[1]
    ctx.ob(R, f.construct, 'the ignore counter of the given type is incremented before and decremented after the block', key_ok,
           detail='Hub.ignore_callbacks does not increment and decrement the same counter entry by one: %s / %s'
                  % ([norm(x) for x in inc], [norm(x) for x in dec]), where=f.where)
    # broadcast reads the same structure
    b = hub.resolve_func('broadcast')
    from ..util import expand_locals
    tests = [unparse(expand_locals(b.node, n.test)) for n in walk_no_nested(b.node) if isinstance(n, ast.If)]
    tests = [t for t in tests if '_ignore' in t]
    ok = any(('type(%s)' % b.params[1]) in t and '> 0' in t for t in tests)
    ctx.ob(R, b.construct, 'broadcast drops a message while the counter of its type is positive', ok,
           detail='Hub.broadcast does not test `_ignore[type(message)] > 0`', where=b.where)
    n = 0
    for m, node, construct in common.contextmanager_funcs(ix):
        if not m.name.startswith('glue.core.hub') and not m.name.startswith('glue.core.layer_artist'):
            continue
        n += common.check_contextmanager(ctx, R, m, node, construct) or 0
    if n < 3:
        raise AnalysisError('R-CM matched only %d restore sites in hub/layer_artist context managers' % n)


def rule_d(ctx, ix, hub):
    R = 'C07.d'
    ctx.describe(R, 'handler selection: snapshot iteration, most specific subscription, filter, priority descending', floor=6)
    f = hub.resolve_func('_find_handlers')
    if f is None:
        raise AnalysisError('Hub._find_handlers vanished')
    s = f.self_name
    msg = f.params[1]
    loops = [n for n in walk_no_nested(f.node) if isinstance(n, ast.For)]
    outer = [lp for lp in loops if '_subscriptions' in unparse(lp.iter)]
    if len(outer) != 1:
        raise AnalysisError('Hub._find_handlers: loop over the subscription table not recognised')
    lp = outer[0]
    snap = isinstance(lp.iter, ast.Call) and (call_name(lp.iter) in ('list', 'tuple', 'sorted') or call_name(lp.iter) == 'copy')
    ctx.ob(R, f.construct, 'the subscription table is iterated through a snapshot', snap,
           detail='Hub._find_handlers iterates the live subscription table (%s): a handler that subscribes or '
                  'unsubscribes during delivery breaks the iteration' % unparse(lp.iter), where=where(f, lp))
    # candidates: subscribed classes that are superclasses of the message's type
    from ..util import iterations, expand_locals
    targets = {unparse(tg) for it, tg, owner, kind in iterations(lp)}
    ok = False
    for c in calls_in(lp):
        if isinstance(c.func, ast.Name) and c.func.id in ('issubclass', 'isinstance') and len(c.args) == 2 and unparse(c.args[1]) in targets:
            a0 = unparse(expand_locals(f.node, c.args[0])).replace(' ', '')
            if (c.func.id == 'issubclass' and a0 == 'type(%s)' % msg) or (c.func.id == 'isinstance' and a0 == msg):
                ok = True
    ctx.ob(R, f.construct, 'candidates are the subscribed classes the message is an instance of', ok,
           detail='Hub._find_handlers no longer selects subscriptions with issubclass(type(message), subscribed_class)',
           where=where(f, lp))
    # most specific
    sel = [c for c in calls_in(lp) if isinstance(c.func, ast.Name) and c.func.id in ('max', 'min', 'sorted')]
    ok = False
    detail = 'no max(candidates, key=<mro length>) selection found'
    for c in sel:
        key = None
        for k in c.keywords:
            if k.arg == 'key':
                key = k.value
        if key is None:
            continue
        klen = _key_is_mro_len(ix, f, key)
        if c.func.id == 'max' and klen:
            ok = True
        elif c.func.id == 'min':
            detail = 'the least specific subscription is chosen (min by MRO length): a subscription to a base message class ' \
                     'shadows the specific one'
        elif not klen:
            detail = 'the selection key %s is not the MRO length of the subscribed class' % unparse(key)
    ctx.ob(R, f.construct, 'the most specific (longest MRO) matching subscription is chosen', ok, detail='Hub._find_handlers: ' + detail,
           where=where(f, lp))
    # filter before listing
    apps = [c for c in calls_in(lp) if call_name(c) == 'append' and c.args and isinstance(c.args[0], ast.Tuple)]
    if len(apps) != 1:
        raise AnalysisError('Hub._find_handlers: handler list append not recognised')
    pm = parent_map(f.node)
    guards = [g for g, br in guard_chain(pm, apps[0], lp) if isinstance(g, ast.If) and br == 'body']
    unpack = [st for st in walk_no_nested(lp) if isinstance(st, ast.Assign) and isinstance(st.targets[0], ast.Tuple)
              and len(st.targets[0].elts) == 3 and 'subscriptions[' in unparse(st.value).replace(' ', '')]
    ok = False
    if unpack:
        names = [unparse(e) for e in unpack[0].targets[0].elts]
        ok = any(unparse(g.test).replace(' ', '') == '%s(%s)' % (names[1], msg) for g in guards)
        # the appended tuple carries that handler and that priority
        tup = apps[0].args[0] if apps[0].args else None
        tnames = [unparse(e) for e in tup.elts] if isinstance(tup, ast.Tuple) else []
        pos_ok = names[0] in tnames and names[2] in tnames
        # storage order in subscribe
        sub = hub.resolve_func('subscribe')
        st_ok = any(isinstance(st, ast.Assign) and isinstance(st.value, ast.Tuple)
                    and [unparse(e) for e in st.value.elts] == ['handler', 'filter', 'priority']
                    for st in walk_no_nested(sub.node))
        ctx.ob(R, f.construct, 'subscribe stores (handler, filter, priority) and selection unpacks the same order', st_ok and pos_ok,
               detail='the (handler, filter, priority) triple is stored and unpacked in different orders', where=where(f, unpack[0]))
    ctx.ob(R, f.construct, 'the filter is consulted before the handler is listed', ok,
           detail='Hub._find_handlers lists the handler without consulting the subscription\'s filter on the message',
           where=where(f, apps[0]))
    # priority order
    tup = apps[0].args[0] if apps[0].args else None
    pidx = None
    if isinstance(tup, ast.Tuple) and unpack:
        pname = unparse(unpack[0].targets[0].elts[2])
        for i, e in enumerate(tup.elts):
            if unparse(e) == pname:
                pidx = i
    order_ok = False
    sorts_seen = 0
    known_bad = False
    detail = 'no sort by priority found'
    for c in calls_in(f.node):
        if isinstance(c.func, ast.Name) and c.func.id == 'sorted' or call_name(c) == 'sort':
            key = None
            rev = False
            for k in c.keywords:
                if k.arg == 'key':
                    key = k.value
                if k.arg == 'reverse':
                    rev = isinstance(k.value, ast.Constant) and bool(k.value.value)
            sorts_seen += 1
            if isinstance(key, ast.Call) and call_name(key) == 'itemgetter' and len(key.args) == 1 and isinstance(key.args[0], ast.Constant):
                # operator.itemgetter(i) is lambda x: x[i]
                key = ast.parse('lambda x: x[%d]' % key.args[0].value, mode='eval').body
            if key is None or not isinstance(key, ast.Lambda):
                detail = 'the handlers are sorted without a recognisable priority key: %s' % unparse(c)[:80]
                continue
            body = unparse(key.body).replace(' ', '')
            arg = key.args.args[0].arg
            if pidx is not None and body == '%s[%d]' % (arg, pidx):
                order_ok = rev
                known_bad = not rev
                detail = 'handlers are sorted by priority ascending (reverse=%s): lower-priority handlers run first' % rev
            elif pidx is not None and body == '-%s[%d]' % (arg, pidx):
                order_ok = not rev
                known_bad = rev
                detail = 'handlers are sorted by -priority with reverse=True: lower-priority handlers run first'
            else:
                detail = 'the sort key %s is not the priority element of the listed tuples' % unparse(key.body)
    ctx.idiom(R, f.construct, 'handlers are delivered in descending priority', accepted=order_ok,
              absent=(sorts_seen == 0) or known_bad, detail_absent='Hub._find_handlers: ' + detail, shape=detail, where=f.where)


def _key_is_mro_len(ix, f, key):
    if isinstance(key, ast.Lambda):
        t = unparse(key.body).replace(' ', '')
        a = key.args.args[0].arg
        return t in ('len(getmro(%s))' % a, 'len(%s.mro())' % a, 'len(%s.__mro__)' % a, 'len(inspect.getmro(%s))' % a)
    q = ix.resolve_expr(f.module, key)
    g = ix.functions.get(q)
    if g is None:
        return False
    rets = returns_of(g)
    if len(rets) != 1 or rets[0].value is None:
        return False
    a = g.params[0]
    t = unparse(rets[0].value).replace(' ', '')
    return t in ('len(getmro(%s))' % a, 'len(%s.mro())' % a, 'len(%s.__mro__)' % a, 'len(inspect.getmro(%s))' % a)


def rule_e(ctx, ix, hub):
    """What a subscriber asks for is what is stored: the triple (handler, filter, priority) reaches the callback container as
    given - the priority is a number (0 is a priority), so it may only be replaced when it `is None`; and the container stores
    every subscription, or skips one only after comparing all three parts (a new filter for the same handler is a new
    subscription)."""
    from .. import cond
    from ..util import parent_map
    R = 'C07.e'
    ctx.describe(R, 'a subscription is stored as given: numeric priority kept (0 included), no subscription skipped on a partial comparison', floor=3)
    f = hub.resolve_func('subscribe')
    if f is None:
        raise AnalysisError('Hub.subscribe vanished')
    from ..util import expand_locals as _xl
    stores = [st for st in walk_no_nested(f.node) if isinstance(st, ast.Assign) and isinstance(st.targets[0], ast.Subscript)
              and isinstance(st.value, ast.Tuple) and len(st.value.elts) == 3
              and ('_subscriptions' in unparse(_xl(f.node, st.targets[0].value)) or
                   (len(f.params) > 2 and unparse(st.targets[0].slice) == f.params[2]))]      # <container>[message_class] = (h, f, p)
    if len(stores) != 1:
        raise AnalysisError('Hub.subscribe: the store of (handler, filter, priority) is no longer recognised')
    prio = stores[0].value.elts[2]
    flt = stores[0].value.elts[1]
    for part, what in ((prio, 'priority'), (flt, 'filter')):
        if not isinstance(part, ast.Name):
            raise AnalysisError('Hub.subscribe: the %s stored is not a plain name' % what)
    pc_store = cond.path_condition(f.node, stores[0], expand=False) or ('const', True)
    ctx.ob(R, f.construct + ' store', 'every accepted subscription is stored', pc_store == ('const', True) or not any(
        prio.id in a or flt.id in a for a in cond.atoms(pc_store)),
        detail='Hub.subscribe stores the subscription only under `%s`' % (pc_store,), where=where(f, stores[0]))
    # re-bindings of the numeric parameter
    n = 0
    for st in walk_no_nested(f.node):
        if isinstance(st, ast.Assign) and any(isinstance(t, ast.Name) and t.id == prio.id for t in st.targets):
            n += 1
            pc = cond.path_condition(f.node, st, expand=False) or ('const', True)
            truthy = any(a == prio.id for a in cond.atoms(pc))
            for v in ast.walk(st.value):
                # `priority or DEFAULT`, `priority if priority else DEFAULT`: the same truth-value test inside the expression
                if isinstance(v, ast.BoolOp) and any(isinstance(o, ast.Name) and o.id == prio.id for o in v.values[:-1]):
                    truthy, pc = True, norm(v)
                elif isinstance(v, ast.IfExp) and any(a == prio.id for a in cond.atoms(cond.formula(v.test))):
                    truthy, pc = True, norm(v)
            ctx.ob(R, '%s `%s`' % (f.construct, norm(st)), 'the priority is replaced by a default only when it is None (identity), never when it is falsy', not truthy,
                   detail='Hub.subscribe replaces the priority under `%s`, a truth-value test: priority=0 is a legitimate priority (lower than '
                          'every positive one) and is silently turned into the default, so that handler is called before handlers of '
                          'priority 1..9 instead of after them' % (pc,), where=where(f, st))
    ctx.ob(R, f.construct + ' priority', 'the priority parameter reaches the container as given (%d re-bindings examined)' % n, True)
    # the container
    cc = ix.cls('glue.core.hub_callback_container.HubCallbackContainer')
    g = cc.resolve_func('__setitem__')
    if g is None:
        raise AnalysisError('HubCallbackContainer.__setitem__ vanished')
    sts = [st for st in walk_no_nested(g.node) if isinstance(st, ast.Assign) and isinstance(st.targets[0], ast.Subscript)
           and unparse(st.targets[0].value) == '%s.callbacks' % g.self_name]
    if len(sts) != 1:
        raise AnalysisError('HubCallbackContainer.__setitem__: the store into self.callbacks is no longer recognised')
    pc = cond.path_condition(g.node, sts[0], expand=True) or ('const', True)
    # which local holds the filter: the second element of the unpacked value
    fname = None
    for st in walk_no_nested(g.node):
        if isinstance(st, ast.Assign) and isinstance(st.targets[0], ast.Tuple) and len(st.targets[0].elts) == 3 and unparse(st.value) == g.params[2]:
            fname = unparse(st.targets[0].elts[1])
    ok = pc == ('const', True) or (fname is not None and any(fname in a.split('|') or ('%s' % fname) in a for a in cond.atoms(pc)
                                                              if a.startswith(('is|', 'eq|'))))
    ctx.ob(R, g.construct, 'the container stores every subscription, or skips one only after comparing handler, filter and priority', ok,
           detail='HubCallbackContainer.__setitem__ keeps the stored entry under `%s` - a comparison that does not look at the filter: '
                  'subscribing again with the same handler and another filter (a listener switching to another source) keeps the old '
                  'filter, so messages that should now be delivered are withheld and the others still arrive' % (pc,), where=where(g, sts[0]))


def rule_f(ctx, ix):
    """A subscription holds two weak references with the same clean-up callback: to the object of a bound handler and to the object
    of a bound filter.  When either object dies the subscription has to go: a filter whose object is gone raises (or rejects)
    on the next broadcast, before anything is delivered."""
    R = 'C07.f'
    ctx.describe(R, 'the clean-up of dead subscriptions looks at every weak reference the container stores with that callback', floor=1)
    cc = ix.cls('glue.core.hub_callback_container.HubCallbackContainer')
    w, g = cc.resolve_func('_wrap'), cc.resolve_func('_auto_remove')
    if w is None or g is None:
        raise AnalysisError('HubCallbackContainer._wrap / _auto_remove vanished')
    # the objects _wrap watches: weakref.ref(<x>.__self__, self._auto_remove)
    kinds = set()
    for c in calls_in(w.node):
        if call_name(c) == 'ref' and len(c.args) == 2 and '_auto_remove' in unparse(c.args[1]) and isinstance(c.args[0], ast.Attribute) \
                and c.args[0].attr == '__self__':
            kinds.add(unparse(c.args[0].value))
    if len(kinds) < 2:
        raise AnalysisError('HubCallbackContainer._wrap: the weak references with the clean-up callback are no longer recognised (%s)' % sorted(kinds))
    p = g.params[1]
    compared = set()
    for c in ast.walk(g.node):
        if isinstance(c, ast.Compare) and len(c.ops) == 1:
            sides = [c.left, c.comparators[0]]
            if isinstance(c.ops[0], (ast.Is, ast.IsNot, ast.Eq, ast.NotEq)) and any(isinstance(x, ast.Name) and x.id == p for x in sides):
                compared |= {unparse(x) for x in sides if not (isinstance(x, ast.Name) and x.id == p)}
            elif isinstance(c.ops[0], (ast.In, ast.NotIn)) and isinstance(c.left, ast.Name) and c.left.id == p:
                if isinstance(c.comparators[0], (ast.Tuple, ast.List, ast.Set)):
                    compared |= {unparse(x) for x in c.comparators[0].elts}
                elif isinstance(c.comparators[0], ast.Subscript) and isinstance(c.comparators[0].slice, ast.Slice):
                    compared |= {'%s[slice %d]' % (unparse(c.comparators[0].value), k) for k in range(2)}    # p in value[1:4:2] and the like
    ctx.idiom(R, g.construct, 'the dead object is compared with the object of the handler and with the object of the filter',
              accepted=len(compared) >= len(kinds), absent=0 < len(compared) < len(kinds),
              detail_absent='HubCallbackContainer._auto_remove compares the collected object only with %s, while _wrap watches %d objects per '
                            'subscription with this clean-up callback (%s): a subscription whose other object has been collected stays in the '
                            'container, and the next broadcast of that message calls a method on None (or keeps calling a dead subscription) '
                            'before the healthy listeners are served' % (sorted(compared), len(kinds), ', '.join(sorted(kinds))),
              shape='no comparison with `%s` found' % p, where=g.where)
