"""C15 - world coordinates, their links and inverses agree with the coordinate object (partial)."""
import ast

from ..index import AnalysisError, dotted_chain, norm, unparse, walk_no_nested, body_stmts
from ..effects import EffectAnalyzer
from ..util import calls_in, call_name, where, returns_of, kwarg, parent_map, guard_chain
from .. import props
from . import common

props.prop(
    'C15',
    explanation='Static (ast) pairing of forward and inverse: the inverse matrix is derived from the forward matrix wherever '
                'the forward matrix is assigned, each direction of the transform reads its own matrix, the identity-like '
                'coordinate classes return their inputs in both directions, one pixel->world and one world->pixel link is '
                'created per axis with the right endpoint, index and direction flag, and the direction flag selects the '
                'matching single-axis helper.',
    decides='forward/inverse matrix pairing in AffineCoordinates, symmetric identity in Identity/LegacyCoordinates, the '
            'coordinate-link set-up in Data, flag<->helper dispatch and index conversion in CoordinateComponentLink.using, '
            'and which helper CoordinateComponent uses for world values',
    not_decided='numerical agreement (floating point), correctness of the independent-axis shortcut (dependent_axes)',
    assumptions=['numpy.linalg.inv inverts'])
props.also('C15',
           'that index arrays are broadcast against each other before the transformation; C order of the flatten / reshape pairs in the coordinate helpers; that the closure loop behind dependent_axes stops only at a fixed point of both masks')

AFF = 'glue.core.coordinates.AffineCoordinates'


def run(ctx):
    ix = ctx.index
    ctx.guard(rule_a, ctx, ix)
    ctx.guard(rule_b, ctx, ix)
    ctx.guard(rule_c, ctx, ix)
    ctx.guard(rule_d, ctx, ix)
    ctx.guard(rule_e, ctx, ix)
    ctx.guard(rule_f, ctx, ix)
    ctx.guard(rule_g, ctx, ix)
    ctx.guard(rule_h, ctx, ix)


def rule_a(ctx, ix):
    R = 'C15.a'
    ctx.describe(R, 'forward/inverse pairing in the coordinate classes', floor=8)
    aff = ix.cls(AFF)
    n = 0
    for name, m in sorted(aff.members.items()):
        f = m.func
        if f is None:
            continue
        s = f.self_name
        fw = [st for st in walk_no_nested(f.node) if isinstance(st, ast.Assign) and unparse(st.targets[0]) == '%s._matrix' % s]
        if not fw:
            continue
        n += 1
        inv = [st for st in walk_no_nested(f.node) if isinstance(st, ast.Assign) and unparse(st.targets[0]) == '%s._matrix_inv' % s]
        ok = len(inv) == 1 and isinstance(inv[0].value, ast.Call) and \
            ix.resolve_expr(f.module, inv[0].value.func) in ('numpy.linalg.inv', 'numpy.linalg.pinv', 'scipy.linalg.inv') and \
            len(inv[0].value.args) == 1 and unparse(inv[0].value.args[0]) in (unparse(fw[0].value), '%s._matrix' % s)
        ctx.ob(R, f.construct, 'wherever the forward matrix is assigned the inverse is np.linalg.inv of the same matrix', ok,
               detail='%s assigns the forward matrix but sets the inverse to %s: world_to_pixel no longer undoes pixel_to_world'
                      % (f.construct, unparse(inv[0].value) if inv else 'nothing'), where=where(f, fw[0]))
    if n < 1:
        raise AnalysisError('AffineCoordinates: no assignment of the forward matrix found')
    ea = EffectAnalyzer(ix)
    for meth, own, other in (('pixel_to_world_values', '_matrix', '_matrix_inv'), ('world_to_pixel_values', '_matrix_inv', '_matrix')):
        f = aff.resolve_func(meth)
        if f is None:
            raise AnalysisError('AffineCoordinates.%s vanished' % meth)
        mm = [c for c in calls_in(f.node) if call_name(c) in ('matmul', 'dot', 'tensordot', 'einsum')]
        used = set()
        for c in mm:
            for a in c.args:
                for nn in ast.walk(a):
                    if isinstance(nn, ast.Attribute) and nn.attr in ('_matrix', '_matrix_inv'):
                        used.add(nn.attr)
        for nn in ast.walk(f.node):
            if isinstance(nn, ast.BinOp) and isinstance(nn.op, ast.MatMult):
                for x in ast.walk(nn):
                    if isinstance(x, ast.Attribute) and x.attr in ('_matrix', '_matrix_inv'):
                        used.add(x.attr)
        ctx.ob(R, f.construct, '%s multiplies by %s' % (meth, own), used == {own},
               detail='%s multiplies by %s instead of %s: the two directions are no longer inverse to each other'
                      % (f.construct, sorted(used), own), where=f.where)
        # input -> output: the transformed array is what is returned; arg order kept
        p = f.node.args.vararg.arg if f.node.args.vararg else None
        rets = returns_of(f)
        ok = p is not None and bool(rets)
        ctx.ob(R, f.construct + ' signature', 'takes the coordinates as *args', ok, detail='unexpected signature', where=f.where, nontrivial=False)
    for cq in ('glue.core.coordinates.IdentityCoordinates', 'glue.core.coordinates.LegacyCoordinates'):
        c = ix.cls(cq)
        shapes = []
        for meth in ('pixel_to_world_values', 'world_to_pixel_values'):
            f = c.resolve_func(meth)
            if f is None or f.cls is not c:
                raise AnalysisError('%s.%s vanished' % (cq, meth))
            p = f.node.args.vararg.arg
            rets = [unparse(r.value) for r in returns_of(f)]
            ok = set(rets) <= {p, '%s[0]' % p} and bool(rets)
            ctx.ob(R, f.construct, 'returns its input coordinates unchanged', ok,
                   detail='%s returns %s' % (f.construct, rets), where=f.where)
            shapes.append([r.replace(p, '_') for r in rets])
        ctx.ob(R, c.construct, 'both directions have the same shape of result', shapes[0] == shapes[1],
               detail='%s: pixel_to_world returns %s but world_to_pixel %s' % (c.name, shapes[0], shapes[1]), where=c.where)


def rule_b(ctx, ix):
    R = 'C15.b'
    ctx.describe(R, 'per axis: one pixel->world link and one world->pixel link with matching endpoint, index and flag', floor=6)
    data = ix.cls('glue.core.data.Data')
    f = data.resolve_func('_set_up_coordinate_component_links')
    if f is None:
        raise AnalysisError('Data._set_up_coordinate_component_links vanished')
    s = f.self_name
    loops = [n for n in walk_no_nested(f.node) if isinstance(n, ast.For) and 'range(' in unparse(n.iter)]
    if len(loops) != 1:
        raise AnalysisError('_set_up_coordinate_component_links: per-axis loop not recognised')
    lp = loops[0]
    i = unparse(lp.target)
    cs = [c for c in calls_in(lp) if call_name(c) == 'CoordinateComponentLink']
    ctx.ob(R, f.construct, 'two links are created per axis', len(cs) == 2,
           detail='%d CoordinateComponentLink(s) are created per axis' % len(cs), where=where(f, lp))
    P, W = '%s._pixel_component_ids' % s, '%s._world_component_ids' % s
    from ..util import expand_locals

    def X(e):
        # local names for the id lists / the coordinate object are read through
        return unparse(expand_locals(f.node, e))
    fwd = [c for c in cs if X(c.args[0]) == P]
    bwd = [c for c in cs if X(c.args[0]) == W]
    ok = len(fwd) == 1 and X(fwd[0].args[1]) == '%s[%s]' % (W, i) and X(fwd[0].args[3]) == i and \
        (kwarg(fwd[0], 'pixel2world') is None or unparse(kwarg(fwd[0], 'pixel2world')) == 'True') and len(fwd[0].args) <= 4
    ctx.ob(R, f.construct + ' pixel->world', 'pixel ids -> world id i, index i, direction pixel->world', ok,
           detail='the pixel->world link of axis i is built as %s' % (unparse(fwd[0]) if fwd else None), where=where(f, lp))
    ok = len(bwd) == 1 and X(bwd[0].args[1]) == '%s[%s]' % (P, i) and X(bwd[0].args[3]) == i and \
        ((kwarg(bwd[0], 'pixel2world') is not None and unparse(kwarg(bwd[0], 'pixel2world')) == 'False') or
         (len(bwd[0].args) > 4 and unparse(bwd[0].args[4]) == 'False'))
    ctx.ob(R, f.construct + ' world->pixel', 'world ids -> pixel id i, index i, direction world->pixel (flag False)', ok,
           detail='the world->pixel link of axis i is built as %s: with the default flag it computes world from world' % (unparse(bwd[0]) if bwd else None),
           where=where(f, lp))
    for c in cs:
        ctx.ob(R, f.construct + ' coords', 'the link uses the dataset\'s own coordinate object', X(c.args[2]) == '%s.coords' % s,
               detail='a coordinate link is built with %s' % unparse(c.args[2]), where=where(f, c), nontrivial=False)
    apps = [c for c in calls_in(lp) if call_name(c) == 'append']
    # two appends, or one append in a loop over the pair of links just made
    napp = 0
    pm_b = parent_map(f.node)
    for c in apps:
        inner = pm_b.get(id(c))
        while inner is not None and inner is not lp and not isinstance(inner, ast.For):
            inner = pm_b.get(id(inner))
        if isinstance(inner, ast.For) and inner is not lp:
            src = expand_locals(f.node, inner.iter)
            napp += len(src.elts) if isinstance(src, (ast.Tuple, ast.List)) else 0
        else:
            napp += 1
    st = [x for x in walk_no_nested(f.node) if isinstance(x, ast.Assign) and unparse(x.targets[0]) == '%s._coordinate_links' % s]
    ctx.ob(R, f.construct + ' stored', 'both links of every axis are recorded', napp == 2 and len(st) == 1,
           detail='the created links are not all recorded in _coordinate_links', where=f.where)
    # the link class stores what it was given
    ccl = ix.cls('glue.core.component_link.CoordinateComponentLink')
    init = ccl.resolve_func('__init__')
    p = init.params
    stores = {unparse(x.targets[0]): unparse(x.value) for x in walk_no_nested(init.node) if isinstance(x, ast.Assign)}
    s2 = init.self_name
    ok = stores.get('%s.coords' % s2) == p[3] and stores.get('%s.index' % s2) == p[4] and stores.get('%s.pixel2world' % s2) == p[5]
    ctx.ob(R, init.construct, 'coords, index and direction are stored as given', ok,
           detail='CoordinateComponentLink.__init__ stores %s' % {k: v for k, v in stores.items() if k.split('.')[-1] in ('coords', 'index', 'pixel2world')},
           where=init.where)
    d = init.node.args.defaults
    ok = bool(d) and isinstance(d[-1], ast.Constant) and d[-1].value is True
    ctx.ob(R, init.construct + ' default', 'the default direction is pixel->world', ok,
           detail='the default of pixel2world is no longer True', where=init.where, nontrivial=False)


def rule_c(ctx, ix):
    R = 'C15.c'
    ctx.describe(R, 'the direction flag selects the matching single-axis helper with the same index conversion', floor=4)
    ccl = ix.cls('glue.core.component_link.CoordinateComponentLink')
    f = ccl.resolve_func('using')
    if f is None:
        raise AnalysisError('CoordinateComponentLink.using vanished')
    s = f.self_name
    from .. import cond
    from ..util import expand_locals, parent_map as _pm, enclosing
    flag = cond.T('%s.pixel2world' % s)
    pmf = _pm(f.node)
    sites = {}
    for c in calls_in(f.node):
        if call_name(c) in ('pixel2world_single_axis', 'world2pixel_single_axis'):
            st = c
            while st is not None and not isinstance(st, ast.stmt):
                st = pmf.get(id(st))
            pc = cond.path_condition(f.node, st) if st is not None else None
            if pc is not None:
                pc = cond.restrict(pc, lambda k: k == flag[1])
            sites.setdefault(call_name(c), []).append((c, pc))
    if not sites:
        raise AnalysisError('CoordinateComponentLink.using: direction test not recognised')
    tb = [c for c, pc in sites.get('pixel2world_single_axis', [])]
    fb = [c for c, pc in sites.get('world2pixel_single_axis', [])]
    ok = len(tb) == 1 and len(fb) == 1 and \
        all(pc is not None and cond.equivalent(pc, flag) for c, pc in sites.get('pixel2world_single_axis', [])) and \
        all(pc is not None and cond.equivalent(pc, cond.Not(flag)) for c, pc in sites.get('world2pixel_single_axis', []))
    t = tb[0] if tb else (fb[0] if fb else f.node)
    ctx.ob(R, f.construct, 'flag true -> pixel2world_single_axis, false -> world2pixel_single_axis', ok,
           detail='the direction flag selects %s' % {k: [str(pc) for c, pc in v] for k, v in sites.items()}, where=where(f, t))
    if ok:
        ka = kwarg(tb[0], 'world_axis')
        kb = kwarg(fb[0], 'pixel_axis')
        ok2 = ka is not None and kb is not None and norm(expand_locals(f.node, ka)) == norm(expand_locals(f.node, kb))
        ctx.ob(R, f.construct, 'both directions convert the index in the same way', ok2,
               detail='world_axis=%s but pixel_axis=%s' % (unparse(ka) if ka is not None else None, unparse(kb) if kb is not None else None),
               where=where(f, t))
        ctx.ob(R, f.construct, 'both directions pass the same coordinate object and arguments',
               [norm(expand_locals(f.node, a)) for a in tb[0].args] == [norm(expand_locals(f.node, a)) for a in fb[0].args]
               and norm(expand_locals(f.node, tb[0].args[0])) == '%s.coords' % s,
               detail='the two helper calls receive different positional arguments: %s vs %s' % ([unparse(a) for a in tb[0].args], [unparse(a) for a in fb[0].args]),
               where=where(f, t))
    # CoordinateComponent uses the pixel->world helper for world values
    cc = ix.cls('glue.core.component.CoordinateComponent')
    g = cc.resolve_func('_calculate')
    # the transformation is called here or in a method of the class this one hands the positions to (one level)
    bodies = [g]
    for c in calls_in(g.node):
        if isinstance(c.func, ast.Attribute) and unparse(c.func.value) == g.self_name:
            h_ = cc.resolve_func(c.func.attr)
            if h_ is not None and h_ is not g and h_ not in bodies and \
                    any(call_name(x) in ('pixel2world_single_axis', 'world2pixel_single_axis') for x in calls_in(h_.node)):
                bodies.append(h_)
    hs = [call_name(c) for b_ in bodies for c in calls_in(b_.node) if call_name(c) in ('pixel2world_single_axis', 'world2pixel_single_axis')]
    ctx.ob(R, g.construct, 'world attribute values are computed with pixel2world_single_axis', bool(hs) and set(hs) == {'pixel2world_single_axis'},
           detail='CoordinateComponent._calculate uses %s' % hs, where=g.where)
    from ..util import expand_locals as _xl
    axes = {norm(_xl(b_.node, kwarg(c, 'world_axis'))).replace(b_.self_name + '.', 'self.') for b_ in bodies for c in calls_in(b_.node) if call_name(c) == 'pixel2world_single_axis' and kwarg(c, 'world_axis') is not None}
    ctx.ob(R, g.construct + ' axis', 'every helper call asks for the same (converted) axis', len(axes) == 1,
           detail='the helper is called with world_axis in %s' % sorted(axes), where=g.where)


def rule_d(ctx, ix):
    """Which pixel axes a world axis depends on is decided exactly: the broadcasting shortcuts replace every axis declared
    independent by a constant, so a small but non-zero coupling must not be declared independent."""
    R = 'C15.d'
    ctx.describe(R, 'the dependence table of affine coordinates is the exact non-zero pattern of the linear part', floor=2)
    ac = ix.cls('glue.core.coordinates.AffineCoordinates')
    m = ac.resolve('axis_correlation_matrix')
    if m is None or m.fget is None or m.fget.cls is not ac:
        raise AnalysisError('AffineCoordinates.axis_correlation_matrix vanished')
    f = m.fget
    rets = [r.value for r in returns_of(f) if r.value is not None]
    if len(rets) != 1:
        raise AnalysisError('AffineCoordinates.axis_correlation_matrix: return not recognised')
    e = rets[0]
    t = unparse(e).replace(' ', '')
    s = f.self_name
    exact = t in ('%s._matrix[:-1,:-1]!=0' % s, '(%s._matrix[:-1,:-1]!=0)' % s, '%s._matrix[:-1,:-1].astype(bool)' % s)
    tolerant = any(isinstance(c, ast.Call) and call_name(c) in ('isclose', 'allclose', 'around', 'round') for c in ast.walk(e)) or \
        any(isinstance(c, ast.Compare) and isinstance(c.ops[0], (ast.Gt, ast.GtE, ast.Lt, ast.LtE)) for c in ast.walk(e))
    ctx.idiom(R, f.construct, 'a world axis depends on a pixel axis exactly when the matrix term is non-zero', accepted=exact, absent=tolerant,
              detail_absent='AffineCoordinates.axis_correlation_matrix decides dependence with a tolerance (`%s`): a small non-zero scale or '
                            'coupling (a wavelength axis in metres, a pixel scale in radians) is declared independent, and the broadcasting '
                            'shortcuts then make the world attribute constant along that axis' % unparse(e), shape=unparse(e), where=f.where)
    ctx.ob(R, f.construct + ' block', 'the table covers the linear part only (last row / column are the translation)', '[:-1,:-1]' in t,
           detail='AffineCoordinates.axis_correlation_matrix no longer restricts the table to matrix[:-1, :-1]', where=f.where)


# ---------------------------------------------------------------------------------------
# C15.e - index roles of the axis-correlation matrix (rows = world axes, columns = pixel axes)
HELPERS = 'glue.core.coordinate_helpers'
# call sites of dependent_axes whose index role cannot be read off a guard: (function, argument) -> (roles, why)
SITE_ROLES = {
    ('glue.core.component_link:CoordinateComponentLink.__init__', 'index'):
        ({'pixel', 'world'}, 'the index of the output: a world axis for pixel->world links, a pixel axis for world->pixel links'),
    ('glue.viewers.image.viewer:MatplotlibImageMixin._set_wcs', 'ix'): ({'pixel'}, 'x_att is a pixel attribute (PixelComponentID.axis)'),
    ('glue.viewers.image.viewer:MatplotlibImageMixin._set_wcs', 'iy'): ({'pixel'}, 'y_att is a pixel attribute (PixelComponentID.axis)'),
    ('glue.core.fixed_resolution_buffer:translate_pixel', 'comp.axis'):
        ({'world'}, 'pixel attributes returned earlier; the remaining coordinate components are world components'),
}
# what the result of dependent_axes is used as at each site: (function) -> (roles, why)
SITE_RESULT = {
    'glue.core.component:CoordinateComponent._calculate': ({'pixel'}, 'compared with the dimensions of the pixel grid'),
    'glue.core.component_link:CoordinateComponentLink.__init__':
        ({'pixel', 'world'}, 'selects among the input ids: pixel ids for pixel->world links, world ids for world->pixel links'),
    'glue.core.fixed_resolution_buffer:translate_pixel': ({'pixel'}, 'returned as the dimensions of the data whose pixel coordinates were used'),
    'glue.viewers.image.viewer:MatplotlibImageMixin._set_wcs': ({'pixel'}, 'compared with the pixel axes shown'),
    'glue.core.link_manager:is_convertible_to_single_pixel_cid': (set(), 'only the number of dependent axes is used'),
}


def _enclosing_funcs(ix):
    """(construct, FunctionDef, module) for every function / method of the package (nested functions belong to their outer one)."""
    out = []
    # the functions as the index presents them: new private helpers are read where they are called (inlined)
    byraw = {}
    for f in ix.functions.values():
        byraw[id(f.raw_node)] = f
    for c in ix.classes.values():
        for m in c.members.values():
            for f in (m.func, m.fget, m.fset, m.fdel):
                if f is not None:
                    byraw[id(f.raw_node)] = f

    def view(raw):
        f = byraw.get(id(raw))
        if f is None:
            return raw
        if ix.helper_status(f) == 'inlined':
            return None
        return f.node
    for name, mod in sorted(ix.modules.items()):
        for node in mod.tree.body:
            if isinstance(node, (ast.FunctionDef, ast.AsyncFunctionDef)):
                v = view(node)
                if v is not None:
                    out.append(('%s:%s' % (name, node.name), v, mod))
            elif isinstance(node, ast.ClassDef):
                for ch in node.body:
                    if isinstance(ch, (ast.FunctionDef, ast.AsyncFunctionDef)):
                        v = view(ch)
                        if v is not None:
                            out.append(('%s:%s.%s' % (name, node.name, ch.name), v, mod))
    return out


def rule_e(ctx, ix, other_readers=False):
    """Indices of pixel axes and of world axes are not confused when the dependence table is consulted.
    ``other_readers``: also examine functions outside the helper module that read the table themselves (they decide which axes a
    request depends on - the concern of the buffer caches, C16 - not a coordinate value)."""
    from ..roles import ModuleRoles
    R = 'C15.e'
    ctx.describe(R, 'index roles of the dependence table: parameters are used in the role their callers pass, results in the role '
                    'their callers need; the inverse direction does not read the forward table as if it were its own', floor=12)
    mod = ix.module(HELPERS)
    from ..index import fold_return_temps
    funcs = {}
    for n in mod.tree.body:
        if isinstance(n, ast.FunctionDef):
            fo = ix.functions.get('%s.%s' % (HELPERS, n.name))
            if fo is not None and fo.raw_node is n:
                if ix.helper_status(fo) == 'inlined':
                    continue            # a new private helper: read where it is called
                funcs[n.name] = fo.node
            else:
                funcs[n.name] = fold_return_temps(n)
    for need in ('pixel2world_single_axis', 'world2pixel_single_axis', 'dependent_axes'):
        if need not in funcs:
            raise AnalysisError('%s.%s vanished' % (HELPERS, need))
    mr = ModuleRoles(funcs)
    # (i) parameters that name their role
    for fname in sorted(funcs):
        for p in mr.params(fname):
            decl = 'world' if p == 'world_axis' else ('pixel' if p == 'pixel_axis' else None)
            if decl is None:
                continue
            roles = mr.roles_of(fname, p)
            if not roles:
                continue
            ctx.ob(R, '%s:%s(%s)' % (HELPERS, fname, p), 'the parameter %s indexes %s axes only' % (p, decl), roles == {decl},
                   detail='%s uses its parameter %s as the index of a %s axis of the dependence table (rows are world axes, columns are '
                          'pixel axes)' % (fname, p, '/'.join(sorted(roles - {decl}))), where='%s:%d' % (mod.relpath, funcs[fname].lineno))
    for fname, p in (('pixel2world_single_axis', 'world_axis'), ('world2pixel_single_axis', 'pixel_axis')):
        if not mr.roles_of(fname, p):
            raise AnalysisError('%s no longer consults the dependence table with %s' % (fname, p))
    # (ii) + (iii) call sites of dependent_axes
    prole = mr.roles_of('dependent_axes', mr.params('dependent_axes')[1])
    rrole = set()
    for ks in mr.ret['dependent_axes']:
        rrole |= {'world' for k in ks if k in ('Wi',)} | {'pixel' for k in ks if k in ('Pi',)}
    if not prole:
        raise AnalysisError('dependent_axes: the role of its axis parameter cannot be inferred')
    # the index given to dependent_axes can be that of a pixel axis or of a world axis: it seeds the closure on both sides, each
    # side whenever it is a valid index there - not "the world side only if it is no pixel index"
    from .. import cond as _cd
    dnode = funcs['dependent_axes']
    axis_p = mr.params('dependent_axes')[1]
    sizes = {}
    for st in walk_no_nested(dnode):
        if isinstance(st, ast.Assign) and len(st.targets) == 1 and isinstance(st.targets[0], ast.Name) and isinstance(st.value, ast.Call) \
                and unparse(st.value.func) in ('np.zeros', 'np.ones', 'np.full') and st.value.args:
            sizes[st.targets[0].id] = unparse(st.value.args[0])
    seeds = [st for st in walk_no_nested(dnode) if isinstance(st, ast.Assign) and isinstance(st.targets[0], ast.Subscript)
             and isinstance(st.targets[0].value, ast.Name) and unparse(st.targets[0].slice) == axis_p
             and mr.env['dependent_axes'].get(st.targets[0].value.id, set()) & {'Pv', 'Wv'}]
    if len(seeds) >= 2:
        for st in seeds:
            v = st.targets[0].value.id
            others = {sz for k, sz in sizes.items() if k != v and sz != sizes.get(v)}
            pc = _cd.path_condition(dnode, st, expand=True) or ('const', True)
            foreign = sorted(a for a in _cd.atoms(pc) if any(o in a.split('|')[1:] for o in others))
            ctx.ob(R, '%s:dependent_axes seed %s' % (HELPERS, v), 'the index seeds this side of the closure whenever it is a valid index on this side', not foreign,
                   detail='dependent_axes seeds `%s[%s]` only under `%s`, a condition on the size of the OTHER kind of axis: for a '
                          'transformation that permutes axes (world axis i does not depend on pixel axis i) the closure starts from one '
                          'side only, a needed pixel axis is treated as independent and replaced by a constant' % (v, axis_p, pc),
                   where='%s:%d' % (mod.relpath, getattr(st, '_orig_lineno', st.lineno)))
    nsites = 0
    for construct, node, m in _enclosing_funcs(ix):
        if m.name == HELPERS:
            continue
        pm = None
        for c in ast.walk(node):
            if not (isinstance(c, ast.Call) and call_name(c) == 'dependent_axes' and len(c.args) == 2):
                continue
            nsites += 1
            arg = c.args[1]
            txt = unparse(arg)
            roles = None
            why = ''
            if isinstance(arg, ast.Attribute) and arg.attr == 'axis':
                # the role is read off the condition under which the call runs (whichever way the branches are written)
                from .. import cond as _c
                pm = pm or parent_map(node)
                st_ = c
                while st_ is not None and not isinstance(st_, ast.stmt):
                    st_ = pm.get(id(st_))
                pc_ = _c.path_condition(node, st_, expand=False) if st_ is not None else None
                if pc_ is not None:
                    for a_ in sorted(_c.atoms(pc_)):
                        try:
                            pos, neg = _c.implies(pc_, _c.T(a_)), _c.implies(pc_, _c.Not(_c.T(a_)))
                        except ValueError:
                            continue
                        if (a_.endswith('.world') or 'world_component_ids' in a_) and pos:
                            roles, why = {'world'}, 'runs only when `%s`' % a_
                        elif 'pixel_component_ids' in a_ and pos:
                            roles, why = {'pixel'}, 'runs only when `%s`' % a_
                        if roles:
                            break
            if roles is None and (construct, txt) in SITE_ROLES:
                roles, why = SITE_ROLES[(construct, txt)]
            if roles is None:
                # the rows name the argument up to the renaming of locals
                from ..util import alpha as _alpha
                for (c_, t_), v_ in SITE_ROLES.items():
                    if c_ == construct and _alpha(t_) == _alpha(arg):
                        roles, why = v_
            if roles is None:
                raise AnalysisError('C15.e: the role of the index `%s` passed to dependent_axes in %s is not known (new call site)' % (txt, construct))
            ctx.ob(R, '%s dependent_axes(%s)' % (construct, txt),
                   'the index passed (%s: %s) is used by dependent_axes in that role' % ('/'.join(sorted(roles)), why), roles <= prole,
                   detail='%s passes the index of a %s axis (`%s`: %s) to dependent_axes, which uses it as the index of a %s axis of the '
                          'dependence table: for coordinates whose dependence pattern is not symmetric (permuted or sheared axes) the '
                          'wrong axes are treated as independent and replaced by a constant'
                          % (construct, '/'.join(sorted(roles - prole)), txt, why, '/'.join(sorted(prole))), where='%s:%d' % (m.relpath, c.lineno))
            if construct not in SITE_RESULT:
                raise AnalysisError('C15.e: the use of the result of dependent_axes in %s is not classified (new call site)' % construct)
            needr, whyr = SITE_RESULT[construct]
            if needr:
                ctx.ob(R, '%s dependent_axes(%s) result' % (construct, txt),
                       'the axes returned are indices of the role the caller uses them in (%s: %s)' % ('/'.join(sorted(needr)), whyr), needr <= rrole,
                       detail='%s uses the result of dependent_axes as indices of %s axes (%s), but dependent_axes returns indices of %s axes'
                              % (construct, '/'.join(sorted(needr - rrole)), whyr, '/'.join(sorted(rrole)) or 'unknown role'),
                       where='%s:%d' % (m.relpath, c.lineno))
    if nsites < 5:
        raise AnalysisError('C15.e: only %d call sites of dependent_axes found' % nsites)
    # (iii') readers of the dependence table outside the helper module (a local shortcut instead of dependent_axes): the index
    # they select a row / column with must be of that kind at that place
    for construct, node, m in (_enclosing_funcs(ix) if other_readers else ()):
        if m.name in (HELPERS, 'glue.core.coordinates') or '.tests' in m.name:
            continue
        if not any(isinstance(x, ast.Attribute) and x.attr == 'axis_correlation_matrix' for x in ast.walk(node)):
            continue
        mr2 = ModuleRoles({node.name: node})
        uses = getattr(mr2, 'index_uses', {}).get(node.name, [])
        if not uses:
            raise AnalysisError('C15.e: %s reads the dependence table in a way that is not recognised (new reader)' % construct)
        pm2 = parent_map(node)
        for sel, kind in uses:
            used = 'world' if kind == 'Wi' else 'pixel'
            txt = unparse(sel)
            actual = None
            if (construct, txt) in SITE_ROLES:
                actual = SITE_ROLES[(construct, txt)][0]
            elif isinstance(sel, ast.Attribute) and sel.attr == 'axis':
                st_ = sel
                while st_ is not None and not isinstance(st_, ast.stmt):
                    st_ = pm2.get(id(st_))
                pc_ = _cd.path_condition(node, st_, expand=False) if st_ is not None else None
                for a_ in sorted(_cd.atoms(pc_)) if pc_ is not None else ():
                    try:
                        pos = _cd.implies(pc_, _cd.T(a_))
                    except ValueError:
                        continue
                    if pos and (a_.endswith('.world') or 'world_component_ids' in a_):
                        actual = {'world'}
                    elif pos and 'pixel_component_ids' in a_:
                        actual = {'pixel'}
            if actual is None:
                raise AnalysisError('C15.e: the kind of the index `%s` with which %s reads the dependence table is not known (new reader)' % (txt, construct))
            ctx.ob(R, '%s table[%s]' % (construct, txt), 'the dependence table is read with an index of the kind of that dimension', actual <= {used},
                   detail='%s selects a %s of the dependence table with `%s`, which is the index of a %s axis there (rows are world axes, '
                          'columns are pixel axes): for coordinates whose dependence pattern is not symmetric the wrong axes are '
                          'reported as the ones the coordinate depends on' % (construct, 'row' if used == 'world' else 'column', txt,
                                                                            '/'.join(sorted(actual))),
                   where='%s:%d' % (m.relpath, getattr(sel, 'lineno', node.lineno)))
    # (iv) forward table read in the inverse direction
    for fname, dep_kind, direct_ok, what in (('pixel2world_single_axis', 'Pv', True, 'pixel inputs a world axis depends on: its row of the table'),
                                             ('world2pixel_single_axis', 'Wv', False, 'world inputs a pixel axis depends on: not its column '
                                              '(the table says which pixel axes each WORLD axis depends on) but every world axis coupled to it')):
        f = funcs[fname]
        tests = [x.test for x in ast.walk(f) if isinstance(x, (ast.If, ast.IfExp, ast.While))] + \
                [i for x in ast.walk(f) if isinstance(x, ast.comprehension) for i in x.ifs]
        deps = [v for v, ks in mr.env[fname].items() if dep_kind in ks and
                any(isinstance(s_, ast.Subscript) and isinstance(s_.value, ast.Name) and s_.value.id == v
                    for t_ in tests for s_ in ast.walk(t_))]
        if len(deps) != 1:
            raise AnalysisError('%s: the vector deciding which inputs are replaced by a constant is not recognised (%s)' % (fname, deps))
        v = deps[0]
        direct = v in mr.direct[fname]
        via_closure = False
        for st in walk_no_nested(f):
            if isinstance(st, ast.Assign) and any(isinstance(t, ast.Name) and t.id == v for t in st.targets):
                for c in ast.walk(st.value):
                    if isinstance(c, ast.Call) and isinstance(c.func, ast.Name) and c.func.id in funcs and \
                            any(isinstance(w, ast.While) for w in ast.walk(funcs[c.func.id])):
                        via_closure = True
        if direct_ok:
            ctx.idiom(R, '%s:%s %s' % (HELPERS, fname, v), what, accepted=direct or via_closure, absent=False, detail_absent='', shape=v,
                      where='%s:%d' % (mod.relpath, f.lineno))
        else:
            ctx.idiom(R, '%s:%s %s' % (HELPERS, fname, v), what, accepted=via_closure and not direct, absent=direct,
                      detail_absent='%s decides which world inputs may be replaced by a constant from the column of the forward table '
                                    '(`%s`): the table lists the pixel axes each world axis depends on, and its column is not the set of '
                                    'world axes a pixel axis depends on - for a sheared (triangular) matrix a needed world coordinate is '
                                    'frozen at its first value and world-to-pixel no longer undoes pixel-to-world'
                                    % (fname, norm(mr.direct[fname][v][0]) if direct else ''), shape=v, where='%s:%d' % (mod.relpath, f.lineno))


TRANSFORM_SINKS = ('pixel2world_single_axis', 'world2pixel_single_axis', 'pixel_to_world_values', 'world_to_pixel_values', '_world_at_pixel_positions',
                   'pixel_to_world', 'world_to_pixel')


def rule_f(ctx, ix):
    """The entries of the caller's view are indices: they reach the pixel coordinates handed to the transformation only through
    an indexing operation on the pixel axis (or normalised against the axis length), never as coordinate values."""
    from ..flow import Flow
    from ..relidx import make_classifier, REL, ABS, bind_iteration
    R = 'C15.f'
    ctx.describe(R, 'view entries reach the transformation as positions on the pixel axis, not as raw (possibly negative) indices', floor=2)
    cc = ix.cls('glue.core.component.CoordinateComponent')
    f = cc.resolve_func('_calculate')
    if f is None:
        raise AnalysisError('CoordinateComponent._calculate vanished')
    params = f.params
    if len(params) < 2:
        raise AnalysisError('CoordinateComponent._calculate has no view parameter')
    view_p = params[1]
    classify = make_classifier({view_p})
    sinks = []

    def on_stmt(st, state):
        exprs = [st]
        if isinstance(st, (ast.If, ast.While)):
            exprs = [st.test]
        elif isinstance(st, (ast.For, ast.AsyncFor)):
            exprs = [st.iter]
        elif isinstance(st, (ast.With, ast.AsyncWith)):
            exprs = [i.context_expr for i in st.items]
        if isinstance(st, ast.Expr) and isinstance(st.value, ast.Call) and isinstance(st.value.func, ast.Attribute) \
                and st.value.func.attr in ('append', 'extend', 'insert') and isinstance(st.value.func.value, ast.Name):
            nm = st.value.func.value.id
            tg = set()
            for a in st.value.args[-1:]:
                tg |= classify(a, state)
            state[nm] = frozenset(set(state.get(nm, frozenset())) | tg)
        for e in exprs:
            for c in ast.walk(e):
                if isinstance(c, ast.Call) and call_name(c) in TRANSFORM_SINKS:
                    sinks.append((c, dict(state)))
    fl = Flow(classify, on_stmt=on_stmt)
    fl.run(f.node, {view_p: frozenset([REL])})
    seen = set()
    n = 0
    for c, state in sinks:
        if id(c) in seen:
            continue
        seen.add(id(c))
        n += 1
        args = list(c.args)
        if call_name(c).endswith('_single_axis') and args:
            args = args[1:]
        bad = [a for a in args if REL in classify(a, state)]
        ctx.ob(R, '%s `%s(...)`' % (f.construct, call_name(c)) + (' #%d' % n if n > 1 else ''),
               'the pixel coordinates passed to the transformation are positions on the axis (np.arange(n)[index] or normalised), not raw view entries',
               not bad,
               detail='`%s` receives `%s`, which carries entries of the caller\'s view as they were supplied: a negative index (counted '
                      'from the end by every other attribute kind) is transformed as the pixel coordinate -1, -2, ..., so the world '
                      'attribute seen through that view differs from the same view of the full array'
                      % (norm(c)[:80], ', '.join(norm(a) for a in bad)), where=where(f, c))
    if n < 2:
        raise AnalysisError('CoordinateComponent._calculate: only %d calls of the coordinate transformation found' % n)
    # index arrays of a view may have different (broadcastable) shapes - np.ix_ - and numpy indexing broadcasts them.  The
    # single-axis transformation shapes its result after its FIRST input, so on the index-array path the positions have to be
    # brought to a common shape before (unless the transformation does so itself)
    from .. import cond as _cd
    from ..util import expand_locals
    helper = ix.func(HELPERS + '.pixel2world_single_axis')
    shp = [st for st in walk_no_nested(helper.node) if isinstance(st, ast.Assign) and isinstance(st.targets[0], ast.Name)
           and 'shape' in st.targets[0].id and '.shape' in unparse(st.value)]
    helper_broadcasts = bool(shp) and all('broadcast' in unparse(st.value) for st in shp)
    pm = parent_map(f.node)
    narr = 0
    for c, state in sinks:
        st_ = c
        while st_ is not None and not isinstance(st_, ast.stmt):
            st_ = pm.get(id(st_))
        pc = _cd.path_condition(f.node, st_, expand=False) if st_ is not None else None
        if pc is None:
            continue
        arr = [a for a in _cd.atoms(pc) if a.startswith('isinstance(') and 'ndarray' in a and view_p in a]
        try:
            on_array_path = any(_cd.implies(pc, _cd.T(a)) for a in arr)
        except ValueError:
            on_array_path = False
        if not on_array_path:
            continue
        narr += 1
        txt = ' '.join(unparse(expand_locals(f.node, a)) for a in c.args)
        ok = helper_broadcasts or any(k in txt for k in ('broadcast_arrays', 'np.broadcast(', 'meshgrid'))
        ctx.ob(R, '%s index arrays' % f.construct, 'index arrays of a view are broadcast against each other before they are transformed', ok,
               detail='on the index-array path `%s` is handed the positions of each axis with the shapes the caller\'s index arrays have: '
                      'for data[world, np.ix_(rows, cols)] these are (n, 1) and (1, m), the transformation shapes its result after the '
                      'first, and the request raises ValueError instead of returning full[view]' % norm(c)[:80], where=where(f, c))
    if narr < 1:
        raise AnalysisError('CoordinateComponent._calculate: the index-array path is no longer recognised')


def rule_g(ctx, ix):
    """The single-axis transformations flatten their input for 1-d coordinate objects and reshape the result: one element order."""
    R = 'C15.g'
    ctx.describe(R, 'flatten / reshape pairs around the coordinate transformation use the same (C) element order', floor=2)
    n = common.check_element_order(ctx, R, ix, [HELPERS], what='the transformed values are put back with a C-order reshape')
    if n < 2:
        raise AnalysisError('C15.g: only %d flatten / reshape calls in %s' % (n, HELPERS))


def rule_h(ctx, ix):
    """dependent_axes is the transitive closure of the coupling between pixel and world axes, computed by iterating two masks.
    The iteration may stop only at a fixed point of *both* masks: a pixel axis added in the last round can still bring in a world axis."""
    from .. import cond
    R = 'C15.h'
    ctx.describe(R, 'the closure loop behind dependent_axes stops only when neither mask grew', floor=2)
    f = ix.func('glue.core.coordinate_helpers._coupled_axes')
    loops = [w for w in walk_no_nested(f.node) if isinstance(w, ast.While)]
    if len(loops) != 1:
        raise AnalysisError('_coupled_axes: expected one closure loop')
    lp = loops[0]
    carried = {}
    for st in ast.walk(lp):
        if isinstance(st, ast.Assign) and isinstance(st.targets[0], ast.Tuple) and isinstance(st.value, ast.Tuple):
            for t, v in zip(st.targets[0].elts, st.value.elts):
                if isinstance(t, ast.Name) and isinstance(v, ast.Name) and t.id != v.id:
                    carried[t.id] = v.id
        elif isinstance(st, ast.Assign) and isinstance(st.targets[0], ast.Name) and isinstance(st.value, ast.Name) \
                and st.value.id.endswith(st.targets[0].id) and st.value.id != st.targets[0].id:
            carried[st.targets[0].id] = st.value.id
    if len(carried) < 2:
        raise AnalysisError('_coupled_axes: the loop-carried masks are no longer recognised (%s)' % carried)
    # boolean flags of the loop, written out (`converged = A and B` ... `while not converged`)
    flags = {}
    for st in ast.walk(lp):
        if isinstance(st, ast.Assign) and len(st.targets) == 1 and isinstance(st.targets[0], ast.Name) and st.targets[0].id not in carried \
                and isinstance(st.value, (ast.BoolOp, ast.Call, ast.Compare, ast.UnaryOp)):
            flags.setdefault(st.targets[0].id, []).append(st.value)

    def subst(fm, depth=0):
        if fm[0] == 'atom' and fm[1] in flags and len(flags[fm[1]]) == 1 and depth < 4:
            return subst(cond.formula(flags[fm[1]][0]), depth + 1)
        if fm[0] in ('and', 'or'):
            return (fm[0],) + tuple(subst(x, depth) for x in fm[1:])
        if fm[0] == 'not':
            return cond.Not(subst(fm[1], depth))
        return fm
    exits = [(x, subst(cond.path_condition(f.node, x, expand=False) or ('const', True))) for x in ast.walk(lp) if isinstance(x, (ast.Return, ast.Break))]
    if not (isinstance(lp.test, ast.Constant) and lp.test.value):
        exits.append((lp, subst(cond.Not(cond.formula(lp.test)))))
    if not exits:
        raise AnalysisError('_coupled_axes: the loop has no exit')
    for ex, pc in exits:
        txt = ' '.join(sorted(cond.atoms(pc)))
        what = norm(ex)[:40] if not isinstance(ex, ast.While) else 'while %s' % unparse(ex.test)
        for old_, new_ in sorted(carried.items()):
            # the exit decides the comparison of this mask with its successor (whichever way the comparison is written)
            cmp_atoms = [a for a in cond.atoms(pc) if _mentions(a, old_) and _mentions(a, new_)]
            ok = any(cond.implies(pc, cond.T(a)) or cond.implies(pc, cond.Not(cond.T(a))) for a in cmp_atoms)
            ctx.ob(R, '%s exit `%s` / %s' % (f.construct, what, old_), 'the exit compares %s with %s' % (new_, old_), ok,
                   detail='_coupled_axes leaves its closure loop under `%s`, which does not settle the comparison of `%s` with `%s`: the loop can '
                          'stop in a round in which that mask still grew, so axes coupled through a chain (a triangular matrix) are left out '
                          'of dependent_axes and the coordinate links ignore an axis they depend on' % (txt[:160], new_, old_),
                   where=where(f, ex))


def _mentions(atom, name):
    import re
    return re.search(r'(?<![A-Za-z0-9_])%s(?![A-Za-z0-9_])' % re.escape(name), atom) is not None
