"""C05 - results always reflect the current data, regions and links: never a stale cache."""
import ast

from ..index import AnalysisError, dotted_chain, norm, unparse, walk_no_nested, body_stmts
from ..effects import EffectAnalyzer
from ..fieldflow import base_field
from ..cfg import CFG, EXIT
from ..util import calls_in, call_name, where, returns_of, parent_map, enclosing, kwarg
from .. import props
from . import common

props.prop(
    'C05',
    explanation='Static (ast) pairing of every value/definition mutation with cache invalidation: the set of '
                '@memoize\'d functions is read from the decorators; each site that replaces component values or '
                'the shape must be followed on every normal path (CFG must-pass-through) by an invalidation whose '
                'coverage is all memo caches; every mutator of a memoised selection (effect summaries with property, '
                'call, deep-mutation and __setattr__-hook expansion) must reach an invalidation; hand-rolled cache '
                'keys must contain every input of the cached computation.',
    decides='that replacing values / refreshing a dataset / re-adding an attribute invalidates every memoised mask '
            '(not only the top-level one), that setters and move_to of memoised selections invalidate, and that the '
            'flood-fill, histogram and profile caches are keyed (or reset) on everything their result depends on; that the '
            'array reducers never write an argument (a possibly memoised mask) in place',
    not_decided='staleness through objects shared by reference (an ROI edited in place behind a memoised state), '
                'writes to public attributes from outside the class, array contents mutated behind update_components',
    assumptions=['memo caches are only created by glue.core.decorators.memoize'])
props.also('C05',
           'that the array reducers never write a possibly memoised argument in place; that arrays read from a hand-rolled cache of a viewer state are copied before they are changed in place')

MEMOIZE = 'glue.core.decorators.memoize'
DECOS = 'glue.core.decorators'


def run(ctx):
    ix = ctx.index
    inv = Invalidation(ix)
    ctx.guard(rule_a, ctx, ix, inv)
    ctx.guard(rule_b, ctx, ix, inv)
    ctx.guard(rule_b_hook, ctx, ix, inv)
    ctx.guard(rule_c, ctx, ix)
    ctx.guard(rule_d, ctx, ix)
    ctx.guard(rule_f, ctx, ix)
    ctx.guard(rule_g, ctx, ix)
    # a link replaced behind the "unchanged" shortcut leaves the memoised masks of linked attributes in place
    from ..report import BorrowedCtx
    from .C03 import rule_e as _shortcut
    ctx.guard(_shortcut, BorrowedCtx(ctx, {'C03.e': 'C05.e'}), ix, ('_set_externally_derivable_components',))


class Invalidation(object):
    """What counts as clearing memo caches, and with which coverage."""

    def __init__(self, ix):
        self.ix = ix
        self.memoized = []
        for c in ix.classes.values():
            for m in c.members.values():
                f = m.func
                if f is not None and MEMOIZE in f.decorators:
                    self.memoized.append(f)
        for f in ix.functions.values():
            if MEMOIZE in f.decorators:
                self.memoized.append(f)
        self.memoized.sort(key=lambda f: f.qualname)
        # registry-wide clearing functions: iterate a module-level list that memoize() appends to, and .clear()
        self.clear_all = set()
        mod = ix.module(DECOS)
        mem = ix.func(MEMOIZE)
        registries = set()
        for n in walk_no_nested(mem.node):
            if isinstance(n, ast.Call) and isinstance(n.func, ast.Attribute) and n.func.attr in ('append', 'add') \
                    and isinstance(n.func.value, ast.Name) and n.func.value.id in mod.assigns:
                registries.add(n.func.value.id)
        for f in ix.functions.values():
            if f.module is not mod:
                continue
            for lp in [n for n in walk_no_nested(f.node) if isinstance(n, ast.For)]:
                if isinstance(lp.iter, ast.Name) and lp.iter.id in registries and \
                        any(isinstance(c, ast.Call) and call_name(c) == 'clear' for c in ast.walk(lp)):
                    self.clear_all.add(f.qualname)
        self.clear_one = {DECOS + '.clear_cache'}

    def classify_call(self, module, call):
        """'all' | 'one' | None for a call node."""
        q = self.ix.resolve_expr(module, call.func)
        if q in self.clear_all:
            return 'all'
        if q in self.clear_one:
            return 'one'
        return None

    def names(self):
        return {q.rpartition('.')[2] for q in self.clear_all | self.clear_one}


# ---------------------------------------------------------------------------------------
VALUE_MUTATORS = [
    # (class, method, description of the write, predicate on statements)
    ('glue.core.data.Data', 'update_components', 'component values replaced'),
    ('glue.core.data.Data', 'update_values_from_data', 'component values / shape replaced'),
    ('glue.core.data.Data', 'add_component', 'an existing attribute re-bound to new values'),
    ('glue.core.data.BaseCartesianData', '_set_externally_derivable_components', 'linked attributes re-derived through other links'),
]


def _is_value_write(st, selfname):
    """Stores that change what a memoised mask was computed from."""
    if not isinstance(st, ast.Assign):
        return None
    for t in st.targets:
        if isinstance(t, ast.Attribute) and t.attr == '_data' and not (isinstance(t.value, ast.Name) and t.value.id == selfname):
            return 'values of a component (%s)' % unparse(t)
        if isinstance(t, ast.Attribute) and t.attr == '_shape' and isinstance(t.value, ast.Name) and t.value.id == selfname:
            return 'the dataset shape'
        if isinstance(t, ast.Subscript) and isinstance(t.value, ast.Attribute) and t.value.attr == '_components' \
                and isinstance(t.value.value, ast.Name) and t.value.value.id == selfname:
            return 'the component bound to an identifier (%s)' % unparse(t)
        if isinstance(t, ast.Attribute) and t.attr == '_externally_derivable_components' and isinstance(t.value, ast.Name) \
                and t.value.id == selfname:
            return 'the links through which foreign attributes are derived'
    return None


def rule_a(ctx, ix, inv):
    R = 'C05.a'
    ctx.describe(R, 'every value mutation is followed on all normal paths by an invalidation covering all memo caches', floor=5)
    if len(inv.memoized) < 5:
        raise AnalysisError('only %d @memoize sites found' % len(inv.memoized))
    ctx.ob(R, 'glue.core.decorators:memoize', '%d memoised functions enumerated' % len(inv.memoized), True, nontrivial=False)
    nested = [f for f in inv.memoized if f.cls is not None and f.cls.name in ('CompositeSubsetState', 'InvertState', 'MultiOrState')]
    for cq, meth, what in VALUE_MUTATORS:
        cls = ix.cls(cq)
        f = cls.resolve_func(meth)
        if f is None:
            raise AnalysisError('%s.%s vanished' % (cq, meth))
        selfname = f.self_name
        cfg = CFG(f.node)
        writes = []
        for n, st in cfg.stmt.items():
            if st is None or cfg.kind[n] != 'stmt':
                continue
            w = _is_value_write(st, selfname)
            if w:
                # in Data.__init__-style code paths shape initialisation from () is not a change of values
                if meth == 'add_component' and 'shape' in w:
                    continue
                writes.append((n, st, w))
        if not writes:
            raise AnalysisError('%s: no value write recognised (anchor changed)' % f.construct)
        inval_all, inval_one = [], []
        for n, st in cfg.stmt.items():
            if st is None:
                continue
            hdr = st
            if cfg.kind[n] in ('if', 'while'):
                hdr = st.test
            elif cfg.kind[n] == 'for':
                hdr = st.iter
            elif cfg.kind[n] == 'with':
                hdr = ast.Tuple(elts=[i.context_expr for i in st.items], ctx=ast.Load())
            elif cfg.kind[n] in ('try', 'except', 'def'):
                continue
            for c in [x for x in ast.walk(hdr) if isinstance(x, ast.Call)]:
                k = inv.classify_call(f.module, c)
                if k == 'all':
                    inval_all.append(n)
                elif k == 'one':
                    inval_one.append((n, c))
        # pruned edges: the false branch of ``if is_present`` (nothing was replaced on that path)
        # a local that remembers, from BEFORE the store, whether the key was already bound (`present = key in self._components`)
        pruned = set()
        from .. import cond as _c
        from ..util import single_assignments as _sa
        defs_ = _sa(f.node)
        remembered = {}
        for nm, v in defs_.items():
            if isinstance(v, ast.Compare) and len(v.ops) == 1 and isinstance(v.ops[0], (ast.In, ast.NotIn)) and \
                    unparse(v.comparators[0]) == '%s._components' % selfname:
                dl = [st_.lineno for st_ in ast.walk(f.node) if isinstance(st_, ast.Assign) and len(st_.targets) == 1
                      and isinstance(st_.targets[0], ast.Name) and st_.targets[0].id == nm]
                if dl and all(dl[0] < st_.lineno for n_, st_, w_ in writes if 'identifier' in w_):
                    remembered[nm] = isinstance(v.ops[0], ast.In)
        for n, st in cfg.stmt.items():
            if cfg.kind.get(n) == 'if':
                fm = _c.formula(st.test)
                for nm, positive in remembered.items():
                    try:
                        if _c.equivalent(fm, _c.T(nm)):
                            pruned.add((n, 'false' if positive else 'true'))
                        elif _c.equivalent(fm, _c.Not(_c.T(nm))):
                            pruned.add((n, 'true' if positive else 'false'))
                    except ValueError:
                        pass
        for n, st, w in writes:
            path = cfg.path_avoiding(n, EXIT, avoid=set(inval_all), labels_excluded=('exc', 'raise'), pruned_edges=pruned)
            if path is None:
                ctx.ob(R, '%s `%s`' % (f.construct, norm(st)), 'write of %s is followed by a full invalidation' % w, True)
                continue
            # is there at least a partial invalidation?
            partial = [c for (m, c) in inval_one]
            if partial:
                detail = ('%s replaces %s, but the only invalidation that follows is %s, which clears the cache of one '
                          'function: memoised masks of nested selections (%s) keep their old values'
                          % (f.construct, w, ', '.join(sorted({norm(c) for c in partial})),
                             ', '.join(sorted({g.cls.name + '.to_mask' for g in inv.memoized if g.cls is not None})[:4]) + ', ...'))
            else:
                detail = ('%s replaces %s and reaches its exit without invalidating the memoised masks (%d @memoize '
                          'functions)' % (f.construct, w, len(inv.memoized)))
            ctx.ob(R, '%s `%s`' % (f.construct, norm(st)), 'write of %s is followed by a full invalidation' % w, False,
                   detail=detail, where=where(f, st), path=cfg.guards_on_path(path))
        # ... and before anybody is told: listeners react to the announcement by re-evaluating masks
        from ..announce import Announcer
        an = Announcer(ctx, f)
        bnodes = [n for n, m, c in an.broadcast_nodes()]
        for n, st, w in writes:
            for b in bnodes:
                p2 = cfg.path_avoiding(n, b, avoid=set(inval_all), labels_excluded=('exc', 'raise'), pruned_edges=pruned)
                if p2 is None:
                    ctx.ob(R, '%s `%s` before broadcast' % (f.construct, norm(st)), 'the caches are invalidated before the change is announced', True)
                else:
                    ctx.ob(R, '%s `%s` before broadcast' % (f.construct, norm(st)), 'the caches are invalidated before the change is announced', False,
                           detail='%s replaces %s and broadcasts the change (`%s`) before invalidating the memoised masks: every '
                                  'listener that re-evaluates a selection in its handler (viewers do) still gets the mask of the old values'
                                  % (f.construct, w, norm(cfg.stmt[b])), where=where(f, cfg.stmt[b]), path=cfg.guards_on_path(p2))


# ---------------------------------------------------------------------------------------
def rule_b(ctx, ix, inv):
    R = 'C05.b'
    ctx.describe(R, 'every mutator of a memoised selection reaches an invalidation', floor=15)
    base = ix.cls('glue.core.subset.SubsetState')
    roi = ix.cls('glue.core.roi.Roi')
    fam_states = base.subclasses()
    deep = {'state1': fam_states, 'state2': fam_states, 'states': fam_states, 'roi': roi.subclasses(),
            '_roi': roi.subclasses()}
    ea = EffectAnalyzer(ix, deep_families=deep)
    clear_names = inv.names()
    memo_classes = [c for c in fam_states if c.resolve_func('to_mask') is not None
                    and MEMOIZE in c.resolve_func('to_mask').decorators]
    if len(memo_classes) < 5:
        raise AnalysisError('only %d selection classes with a memoised to_mask found' % len(memo_classes))
    # every selection can be nested inside a memoised composite (CompositeSubsetState, InvertState, MultiOrState hold
    # arbitrary children), so the mutators of *all* selection classes are obliged, not only those of memoised ones
    nests = any(c.name in ('CompositeSubsetState', 'MultiOrState') for c in memo_classes)
    for c in fam_states:
        tm = c.resolve_func('to_mask')
        if tm is None:
            continue
        if MEMOIZE not in tm.decorators and not nests:
            continue
        reads = {base_field(r) for r in ea.func_effects(c, tm).reads}
        seen = set()
        for k in c.mro():
            for name, m in sorted(k.members.items()):
                if name in seen:
                    continue
                seen.add(name)
                if name in ('__init__', 'copy', 'to_mask', '__setattr__') or name.startswith('__setgluestate'):
                    continue
                funcs = []
                if m.kind == 'property':
                    if m.fset is not None:
                        funcs.append((m.fset, 'setter of ' + name))
                    if m.fdel is not None:
                        funcs.append((m.fdel, 'deleter of ' + name))
                elif m.kind == 'method' and m.func is not None:
                    funcs.append((m.func, name))
                for fn, label in funcs:
                    eff = ea.func_effects(c, fn)
                    hit = sorted({base_field(w) for w in eff.writes} & reads)
                    if not hit:
                        continue
                    cleared = any(q.rpartition('.')[2] in clear_names for q, _ in eff.ext_calls)
                    ctx.ob(R, '%s.%s' % (fn.cls.construct, fn.name) + (' (setter)' if 'setter' in label else ''),
                           '%s of %s changes %s, which its to_mask (memoised itself or through an enclosing composite) reads, and invalidates' % (label, c.name, hit),
                           cleared,
                           detail="%s (%s) changes field(s) %s that %s reads, and reaches no "
                                  'cache invalidation: masks evaluated before the change (its own if memoised, or those of a '
                                  'composite selection that contains it) are returned afterwards'
                                  % (fn.construct, label, hit, tm.construct), where=where(fn))


def rule_b_hook(ctx, ix, inv):
    """The attribute hook that covers plain re-assignments: its invalidation may only depend on "was this attribute set before"."""
    R = 'C05.b'
    base = ix.cls('glue.core.subset.SubsetState')
    m = base.resolve('__setattr__')
    if m is None or m.func is None:
        return
    f = m.func
    from ..util import guard_chain
    pm = parent_map(f.node)
    name_p, value_p = f.params[1], f.params[2]
    clears = [c for c in calls_in(f.node) if inv.classify_call(f.module, c)]
    if not clears:
        return
    # everything computed from the assigned value (a comparison result kept in a local, ...) still "looks at the value"
    tainted = {value_p}
    for _ in range(4):
        for st in ast.walk(f.node):
            if isinstance(st, ast.Assign) and any(isinstance(n, ast.Name) and n.id in tainted for n in ast.walk(st.value)):
                for t in st.targets:
                    for n in ast.walk(t):
                        if isinstance(n, ast.Name):
                            tainted.add(n.id)
    for c in clears:
        gs = [g for g, br in guard_chain(pm, c, f.node) if isinstance(g, ast.If)]
        bad = [unparse(g.test) for g in gs if any(isinstance(n, ast.Name) and n.id in tainted for n in ast.walk(g.test))]
        # a handler that decides whether to invalidate is a guard as well
        tries = [g for g, br in guard_chain(pm, c, f.node) if isinstance(g, (ast.Try, ast.ExceptHandler))]
        if tries:
            bad.append('an exception raised while looking at the value')
        ctx.ob(R, f.construct, 'the hook invalidates on every re-assignment, whatever the new value is', not bad,
               detail='SubsetState.__setattr__ invalidates only under `%s`, which looks at the assigned value: editing a region / '
                      'array in place and assigning the same object back (state.roi = roi) keeps the memoised masks' % ' and '.join(bad),
               where=where(f, c))
    stores = [c for c in calls_in(f.node) if unparse(c.func) in ('object.__setattr__', 'super().__setattr__')]
    ok = len(stores) == 1 and not [g for g, br in guard_chain(pm, stores[0], f.node) if isinstance(g, ast.If)]
    ctx.ob(R, f.construct + ' store', 'the hook always performs the assignment', ok,
           detail='SubsetState.__setattr__ does not unconditionally store the attribute', where=f.where)


# ---------------------------------------------------------------------------------------
def rule_c(ctx, ix):
    R = 'C05.c'
    ctx.describe(R, 'hand-rolled cache keys contain every input of the cached computation', floor=6)
    ea = EffectAnalyzer(ix)
    # flood fill
    ff = ix.cls('glue.core.subset.FloodFillSubsetState')
    h = ff.resolve('_hash')
    cm = ff.resolve_func('_compute_mask')
    if h is None or h.fget is None or cm is None:
        raise AnalysisError('FloodFillSubsetState._hash/_compute_mask vanished')
    key = {base_field(x) for x in ea.func_effects(ff, h.fget).reads}
    eff = ea.func_effects(ff, cm)
    needs = {base_field(x) for x in eff.reads} - {base_field(x) for x in eff.writes}
    missing = sorted(needs - key)
    ctx.ob(R, h.fget.construct, 'the flood-fill hash covers %s' % sorted(needs), not missing,
           detail='FloodFillSubsetState recomputes its mask from %s but its hash omits %s: editing that attribute keeps the '
                  'old mask' % (sorted(needs), missing), where=h.fget.where)
    mprop = ff.resolve('mask')
    ok = mprop is not None and mprop.fget is not None and '_hash' in unparse(mprop.fget.node) and \
        any(call_name(c) == '_compute_mask' for c in calls_in(mprop.fget.node))
    ctx.ob(R, ff.construct + '.mask', 'the mask getter compares the stored hash and recomputes', ok,
           detail='FloodFillSubsetState.mask no longer recomputes when the hash changed', where=ff.where)

    # histogram
    hl = ix.cls('glue.viewers.histogram.state.HistogramLayerState')
    f = hl.resolve_func('update_histogram')
    if f is None:
        raise AnalysisError('HistogramLayerState.update_histogram vanished')
    _keyed_cache(ctx, R, ix, f, 'current_settings', 'compute_histogram',
                 exceptions={})
    art = ix.cls('glue.viewers.histogram.layer_artist.HistogramLayerArtist')
    up = art.resolve_func('update')
    ok = up is not None and any(call_name(c) == 'reset_cache' for c in calls_in(up.node))
    ctx.ob(R, art.construct + '.update', 'a data/subset change (update) resets the histogram cache', ok,
           detail='HistogramLayerArtist.update no longer resets the cached histogram: new values or a new selection are '
                  'not reflected (neither is part of the cache key)', where=art.where)

    # profile: callback-driven resets
    pl = ix.cls('glue.viewers.profile.state.ProfileLayerState')
    f = pl.resolve_func('update_profile')
    if f is None:
        raise AnalysisError('ProfileLayerState.update_profile vanished')
    registered = set()
    for c in calls_in(f.node):
        if call_name(c) == 'add_callback' and len(c.args) >= 2 and isinstance(c.args[0], ast.Constant) \
                and 'reset_cache' in unparse(c.args[1]) and 'viewer_state' in unparse(c.func):
            registered.add(c.args[0].value)
    used = set()
    for n in walk_no_nested(f.node):
        if isinstance(n, ast.Attribute) and isinstance(n.value, ast.Attribute) and n.value.attr in ('viewer_state', '_viewer_state') \
                and isinstance(n.ctx, ast.Load) and n.attr != 'add_callback':
            used.add(n.attr)
    PROFILE_EXC = {
        'x_att_pixel': ('derived from x_att by ProfileViewerState._update_att, itself a callback of x_att', '_update_att'),
        'reference_data': ('ProfileViewerState._reference_data_changed resets every layer cache', '_reference_data_changed'),
    }
    pv = ix.cls('glue.viewers.profile.state.ProfileViewerState')
    for a in sorted(used):
        if a in PROFILE_EXC:
            reason, meth = PROFILE_EXC[a]
            g = pv.resolve_func(meth)
            if g is None:
                raise AnalysisError('stale exception row: ProfileViewerState.%s vanished' % meth)
            if a == 'reference_data':
                ok = any(call_name(c) == 'reset_cache' for c in calls_in(g.node))
            else:
                ok = any(isinstance(st, ast.Assign) and any(unparse(t).endswith('.x_att_pixel') for t in st.targets)
                         for st in walk_no_nested(g.node))
            ctx.exception(R, 'ProfileLayerState.update_profile viewer_state.%s' % a, reason)
            ctx.ob(R, g.construct, 'the reasoned invalidation path for viewer_state.%s exists' % a, ok,
                   detail='%s no longer provides the invalidation path that excuses viewer_state.%s from the profile cache '
                          'reset list' % (g.construct, a), where=g.where)
            continue
        ctx.ob(R, f.construct, 'viewer_state.%s feeds the profile and resets the cache when it changes' % a, a in registered,
               detail='ProfileLayerState.update_profile computes the cached profile from viewer_state.%s, but no '
                      'add_callback(%r, self.reset_cache) is registered: changing it keeps the old profile' % (a, a),
               where=f.where)


def _keyed_cache(ctx, R, ix, f, keyvar, compute_call, exceptions):
    """tuple `keyvar` compared with the cached one must contain every viewer_state attribute used afterwards."""
    # the key variable by its role: the first element of the tuple stored into the cache field
    for st in walk_no_nested(f.node):
        if isinstance(st, ast.Assign) and any('_cache' in unparse(t) for t in st.targets) and isinstance(st.value, ast.Tuple) \
                and st.value.elts and isinstance(st.value.elts[0], ast.Name):
            keyvar = st.value.elts[0].id
    keydefs = [st for st in walk_no_nested(f.node) if isinstance(st, ast.Assign)
               and any(isinstance(t, ast.Name) and t.id == keyvar for t in st.targets)]
    if len(keydefs) != 1 or not isinstance(keydefs[0].value, ast.Tuple):
        raise AnalysisError('%s: cache key %s is not a single tuple literal' % (f.construct, keyvar))
    kd = keydefs[0]
    from ..util import expand_locals

    def vs_attrs(node):
        out = set()
        for n in ast.walk(expand_locals(f.node, node)):
            if isinstance(n, ast.Attribute) and isinstance(n.value, ast.Attribute) \
                    and n.value.attr in ('viewer_state', '_viewer_state') and isinstance(n.ctx, ast.Load):
                out.add(n.attr)
        return out
    key = vs_attrs(kd.value)
    # the comparison with the stored key guards an early return
    cmp_ok = any(isinstance(n, ast.Compare) and keyvar in unparse(n) and '_cache' in unparse(expand_locals(f.node, n))
                 for n in walk_no_nested(f.node))
    ctx.ob(R, f.construct, 'the cached value is returned only when the stored key equals the current one', cmp_ok,
           detail='%s no longer compares the stored key with %s before returning the cached value' % (f.construct, keyvar),
           where=f.where)
    used = set()
    for st in body_stmts(f.node):
        if st is kd:
            continue
        if isinstance(st, ast.If) and all(isinstance(b, ast.Raise) for b in st.body) and not st.orelse:
            continue       # the None-guard only validates
        used |= vs_attrs(st)
    for a in sorted(used):
        if a in exceptions:
            ctx.exception(R, '%s viewer_state.%s' % (f.construct, a), exceptions[a])
            continue
        ctx.ob(R, f.construct, 'viewer_state.%s is used by the computation and is part of the cache key' % a, a in key,
               detail='%s computes the cached result from viewer_state.%s but the cache key (%s) omits it: changing it '
                      'alone returns the old result' % (f.construct, a, ', '.join(sorted(key))), where=where(f, kd))
    # stored together with the key that produced it
    stores = [st for st in walk_no_nested(f.node) if isinstance(st, ast.Assign)
              and any('_cache' in unparse(t) for t in st.targets) and isinstance(st.value, ast.Tuple)]
    ok = bool(stores) and all(isinstance(st.value.elts[0], ast.Name) and st.value.elts[0].id == keyvar for st in stores)
    ctx.ob(R, f.construct, 'the result is stored together with the key it was computed for', ok,
           detail='%s does not store the result under %s' % (f.construct, keyvar), where=f.where)


# what an attribute of an array determines
ATTR_DETERMINES = {'shape': {'shape', 'size', 'ndim'}, 'size': {'size'}, 'ndim': {'ndim'}, 'dtype': {'dtype'}}


def rule_d(ctx, ix):
    """Hand-rolled (key, value) caches stored on the dataset: the key determines everything the cached value is computed from."""
    R = 'C05.d'
    ctx.describe(R, 'per-dataset (key, value) caches: the key compared is the key stored, and it determines what the value was computed from',
                 floor=1)
    n = 0
    for cq in ('glue.core.data.BaseData', 'glue.core.data.BaseCartesianData', 'glue.core.data.Data', 'glue.core.data_derived.IndexedData'):
        c = ix.cls(cq)
        for name, m in sorted(c.members.items()):
            f = m.func
            if f is None or f.cls is not c:
                continue
            s = f.self_name
            pm = parent_map(f.node)
            for st in walk_no_nested(f.node):
                if not (isinstance(st, ast.Assign) and isinstance(st.value, ast.Tuple) and len(st.value.elts) == 2
                        and isinstance(st.targets[0], ast.Attribute) and unparse(st.targets[0].value) == s
                        and isinstance(st.value.elts[1], ast.Call)):
                    continue
                cache = st.targets[0].attr
                key, call = st.value.elts
                g = enclosing(pm, st, (ast.If,))
                if g is None or ('%s.%s[0]' % (s, cache)) not in unparse(g.test):
                    continue
                n += 1
                construct = '%s %s' % (f.construct, cache)
                stored0 = '%s.%s[0]' % (s, cache)
                cmp_keys = [unparse(b_) for x in ast.walk(g.test) if isinstance(x, ast.Compare) and len(x.ops) == 1 and isinstance(x.ops[0], ast.NotEq)
                            for a_, b_ in ((x.left, x.comparators[0]), (x.comparators[0], x.left)) if unparse(a_) == stored0]
                ctx.ob(R, construct, 'the key compared before reuse is the key stored', cmp_keys == [unparse(key)],
                       detail='%s stores the cached value under `%s` but decides to reuse it by comparing with %s'
                              % (f.construct, unparse(key), cmp_keys), where=where(f, st))
                # what the cached computation reads of its arguments
                callee = None
                try:
                    q = ix.canonical(ix.resolve_expr(f.module, call.func) or '')
                    callee = ix.functions.get(q)
                except AnalysisError:
                    callee = None
                if callee is None:
                    raise AnalysisError('%s: the function computing the cached value (%s) cannot be resolved' % (construct, unparse(call.func)))
                keys = key.elts if isinstance(key, ast.Tuple) else [key]
                for i, a in enumerate(call.args):
                    if not isinstance(a, ast.Name) or i >= len(callee.params):
                        continue
                    p = callee.params[i]
                    reads, whole = set(), False
                    cpm = parent_map(callee.node)
                    for x in ast.walk(callee.node):
                        if isinstance(x, ast.Name) and x.id == p and isinstance(x.ctx, ast.Load):
                            par = cpm.get(id(x))
                            if isinstance(par, ast.Attribute) and par.value is x:
                                reads.add(par.attr)
                            else:
                                whole = True
                    if not reads and not whole:
                        continue
                    have = set()
                    for k in keys:
                        if isinstance(k, ast.Attribute) and unparse(k.value) == a.id:
                            have |= ATTR_DETERMINES.get(k.attr, {k.attr})
                        elif unparse(k) == a.id:
                            have.add('<whole>')
                    if a.id in f.params and not have and not whole:
                        # a caller-supplied parameter that is not part of the key at all
                        ctx.unmodelled(R, construct, 'argument %s of the cached computation is a request parameter outside the key '
                                                     '(sampling size: outside what the property fixes)' % a.id)
                        continue
                    if whole and '<whole>' not in have:
                        if a.id in f.params:
                            ctx.unmodelled(R, construct, 'argument %s is a request parameter used as a whole' % a.id)
                            continue
                        raise AnalysisError('%s: %s uses its argument %s as a whole; the key cannot be compared' % (construct, callee.construct, p))
                    ctx.ob(R, '%s arg %s' % (construct, a.id), 'the key determines everything the cached value reads of `%s`' % a.id,
                           reads <= have or '<whole>' in have,
                           detail='%s caches the result of %s under the key `%s`, but the result is computed from %s.%s: after a change '
                                  'that keeps the key and alters %s (e.g. a refresh with another shape and the same number of elements) '
                                  'the stale value is reused' % (f.construct, callee.construct, unparse(key), a.id,
                                                                 '/'.join(sorted(reads - have)), '/'.join(sorted(reads - have))),
                           where=where(f, st))
    if n < 1:
        raise AnalysisError('C05.d: no (key, value) cache recognised on the dataset classes')


def rule_f(ctx, ix):
    """The array helpers that statistics and histograms go through (glue.utils.array) are handed masks and values that may be
    memoised results or component storage: they must not write their arguments in place - a cache entry changed that way is
    served, shrunken, to every later request."""
    R = 'C05.f'
    ctx.describe(R, 'the array reducers never write an argument (or an alias of one) in place', floor=3)
    n = common.check_inplace_fresh(ctx, R, ix, ['glue.utils.array'], exceptions={('-', '-'): '-'}, borrowed_params=True)
    if n < 3:
        raise AnalysisError('C05.f: only %d in-place writes seen in glue.utils.array' % n)


ALIAS_PRESERVING = {'asarray', 'asanyarray', 'view', 'reshape', 'ravel', 'squeeze', 'require', 'atleast_1d'}


def rule_g(ctx, ix):
    """What a reader takes out of a hand-rolled cache (`self._histogram_cache`, `self._profile_cache`, ...) belongs to the cache:
    scaling or normalising it in place changes what the next reader gets.  The value has to be copied (astype without
    copy=False, .copy(), arithmetic that makes a new array) before any in-place operation."""
    R = 'C05.g'
    ctx.describe(R, 'arrays read from a hand-rolled cache are copied before they are changed in place', floor=2)
    n = 0
    for mname in sorted(m for m in ix.modules if m.startswith('glue.viewers') and m.endswith('.state')):
        mod = ix.module(mname)
        for cn in [c for c in ast.walk(mod.tree) if isinstance(c, ast.ClassDef)]:
            for fn in [x for x in cn.body if isinstance(x, ast.FunctionDef)]:
                reads = [st for st in walk_no_nested(fn) if isinstance(st, ast.Assign) and any(
                    isinstance(a, ast.Attribute) and a.attr.endswith('_cache') and isinstance(a.ctx, ast.Load) for a in ast.walk(st.value))]
                if not reads:
                    continue
                n += 1
                owned = set()       # names that may still be the cached array itself
                for st in sorted(walk_no_nested(fn), key=lambda x: getattr(x, 'lineno', 0)):
                    if isinstance(st, ast.Assign):
                        v = st.value
                        from_cache = any(isinstance(a, ast.Attribute) and a.attr.endswith('_cache') for a in ast.walk(v)) and not isinstance(v, ast.Call)
                        alias = isinstance(v, ast.Name) and v.id in owned
                        if isinstance(v, ast.Call) and isinstance(v.func, ast.Attribute) and isinstance(v.func.value, ast.Name) and v.func.value.id in owned:
                            cp = kwarg(v, 'copy')
                            if v.func.attr in ALIAS_PRESERVING or (v.func.attr == 'astype' and cp is not None and isinstance(cp, ast.Constant) and cp.value is False):
                                alias = True
                        if isinstance(v, ast.Call) and call_name(v) in ALIAS_PRESERVING and v.args and isinstance(v.args[0], ast.Name) and v.args[0].id in owned:
                            alias = True
                        for t in st.targets:
                            for x in (t.elts if isinstance(t, (ast.Tuple, ast.List)) else [t]):
                                if isinstance(x, ast.Name):
                                    if from_cache or alias:
                                        owned.add(x.id)
                                    elif st in fn.body:
                                        owned.discard(x.id)      # an unconditional re-binding; one under a test may not happen
                    elif isinstance(st, ast.AugAssign):
                        tgt = st.target
                        while isinstance(tgt, ast.Subscript):
                            tgt = tgt.value
                        if isinstance(tgt, ast.Name) and tgt.id in owned:
                            ctx.ob(R, '%s:%s.%s `%s`' % (mname, cn.name, fn.name, norm(st)), 'in-place operation on a copy', False,
                                   detail='%s.%s changes `%s` in place, and that name can still be the array stored in the cache (it was taken out '
                                          'of it without a copy): the next reader of the cache gets the scaled values and scales them again'
                                          % (cn.name, fn.name, tgt.id), where='%s:%d' % (mod.relpath, st.lineno))
                ctx.ob(R, '%s:%s.%s' % (mname, cn.name, fn.name), 'no in-place change of a cached array', True)
    if n < 2:
        raise AnalysisError('C05.g: only %d readers of hand-rolled caches found in the viewer states' % n)
