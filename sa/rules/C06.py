"""C06 - every dataset in a collection carries exactly one subset per subset group."""
import ast

from ..index import AnalysisError, dotted_chain, norm, unparse, walk_no_nested, body_stmts
from ..util import calls_in, call_name, where, returns_of, parent_map, guard_chain, kwarg
from .. import props
from . import common
from .C03 import _subscriptions

props.prop(
    'C06',
    explanation='Static (ast) pairing of the two coupled collections (SubsetGroup.subsets and BaseData._subsets): every '
                'method that adds to / removes from one must do the same to the other with the same object; the group '
                'life-cycle (create inside the delay block, register, unregister, re-register on load), the delegation of '
                'grouped subsets to their group, and no mutate-while-iterate in the handlers.',
    decides='paired membership updates, group registration/unregistration and hub subscriptions, delegation of '
            'subset_state/label/style to the group',
    not_decided='histories (that the pairs are executed in every order), label disambiguation, message order',
    assumptions=['subset groups are created only through DataCollection.new_subset_group'])
props.also('C06',
           'that every registered DataCollection protocol that restores groups registers them to the hub (all loader versions, through whatever chain of loaders); that the hub flushes only a detached snapshot (shared with C07.b); that the membership guard of the dataset-added handler compares the dataset itself, not one of its attributes; that what the filters of the group\'s subscriptions read is set by the constructor or register_to_hub')

SG = 'glue.core.subset_group.SubsetGroup'
GS = 'glue.core.subset_group.GroupedSubset'
DC = 'glue.core.data_collection.DataCollection'

PAIR_EXCEPTIONS = {
    '__setgluestate__': 'the dataset side is restored by the Data loader (result.add_subset for every saved subset)',
    '__init__': 'creates the empty list',
}


def run(ctx):
    ix = ctx.index
    ctx.guard(rule_a, ctx, ix)
    ctx.guard(rule_b, ctx, ix)
    ctx.guard(rule_c, ctx, ix)
    ctx.guard(rule_d, ctx, ix)
    ctx.guard(rule_e, ctx, ix)
    ctx.guard(rule_f, ctx, ix)
    # undo must remove exactly the groups the command created (membership in the snapshot)
    from ..report import BorrowedCtx
    from .C13 import rule_d as _undo_groups
    ctx.guard(_undo_groups, BorrowedCtx(ctx, {'C13.d': 'C06.g'}), ix, ('groups',))
    # groups follow the collection through hub messages, which may be delayed: every queued message must be delivered, once, from
    # a detached snapshot of the queue (the hub's flush discipline is a necessary condition here as well)
    from .C07 import rule_b as _flush
    ctx.guard(_flush, BorrowedCtx(ctx, {'C07.b': 'C06.h'}), ix, ix.cls('glue.core.hub.Hub'))


def rule_a(ctx, ix):
    R = 'C06.a'
    ctx.describe(R, 'group membership and dataset membership are written in pairs', floor=4)
    sg = ix.cls(SG)
    n = 0
    for name, m in sorted(sg.members.items()):
        f = m.func
        if f is None:
            continue
        s = f.self_name
        adds = [c for c in calls_in(f.node) if call_name(c) in ('append', 'insert') and unparse(c.func.value) == '%s.subsets' % s]
        rems = [c for c in calls_in(f.node) if call_name(c) in ('remove', 'pop') and unparse(c.func.value) == '%s.subsets' % s]
        stores = [st for st in walk_no_nested(f.node) if isinstance(st, ast.Assign) and unparse(st.targets[0]) in ('%s.subsets' % s, 'result.subsets')]
        if not adds and not rems and not stores:
            continue
        if name in PAIR_EXCEPTIONS:
            ctx.exception(R, '%s.%s' % (sg.construct, name), PAIR_EXCEPTIONS[name])
            continue
        for c in adds:
            n += 1
            v = unparse(c.args[-1])
            # the same object is attached to a dataset: <d>.add_subset(v) directly, or via zip(data, self.subsets)
            direct = any(call_name(x) == 'add_subset' and x.args and unparse(x.args[0]) == v for x in calls_in(f.node))
            zipped = False
            for lp in [x for x in walk_no_nested(f.node) if isinstance(x, ast.For)]:
                if isinstance(lp.iter, ast.Call) and call_name(lp.iter) == 'zip' and \
                        any(unparse(a) == '%s.subsets' % s for a in lp.iter.args) and isinstance(lp.target, ast.Tuple):
                    idx = [unparse(a) for a in lp.iter.args].index('%s.subsets' % s)
                    tv = unparse(lp.target.elts[idx])
                    zipped = any(call_name(x) == 'add_subset' and x.args and unparse(x.args[0]) == tv for x in calls_in(lp))
            ctx.ob(R, f.construct, 'the subset added to the group is also attached to its dataset', direct or zipped,
                   detail='%s adds a subset to the group without attaching the same object to a dataset (add_subset): the group '
                          'lists a subset no dataset carries' % f.construct, where=where(f, c))
        for c in rems:
            n += 1
            v = unparse(c.args[0]) if c.args else None
            ok = v is not None and any((call_name(x) == 'delete' and unparse(x.func.value) == v) or
                                       (call_name(x) == 'remove' and '_subsets' in unparse(x.func) and x.args and unparse(x.args[0]) == v)
                                       for x in calls_in(f.node))
            ctx.ob(R, f.construct, 'the subset removed from the group is also detached from its dataset', ok,
                   detail='%s removes the subset from the group only: the removed dataset keeps the grouped subset, and gets a '
                          'second one for the same group when it is appended again' % f.construct, where=where(f, c))
        for st in stores:
            n += 1
            # rebinding the member list drops members wholesale: every member must have been deleted, unconditionally, before
            ok = False
            for lp in [x for x in walk_no_nested(f.node) if isinstance(x, ast.For) and x.lineno < st.lineno]:
                it = unparse(lp.iter).replace(' ', '')
                if it in ('%s.subsets' % s, 'list(%s.subsets)' % s, 'tuple(%s.subsets)' % s) and isinstance(lp.target, ast.Name):
                    ok = ok or any(isinstance(b, ast.Expr) and isinstance(b.value, ast.Call) and call_name(b.value) == 'delete'
                                   and unparse(b.value.func.value) == lp.target.id for b in lp.body)
            ctx.ob(R, f.construct + ' rebind', 'the member list is rebound only after every member was deleted from its dataset', ok,
                   detail='%s rebinds the member list with `%s` without deleting the dropped members from their datasets: a removed '
                          'dataset keeps the grouped subset (and gets a second one for the group when appended again), or the group '
                          'lists subsets no dataset carries' % (f.construct, norm(st)), where=where(f, st))
    # the reverse direction: a grouped subset attached to a dataset must also be listed in the group
    for name, m in sorted(sg.members.items()):
        f = m.func
        if f is None or name in PAIR_EXCEPTIONS:
            continue
        s = f.self_name
        made = [st for st in walk_no_nested(f.node) if isinstance(st, ast.Assign) and isinstance(st.value, ast.Call)
                and call_name(st.value) == 'GroupedSubset' and isinstance(st.targets[0], ast.Name)]
        for st in made:
            v = st.targets[0].id
            attached = any(call_name(x) == 'add_subset' and x.args and unparse(x.args[0]) == v for x in calls_in(f.node))
            listed = any(call_name(x) in ('append', 'insert') and unparse(x.func.value) == '%s.subsets' % s and unparse(x.args[-1]) == v
                         for x in calls_in(f.node))
            if attached or listed:
                n += 1
                ctx.ob(R, f.construct + ' new member', 'a new grouped subset is both listed in the group and attached to its dataset',
                       listed and (attached or any(isinstance(lp, ast.For) and 'zip' in unparse(lp.iter) for lp in walk_no_nested(f.node))),
                       detail='%s creates a grouped subset that is %s: the group and the dataset disagree about membership'
                              % (f.construct, 'attached to the dataset but never listed in the group' if not listed else
                                 'listed in the group but never attached to a dataset'), where=where(f, st))
    if n < 1:
        raise AnalysisError('C06.a: no membership writes recognised in SubsetGroup')
    # the dataset side: Subset.delete detaches from data._subsets
    sub = ix.cls('glue.core.subset.Subset')
    f = sub.resolve_func('delete')
    ok = any(call_name(c) == 'remove' and '_subsets' in unparse(c.func) and unparse(c.args[0]) == f.self_name for c in calls_in(f.node))
    ctx.ob(R, f.construct, 'delete() detaches the subset from its dataset', ok,
           detail='Subset.delete no longer removes the subset from data._subsets', where=f.where)


def rule_b(ctx, ix):
    R = 'C06.b'
    ctx.describe(R, 'group life-cycle: created and registered inside the delay block, unregistered on removal, re-registered on load', floor=8)
    dc = ix.cls(DC)
    f = dc.resolve_func('new_subset_group')
    if f is None:
        raise AnalysisError('DataCollection.new_subset_group vanished')
    pm = parent_map(f.node)
    withs = [w for w in walk_no_nested(f.node) if isinstance(w, ast.With) and 'delay_callbacks' in unparse(w.items[0].context_expr)]
    app = [c for c in calls_in(f.node) if call_name(c) == 'append' and '_subset_groups' in unparse(c.func)]
    regs = [c for c in calls_in(f.node) if call_name(c) == 'register' and c.args and unparse(c.args[0]) == f.self_name]
    inside = lambda c: any(any(x is c for x in ast.walk(w)) for w in withs)
    ctx.ob(R, f.construct, 'the new group is listed in the collection', len(app) == 1,
           detail='new_subset_group does not append the group to _subset_groups', where=f.where)
    ctx.ob(R, f.construct, 'the new group is registered (one subset per dataset) ', len(regs) == 1,
           detail='new_subset_group does not call group.register(self): no dataset receives a subset for the new group', where=f.where)
    ctx.ob(R, f.construct, 'listing and registration happen inside the delay block', bool(withs) and all(inside(c) for c in app + regs),
           detail='new_subset_group registers the group outside hub.delay_callbacks(): SubsetCreateMessages are delivered while '
                  'only some datasets carry the subset', where=f.where)
    g = dc.resolve_func('remove_subset_group')
    if g is None:
        raise AnalysisError('DataCollection.remove_subset_group vanished')
    p = g.params[1]
    rem = [c for c in calls_in(g.node) if call_name(c) == 'remove' and '_subset_groups' in unparse(c.func) and unparse(c.args[0]) == p]
    dele = False
    for lp in [x for x in ast.walk(g.node) if isinstance(x, ast.For)]:
        if unparse(lp.iter) in ('%s.subsets' % p, 'list(%s.subsets)' % p, '%s.subsets[:]' % p):
            dele = any(call_name(c) == 'delete' and unparse(c.func.value) == unparse(lp.target) for c in calls_in(lp))
    unreg = [c for c in calls_in(g.node) if call_name(c) == 'unregister' and unparse(c.func.value) == p]
    ctx.ob(R, g.construct, 'the group leaves the collection', len(rem) == 1,
           detail='remove_subset_group does not remove the group from _subset_groups', where=g.where)
    ctx.ob(R, g.construct, 'every member subset is deleted', dele,
           detail='remove_subset_group does not delete() every subset of the group: datasets keep subsets of a removed group', where=g.where)
    ctx.ob(R, g.construct, 'the group is unregistered from the hub', len(unreg) == 1,
           detail='remove_subset_group does not unregister the group: a removed group keeps creating subsets for new datasets', where=g.where)
    # ... on every path that removed it (also when the group has no members)
    common.must_reach(ctx, R, g,
                      lambda e: any(isinstance(c, ast.Call) and call_name(c) == 'remove' and '_subset_groups' in unparse(c.func) for c in ast.walk(e)),
                      lambda e: any(isinstance(c, ast.Call) and call_name(c) == 'unregister' and unparse(c.func.value) == p for c in ast.walk(e)),
                      'once the group left the collection it is unregistered on every path (also with zero members)',
                      '%(func)s removes the group with `%(stmt)s` but can finish without unregistering it (e.g. when the group has no '
                      'member subsets): the removed group keeps its hub subscription and gives every dataset added later a subset of '
                      'a group that no longer exists')
    f2 = dc.resolve_func('new_subset_group')
    common.must_reach(ctx, R, f2,
                      lambda e: any(isinstance(c, ast.Call) and call_name(c) == 'append' and '_subset_groups' in unparse(c.func) for c in ast.walk(e)),
                      lambda e: any(isinstance(c, ast.Call) and call_name(c) == 'register' for c in ast.walk(e)),
                      'a listed group is registered on every path',
                      '%(func)s lists the new group with `%(stmt)s` but can finish without registering it')
    # loaders re-register every restored group
    # every registered DataCollection protocol that restores groups (whichever way the loaders of the versions build on each other)
    from ..serial import Registry
    reg_ = Registry(ix)
    dcl = reg_.loaders.get('glue.core.data_collection.DataCollection', {})
    qs = ['glue.core.state._load_data_collection_2', 'glue.core.state._load_data_collection_4']
    for v_, lf_ in sorted(dcl.items()):
        if lf_.qualname not in qs:
            qs.append(lf_.qualname)

    def reach(fn, seen):
        """the loader and the module-level functions it calls (transitively)"""
        if fn.qualname in seen:
            return []
        seen.add(fn.qualname)
        out = [fn]
        for c_ in calls_in(fn.node):
            if isinstance(c_.func, ast.Name):
                g_ = ix.functions.get('%s.%s' % (fn.module.name, c_.func.id))
                if g_ is not None:
                    out += reach(g_, seen)
        return out
    for q in qs:
        lf = ix.func(q)
        chain = reach(lf, set())
        restores = any('_subset_groups' in unparse(st.targets[0]) for g_ in chain for st in ast.walk(g_.node) if isinstance(st, ast.Assign))
        if not restores:
            continue            # a protocol without groups
        ok = False
        for g_ in chain:
            for lp in [x for x in walk_no_nested(g_.node) if isinstance(x, ast.For)]:
                if 'subset_groups' in unparse(lp.iter) or '_subset_groups' in unparse(lp.iter):
                    ok = ok or any(call_name(c) == 'register_to_hub' and unparse(c.func.value) == unparse(lp.target) for c in calls_in(lp))
        ctx.ob(R, lf.construct, 'every restored group is registered to the hub', ok,
               detail='%s does not register the restored subset groups to the hub: datasets added after a restore get no subsets '
                      'for the existing groups' % lf.construct, where=lf.where)
    # SubsetGroup.register -> register_to_hub ; subscriptions
    sg = ix.cls(SG)
    r = sg.resolve_func('register')
    ok = any(call_name(c) == 'register_to_hub' for c in calls_in(r.node))
    ctx.ob(R, r.construct, 'register() subscribes the group to the hub', ok,
           detail='SubsetGroup.register does not call register_to_hub', where=r.where)
    h = sg.resolve_func('register_to_hub')
    subs = _subscriptions(ix, h)
    for msg, handler in (('glue.core.message.DataCollectionAddMessage', '_add_data'),
                         ('glue.core.message.DataCollectionDeleteMessage', '_remove_data')):
        ok = any(m == msg and hh is not None and ('.%s(' % handler in hh or hh.endswith('.' + handler)) for m, hh, flt in subs)
        ctx.ob(R, h.construct, '%s is handled by %s' % (msg.rpartition('.')[2], handler), ok,
               detail='SubsetGroup no longer reacts to %s with %s' % (msg.rpartition('.')[2], handler), where=h.where)


    # register_to_hub is an entry point of its own (the session loaders above call it without register()): what its handlers
    # and filters read from the group must be set by the constructor or by register_to_hub itself
    s_ = h.self_name
    init = sg.resolve_func('__init__')
    field_sets = {}
    for name, mem in sg.members.items():
        fn = mem.func
        if fn is None or fn.cls is not sg:
            continue
        for st in ast.walk(fn.node):
            if isinstance(st, ast.Assign):
                for t in st.targets:
                    for x in (t.elts if isinstance(t, (ast.Tuple, ast.List)) else [t]):
                        if isinstance(x, ast.Attribute) and isinstance(x.value, ast.Name) and x.value.id == fn.self_name:
                            field_sets.setdefault(x.attr, []).append((name, st.value))
    for c in calls_in(h.node):
        if call_name(c) != 'subscribe':
            continue
        parts = [a for a in c.args[2:]] + [k.value for k in c.keywords if k.arg in ('handler', 'filter')]
        for part in parts:
            body = part
            if isinstance(part, ast.Name):
                defs = [d for d in ast.walk(h.node) if isinstance(d, ast.FunctionDef) and d.name == part.id and d is not h.node]
                if defs:
                    body = defs[0]

            def reads_of(body, me, depth=0):
                """fields of the group read by a handler / filter, followed through the group's own methods"""
                out = []
                for x in ast.walk(body):
                    if isinstance(x, ast.Attribute) and isinstance(x.ctx, ast.Load) and isinstance(x.value, ast.Name) and x.value.id == me:
                        mem = sg.resolve(x.attr)
                        if mem is not None and mem.func is not None and depth < 3:
                            out += reads_of(mem.func.node, mem.func.self_name, depth + 1)
                        else:
                            out.append(x.attr)
                    elif isinstance(x, ast.Call) and isinstance(x.func, ast.Name) and x.func.id in ('getattr', 'hasattr') and len(x.args) >= 2 \
                            and isinstance(x.args[0], ast.Name) and x.args[0].id == me and isinstance(x.args[1], ast.Constant):
                        out.append(x.args[1].value)
                return out
            for attr in reads_of(body, s_):
                if attr in field_sets:
                    x = ast.Attribute(value=ast.Name(id=s_), attr=attr)
                    sets = field_sets[x.attr]
                    ok = any(m_ == 'register_to_hub' for m_, v_ in sets) or \
                        any(m_ == '__init__' and not (isinstance(v_, ast.Constant) and v_.value is None) for m_, v_ in sets)
                    ctx.ob(R, '%s subscription reads %s.%s' % (h.construct, s_, x.attr),
                           'what a handler / filter of the group reads is set by the constructor or by register_to_hub itself', ok,
                           detail='a subscription made by SubsetGroup.register_to_hub depends on `%s.%s`, which only %s sets: the session '
                                  'loaders subscribe restored groups through register_to_hub alone, so for a restored group the field '
                                  'is unset, the filter rejects every message and datasets added (or removed) afterwards are not '
                                  'followed' % (s_, x.attr, sorted({m_ for m_, v_ in sets if not (isinstance(v_, ast.Constant) and v_.value is None)})),
                           where=where(h, c))


def rule_c(ctx, ix):
    R = 'C06.c'
    ctx.describe(R, 'grouped subsets delegate selection, label and style to their group', floor=3)
    gs = ix.cls(GS)
    for name in ('subset_state', 'label'):
        m = gs.resolve(name)
        ok = m is not None and m.owner is gs and m.kind == 'attr' and m.value is not None and \
            unparse(m.value).replace('"', "'") == "Pointer('group.%s')" % name
        ctx.ob(R, gs.construct + '.' + name, '%s is a pointer to group.%s' % (name, name), ok,
               detail='GroupedSubset.%s is no longer Pointer(\'group.%s\') (resolved to %s): members of a group stop sharing the '
                      'group\'s %s' % (name, name, '%s.%s' % (m.owner.name, name) if m else None, name), where=gs.where)
    m = gs.resolve('style')
    ok = m is not None and m.owner is gs and m.kind == 'property' and m.fget is not None and \
        any(r.value is not None and unparse(r.value) == '%s.group.style' % m.fget.self_name for r in returns_of(m.fget))
    ctx.ob(R, gs.construct + '.style', 'style is read from the group', ok,
           detail='GroupedSubset.style no longer returns self.group.style', where=gs.where)


def rule_d(ctx, ix):
    R = 'C06.d'
    ctx.describe(R, 'handlers do not mutate the list they iterate', floor=3)
    sg = ix.cls(SG)
    dc = ix.cls(DC)
    n = 0
    for cls, names in ((sg, ['_remove_data', '_add_data', 'register', 'broadcast']), (dc, ['remove_subset_group', 'clear'])):
        for name in names:
            f = cls.resolve_func(name)
            if f is None:
                raise AnalysisError('%s.%s vanished' % (cls.qualname, name))
            bad = common.check_iter_mutation(ctx, R, f)
            n += 1
            if not bad:
                ctx.ob(R, f.construct, 'no loop mutates the collection it iterates', True)


def _conjuncts(test):
    if isinstance(test, ast.BoolOp) and isinstance(test.op, ast.And):
        out = []
        for v in test.values:
            out.extend(_conjuncts(v))
        return out
    return [test]


def rule_e(ctx, ix):
    """A subset that may belong to a group is detached from its dataset only together with its group membership."""
    R = 'C06.e'
    ctx.describe(R, 'every loop that deletes subsets of a dataset / group keeps the group side consistent', floor=2)
    n = 0
    for name, mod in sorted(ix.modules.items()):
        owners = {}
        for cl in [x for x in ast.walk(mod.tree) if isinstance(x, ast.ClassDef)]:
            for ch in cl.body:
                owners[id(ch)] = cl.name
        for fn in [x for x in ast.walk(mod.tree) if isinstance(x, (ast.FunctionDef, ast.AsyncFunctionDef))]:
            pm = None
            fq = ('%s.%s' % (owners[id(fn)], fn.name)) if id(fn) in owners else fn.name
            for c in walk_no_nested(fn):
                if not (isinstance(c, ast.Call) and isinstance(c.func, ast.Attribute) and c.func.attr == 'delete' and not c.args
                        and isinstance(c.func.value, ast.Name)):
                    continue
                v = c.func.value.id
                pm = pm or parent_map(fn)
                chain = guard_chain(pm, c, fn)
                loops = [g for g, br in chain if isinstance(g, ast.For) and isinstance(g.target, ast.Name) and g.target.id == v]
                if not loops:
                    continue
                it = unparse(loops[0].iter).replace(' ', '')
                inner = it[5:-1] if it.startswith('list(') else it
                if not inner.endswith('.subsets'):
                    continue
                n += 1
                owner = inner[:-len('.subsets')]
                construct = '%s:%s `%s.delete()` over %s' % (name, fq, v, inner)
                # (a) the whole group leaves the collection
                whole = any(call_name(x) == 'remove' and unparse(x.func.value).endswith('_subset_groups') and x.args and unparse(x.args[0]) == owner
                            for x in calls_in(fn))
                # (b) the group's own list is updated beside the deletion
                paired = any(call_name(x) == 'remove' and unparse(x.func.value).endswith('.subsets') and x.args and unparse(x.args[0]) == v
                             for x in calls_in(loops[0]))
                # (c) grouped subsets of groups that stay are excluded
                excluded, mentions = False, False
                for g, br in chain:
                    if isinstance(g, ast.If) and br == 'body':
                        for a in _conjuncts(g.test):
                            t = unparse(a).replace(' ', '')
                            if 'group' in t.lower():
                                mentions = True
                            if t == 'notisinstance(%s,GroupedSubset)' % v:
                                excluded = True
                            if 'notin' in t and 'subset_groups' in t and 'group' in t.split('notin')[0] and v in t.split('notin')[0]:
                                excluded = True
                if not excluded:
                    # the same exclusion written as guard clauses (`if ...: continue`) or through nested / negated tests: the
                    # condition under which the deletion runs implies it
                    from .. import cond as _c
                    st_ = c
                    while st_ is not None and not isinstance(st_, ast.stmt):
                        st_ = pm.get(id(st_))
                    pc_ = _c.path_condition(fn, st_, expand=False) if st_ is not None else None
                    if pc_ is not None:
                        for a_ in sorted(_c.atoms(pc_)):
                            if 'group' in a_.lower():
                                mentions = True
                            try:
                                if a_ == 'isinstance(%s,GroupedSubset)' % v and _c.implies(pc_, _c.Not(_c.T(a_))):
                                    excluded = True
                                if a_.startswith('in|') and 'subset_groups' in a_.split('|')[2] and 'group' in a_.split('|')[1] and v in a_.split('|')[1] \
                                        and _c.implies(pc_, _c.Not(_c.T(a_))):
                                    excluded = True
                            except ValueError:
                                pass
                ok = whole or paired or excluded
                ctx.idiom(R, construct, 'the deleted subsets are ungrouped, or leave their group / the group leaves the collection as well',
                          accepted=ok, absent=not mentions or True,
                          detail_absent='%s:%s deletes every subset `%s` of %s that passes its test, including grouped subsets whose group stays '
                                        'in the collection: the group keeps listing a subset its dataset no longer carries, and the dataset '
                                        'has no subset for that group' % (name, fq, v, inner),
                          shape=it, where='%s:%d' % (mod.relpath, c.lineno))
    if n < 2:
        raise AnalysisError('C06.e: only %d subset-deleting loops found' % n)      # (sibling loops may be merged into one helper)


def rule_f(ctx, ix):
    """The 'dataset added' handler of a group is idempotent: registration already covers every dataset of the collection, and the
    hub can deliver the message later (delay_callbacks), so the handler must not add a second subset for a dataset it already has."""
    R = 'C06.f'
    ctx.describe(R, 'the group\'s dataset-added handler adds a member only for a dataset it has no member for', floor=2)
    sg = ix.cls(SG)
    reg = sg.resolve_func('register')
    covers = any(isinstance(x, ast.For) and unparse(x.iter) in ('data', reg.params[1]) for x in ast.walk(reg.node)) and \
        any(call_name(c) == 'GroupedSubset' for c in calls_in(reg.node))
    hub = ix.cls('glue.core.hub.Hub')
    delayed = hub.resolve_func('delay_callbacks') is not None
    ctx.ob(R, reg.construct, 'registration creates a member for every dataset already in the collection (read from the code: %s); '
                             'delivery can be deferred (Hub.delay_callbacks: %s)' % (covers, delayed), True, nontrivial=False)
    f = sg.resolve_func('_add_data')
    if f is None:
        raise AnalysisError('SubsetGroup._add_data vanished')
    if not (covers and delayed):
        ctx.unmodelled(R, f.construct, 'registration no longer covers existing datasets or delivery cannot be deferred: idempotence not needed')
        return
    s, p = f.self_name, f.params[1]
    adds = [c for c in calls_in(f.node) if call_name(c) in ('append', 'insert') and unparse(c.func.value) == '%s.subsets' % s]
    if not adds:
        raise AnalysisError('SubsetGroup._add_data: the membership write is no longer recognised')
    from ..cfg import CFG
    cfg = CFG(f.node)
    # a membership guard: an If whose test looks at the datasets of the existing members and compares with the parameter
    def membership_test(test):
        """The test looks at the datasets of the existing members and compares them with the parameter - directly, or through a
        predicate method of the class that does."""
        if isinstance(test, ast.UnaryOp) and isinstance(test.op, ast.Not):
            return membership_test(test.operand)
        if isinstance(test, ast.Name):
            # a flag set by a search loop over the members: `for m in self.subsets: if m.data is data: flag = True; break`
            for lp_ in ast.walk(f.node):
                if isinstance(lp_, ast.For) and unparse(lp_.iter) in ('%s.subsets' % s, 'list(%s.subsets)' % s):
                    for g_ in ast.walk(lp_):
                        if isinstance(g_, ast.If) and any(isinstance(a_, ast.Assign) and unparse(a_.targets[0]) == test.id for a_ in g_.body) \
                                and p in [x.id for x in ast.walk(g_.test) if isinstance(x, ast.Name)] and '.data' in unparse(g_.test):
                            return True
            return False
        t = unparse(test)
        names = [x.id for x in ast.walk(test) if isinstance(x, ast.Name)]
        if '%s.subsets' % s in t and p in names and '.data' in t:
            return True
        # the same search written as a loop: `for m in self.subsets: if m.data is data: return`
        if p in names and '.data' in t:
            from ..util import enclosing, elementwise
            lp = enclosing(pm_f, test, (ast.For,))
            while lp is not None:
                ew = elementwise(lp.iter)
                if ew is not None and ew.source == '%s.subsets' % s and isinstance(lp.target, ast.Name) and lp.target.id in names:
                    return True
                lp = enclosing(pm_f, lp, (ast.For,))
        for c in ast.walk(test):
            if isinstance(c, ast.Call) and isinstance(c.func, ast.Attribute) and unparse(c.func.value) == s and \
                    any(isinstance(a, ast.Name) and a.id == p for a in c.args):
                h = sg.resolve_func(c.func.attr)
                if h is None:
                    continue
                hp = h.params[1 + [unparse(a) for a in c.args].index(p)] if len(h.params) > 1 else None
                hb = unparse(h.raw_node)
                cmps = [x for x in ast.walk(h.raw_node) if isinstance(x, ast.Compare) and '.data' in unparse(x)
                        and hp in [y.id for y in ast.walk(x) if isinstance(y, ast.Name)]]
                if hp and '%s.subsets' % h.self_name in hb and cmps:
                    return True
        return False
    pm_f = parent_map(f.node)
    guards = [g for g in walk_no_nested(f.node) if isinstance(g, ast.If) and membership_test(g.test)]
    ok = False
    for g in guards:
        early = any(isinstance(x, ast.Return) for x in g.body)
        inside_else = any(any(a is y for y in ast.walk(ast.Module(body=g.orelse, type_ignores=[]))) for a in adds) if g.orelse else False
        negated = isinstance(g.test, ast.UnaryOp) and isinstance(g.test.op, ast.Not) or ' not in ' in unparse(g.test)
        inside_body = any(any(a is y for y in ast.walk(ast.Module(body=g.body, type_ignores=[]))) for a in adds)
        if (early and all(a.lineno > g.end_lineno for a in adds)) or inside_else or (negated and inside_body):
            ok = True
    # "has a member for that dataset" means that very dataset (the sibling _remove_data drops members by identity): the comparison takes
    # the dataset itself as an operand, not one of its attributes (labels are not unique)
    cmps = [x for x in ast.walk(f.node) if isinstance(x, ast.Compare) and '.data' in unparse(x)
            and p in [y.id for y in ast.walk(x) if isinstance(y, ast.Name)]]
    if cmps:
        bare = [x for x in cmps if any(isinstance(o, ast.Name) and o.id == p for o in [x.left] + list(x.comparators))]
        byattr = [x for x in cmps if x not in bare and any(isinstance(o, ast.Attribute) and isinstance(o.value, ast.Name) and o.value.id == p
                                                            for o in [x.left] + list(x.comparators))]
        ctx.idiom(R, f.construct + ' comparison', 'the membership guard compares the dataset itself', accepted=bool(bare) and not byattr, absent=bool(byattr),
                  detail_absent='SubsetGroup._add_data decides "the group already has a member for this dataset" with `%s`, a comparison of an '
                                'attribute of the dataset: two datasets that agree in it (labels are not unique) count as one, so the second '
                                'of them gets no subset for the group when it is added (or re-added by undo / redo)'
                                % (unparse(byattr[0]) if byattr else ''),
                  shape='; '.join(unparse(x) for x in cmps), where=where(f, cmps[0]))
    ctx.idiom(R, f.construct, 'a member is added only when the group has none for that dataset', accepted=ok, absent=not guards,
              detail_absent='SubsetGroup._add_data adds a grouped subset for the dataset unconditionally: when the dataset-added message '
                            'is delivered after the group was registered with that dataset already in the collection (both inside one '
                            'hub.delay_callbacks() block), the dataset gets two subsets for the group',
              shape='; '.join(unparse(g.test) for g in guards), where=f.where)
