"""Rule building blocks shared by several properties."""
import ast

from ..index import AnalysisError, dotted_chain, norm, unparse, walk_no_nested, body_stmts
from ..flow import Flow
from ..util import returns_of, calls_in, call_name, where, parent_map, in_finally, is_self_attr


# ---------------------------------------------------------------------------------------
# operator dunders that build a link / state object
def check_operator_dunder(ctx, rule, cls, dunder, target_qual, opname, reflected, optional=False):
    ix = ctx.index
    f = cls.resolve_func(dunder)
    if f is None:
        if optional:
            return
        raise AnalysisError('%s.%s vanished' % (cls.qualname, dunder))
    p = f.params
    if len(p) != 2:
        raise AnalysisError('%s: unexpected signature' % f.construct)
    me, other = p
    built = []
    for r in returns_of(f):
        v = r.value
        if isinstance(v, ast.Call) and ix.resolve_expr(f.module, v.func) == target_qual:
            built.append((r, v))
    if not built:
        ctx.ob(rule, f.construct, '%s builds %s' % (dunder, target_qual.rpartition('.')[2]), False,
               detail='%s.%s no longer builds a %s' % (cls.name, dunder, target_qual.rpartition('.')[2]), where=f.where)
        return
    for r, v in built:
        if len(v.args) != 3 or v.keywords:
            raise AnalysisError('%s: constructor call shape not recognised: %s' % (f.construct, unparse(v)))
        a0, a1 = unparse(v.args[0]), unparse(v.args[1])
        want = (other, me) if reflected else (me, other)
        opq = ix.resolve_expr(f.module, v.args[2])
        ok_order = (a0, a1) == want
        ok_op = opq == 'operator.' + opname
        ctx.ob(rule, f.construct, '%s passes operands %s and operator.%s' % (dunder, want, opname), ok_order and ok_op,
               detail=('%s builds %s: expected operands %s and operator.%s' % (dunder, unparse(v), want, opname)),
               where=where(f, r))


def field_deps_flow(func, fields_of_interest=None):
    """name -> set of self fields it may derive from, at each return; returns (Flow, classify)."""
    selfname = func.self_name

    def classify(expr, state):
        tags = set()
        for n in ast.walk(expr):
            if isinstance(n, ast.Attribute) and isinstance(n.value, ast.Name) and n.value.id == selfname:
                tags.add('self.' + n.attr)
            elif isinstance(n, ast.Name) and n.id in state:
                tags |= {t for t in state[n.id] if t.startswith('self.')}
        return tags
    return classify


def check_binary_apply(ctx, rule, cls, f, op_field, left_field, right_field):
    """Every call ``self.<op>(l, r)``: l derives from left_field only and r from right_field only."""
    if f is None:
        raise AnalysisError('%s: evaluation method vanished' % cls.qualname)
    selfname = f.self_name
    classify = field_deps_flow(f)
    sites = []

    def on_stmt(st, state):
        exprs = [st]
        if isinstance(st, (ast.If, ast.While)):
            exprs = [st.test]
        elif isinstance(st, ast.For):
            exprs = [st.iter]
        elif isinstance(st, ast.With):
            exprs = [i.context_expr for i in st.items]
        for e in exprs:
            for n in ast.walk(e):
                if isinstance(n, ast.Call) and len(n.args) == 2:
                    fn = n.func
                    if is_self_attr(fn, selfname, op_field) or \
                            (isinstance(fn, ast.Name) and 'self.' + op_field in state.get(fn.id, ())):
                        sites.append((n, dict(state), st))
    fl = Flow(classify, on_stmt=on_stmt)
    fl.run(f.node, {})
    seen = set()
    for call, state, st in sites:
        if id(call) in seen:
            continue
        seen.add(id(call))
        l = classify(call.args[0], state)
        rr = classify(call.args[1], state)
        L, Rr = 'self.' + left_field, 'self.' + right_field
        ok = L in l and Rr not in l and Rr in rr and L not in rr
        ctx.ob(rule, f.construct, 'applies %s(left, right) in that order' % op_field, ok,
               detail='%s applies its operator to (%s, %s): first operand derives from %s, second from %s; expected '
                      'left then right' % (f.construct, unparse(call.args[0]), unparse(call.args[1]), sorted(l), sorted(rr)),
               where=where(f, st))
    if not sites:
        ctx.ob(rule, f.construct, 'applies %s(left, right)' % op_field, False,
               detail='no call applying self.%s to two operands was found' % op_field, where=f.where)


# ---------------------------------------------------------------------------------------
def check_ctor_copies(ctx, rule, cls, f, params):
    """Every store of an operand parameter into a field stores a copy (or None)."""
    selfname = f.self_name
    stores = []

    def classify(expr, state):
        if isinstance(expr, ast.Call) and isinstance(expr.func, ast.Attribute) and expr.func.attr in ('copy', 'deepcopy') \
                and isinstance(expr.func.value, ast.Name) and not expr.args:
            src = state.get(expr.func.value.id, frozenset())
            return {t.replace('raw:', 'copied:') for t in src}
        if isinstance(expr, ast.Call) and dotted_chain(expr.func) in (['copy', 'copy'], ['copy', 'deepcopy'], ['deepcopy']) \
                and len(expr.args) == 1 and isinstance(expr.args[0], ast.Name):
            src = state.get(expr.args[0].id, frozenset())
            return {t.replace('raw:', 'copied:') for t in src}
        if isinstance(expr, ast.Constant) and expr.value is None:
            return {'none'}
        if isinstance(expr, ast.Name):
            return set(state.get(expr.id, ()))
        if isinstance(expr, ast.IfExp):
            # `p.copy() if p else p`: each arm is read under what the test says about p
            return classify(expr.body, refine(expr.test, state, True)) | classify(expr.orelse, refine(expr.test, state, False))
        if isinstance(expr, ast.BoolOp) and isinstance(expr.op, ast.And) and len(expr.values) == 2:
            # `p and p.copy()`: p itself only when it is falsy
            return classify(expr.values[0], refine(expr.values[0], state, False)) | classify(expr.values[1], refine(expr.values[0], state, True))
        tags = set()
        for n in ast.walk(expr):
            if isinstance(n, ast.Name) and n.id in state:
                tags |= state[n.id]
        return tags

    def refine(test, state, branch):
        # ``if p:`` / ``if p is not None:`` : on the other branch p is None-like
        name = None
        positive = True
        if isinstance(test, ast.Name):
            name = test.id
        elif isinstance(test, ast.UnaryOp) and isinstance(test.op, ast.Not) and isinstance(test.operand, ast.Name):
            name, positive = test.operand.id, False
        elif isinstance(test, ast.Compare) and len(test.ops) == 1 and isinstance(test.left, ast.Name) \
                and isinstance(test.comparators[0], ast.Constant) and test.comparators[0].value is None:
            name = test.left.id
            positive = isinstance(test.ops[0], ast.IsNot)
        if name is None or name not in state:
            return state
        if branch != positive:
            st = dict(state)
            st[name] = frozenset(['none'])
            return st
        return state

    def on_store(target, tags, state, stmt):
        if isinstance(target, ast.Attribute) and isinstance(target.value, ast.Name) and target.value.id == selfname:
            stores.append((target.attr, set(tags), stmt))

    fl = Flow(classify, refine=refine, on_store=on_store)
    fl.run(f.node, {p: frozenset(['raw:' + p]) for p in params})
    seen = set()
    for attr, tags, stmt in stores:
        related = [t for t in tags if t.split(':')[-1] in params]
        if not related:
            continue
        raw = sorted(t for t in tags if t.startswith('raw:'))
        for t in tags:
            if ':' in t:
                seen.add(t.split(':')[1])
        ctx.ob(rule, '%s.%s' % (f.construct, attr), 'field %s holds a copy of the operand, not the operand' % attr, not raw,
               detail='%s stores the caller\'s object itself into self.%s (%s): a later edit of the operand or of the '
                      'composite changes the other' % (f.construct, attr, norm(stmt)), where=where(f, stmt))
    for p in params:
        if p not in seen:
            ctx.ob(rule, '%s.%s' % (f.construct, p), 'operand %s is stored' % p, False,
                   detail='%s never stores operand %s' % (f.construct, p), where=f.where)


# ---------------------------------------------------------------------------------------
def copy_builds_class(ix, c, fn):
    """Does copy() (function fn, resolved for class c) return an instance of c?"""
    selfname = fn.self_name
    rets = returns_of(fn)
    if not rets:
        return False, 'copy() of %s (defined in %s) returns nothing' % (c.name, fn.cls.name)

    def built(v, depth=0):
        if isinstance(v, ast.Name) and depth < 3:
            defs = [st for st in walk_no_nested(fn.node) if isinstance(st, ast.Assign)
                    and any(isinstance(t, ast.Name) and t.id == v.id for t in st.targets)]
            res = [built(d.value, depth + 1) for d in defs]
            if res and all(r[0] for r in res):
                return True, ''
            return (False, res[0][1]) if res else (False, 'result variable %s is never assigned' % v.id)
        if not isinstance(v, ast.Call):
            return False, 'returns %s' % unparse(v)
        from ..util import expand_locals
        f = expand_locals(fn.node, v.func)
        txt = unparse(f).replace(' ', '')
        if txt in ('type(%s)' % selfname, '%s.__class__' % selfname):
            return True, ''
        ch = dotted_chain(f)
        if ch in (['copy', 'copy'], ['copy', 'deepcopy'], ['deepcopy']) and v.args and unparse(v.args[0]) == selfname:
            return True, ''
        q = ix.resolve_expr(fn.module, f)
        k = ix.classes.get(q)
        if k is not None:
            if k.qualname == c.qualname:
                return True, ''
            return False, ('copy() of %s resolves to %s.copy, which builds a %s: the copy is not a %s%s'
                           % (c.name, fn.cls.name, k.name, c.name,
                              ' (it is the empty base selection)' if k.name == 'SubsetState' else ''))
        return False, 'copy() returns %s' % unparse(v)
    for r in rets:
        if r.value is None:
            return False, 'copy() of %s returns None' % c.name
        ok, d = built(r.value)
        if not ok:
            return False, d
    return True, ''


# ---------------------------------------------------------------------------------------
FRESH_CALLS = {'zeros', 'ones', 'empty', 'full', 'array', 'zeros_like', 'ones_like', 'empty_like', 'full_like',
               'arange', 'linspace', 'copy', 'astype', 'isin', 'in1d', 'logical_and', 'logical_or', 'logical_xor',
               'logical_not', 'isfinite', 'isnan', 'where', 'nonzero', 'repeat', 'tile', 'concatenate', 'hstack',
               'vstack', 'stack', 'meshgrid', 'frombuffer', 'fromiter', 'bitwise_and', 'bitwise_or', 'invert',
               'searchsorted', 'digitize', 'round', 'floor', 'ceil', 'clip', 'abs', 'hypot', 'sqrt', 'cos', 'sin',
               'dot', 'sum', 'any', 'all', 'unique', 'sort', 'argsort', 'cumsum', 'diff', 'nan_to_num', 'take',
               'compress', 'choose', 'select', 'interp', 'histogram', 'bincount', 'outer', 'add', 'subtract',
               'multiply', 'divide', 'greater', 'less', 'equal', 'not_equal', 'greater_equal', 'less_equal',
               'points_inside_poly', 'contains', 'contains3d', 'floodfill', 'rotation_matrix_2d', 'ascontiguousarray_copy'}
ALIAS_CALLS = {'require', 'ravel', 'reshape', 'view', 'squeeze', 'transpose', 'swapaxes', 'asarray', 'asanyarray',
               'broadcast_to', 'atleast_1d', 'atleast_2d', 'ascontiguousarray', 'unbroadcast', 'broadcast_arrays',
               'flatten_view'}
SHARED_CALLS = {'to_mask', 'get_mask', 'get_data', 'get_component', 'compute', 'to_array'}
SHARED_ATTRS = {'data', '_data', 'mask', '_mask', 'codes', 'labels', '_categorical_data', 'categories'}


def _mapping_store(st):
    """`d['key'] = v`: a record being filled, not an array written in place."""
    return isinstance(st, ast.Assign) and isinstance(st.targets[0], ast.Subscript) and isinstance(st.targets[0].slice, ast.Constant) \
        and isinstance(st.targets[0].slice.value, str)


def function_views(ix):
    """raw FunctionDef -> the tree the rules should read: the index's view of it (new private helpers inlined, temporaries
    folded), None for a new helper that was inlined everywhere it is called, the node itself for nested functions."""
    byraw = ix.__dict__.get('_views_byraw')
    if byraw is None:
        byraw = {}
        for f in ix.functions.values():
            byraw[id(f.raw_node)] = f
        for c in ix.classes.values():
            for m in c.members.values():
                for f in (m.func, m.fget, m.fset, m.fdel):
                    if f is not None:
                        byraw[id(f.raw_node)] = f
        ix.__dict__['_views_byraw'] = byraw

    def view(raw):
        f = byraw.get(id(raw))
        if f is None:
            return raw
        if ix.helper_status(f) == 'inlined':
            return None
        return f.node
    return view


def check_inplace_fresh(ctx, rule, ix, modules, extra_funcs=(), exceptions=None, borrowed_params=False):
    """In-place writes to array variables: the target must not be (on any reaching definition)
    the result of a mask/data accessor, which may be a memoised mask or component storage."""
    exceptions = exceptions or INPLACE_EXCEPTIONS
    used_exc = set()
    funcs = []
    views = function_views(ix)
    for mname in modules:
        m = ix.module(mname)
        for node in ast.walk(m.tree):
            if isinstance(node, (ast.FunctionDef, ast.AsyncFunctionDef)):
                v = views(node)
                if v is not None:
                    funcs.append((m, v, node))
    for q in extra_funcs:
        f = ix.func(q)
        funcs.append((f.module, f.node, f.raw_node))
    owner = {}
    for mname in modules:
        m = ix.module(mname)
        for cn in ast.walk(m.tree):
            if isinstance(cn, ast.ClassDef):
                for st in cn.body:
                    if isinstance(st, ast.FunctionDef):
                        owner[id(st)] = cn.name
    nsites = 0
    for m, node, raw_ in funcs:
        cname = owner.get(id(raw_))
        construct = '%s:%s%s' % (m.name, (cname + '.') if cname else '', node.name)
        params = [a.arg for a in node.args.posonlyargs + node.args.args + node.args.kwonlyargs]
        data_params = {p for p in params if p in ('data', 'other', 'target_data', 'reference_data')}

        def classify(expr, state, data_params=data_params):
            if isinstance(expr, ast.Name):
                return set(state.get(expr.id, ()))
            if isinstance(expr, (ast.BinOp, ast.Compare, ast.UnaryOp, ast.BoolOp, ast.List, ast.Tuple, ast.ListComp,
                                 ast.Dict, ast.Constant, ast.JoinedStr)):
                return {'fresh'}
            if isinstance(expr, ast.IfExp):
                return classify(expr.body, state) | classify(expr.orelse, state)
            if isinstance(expr, ast.Call):
                name = call_name(expr)
                if name in SHARED_CALLS:
                    return {'shared:%s()' % name}
                if name in FRESH_CALLS:
                    return {'fresh'}
                if name in ALIAS_CALLS:
                    src = None
                    if isinstance(expr.func, ast.Attribute) and not (isinstance(expr.func.value, ast.Name)
                                                                      and expr.func.value.id in ('np', 'numpy')):
                        src = expr.func.value
                    elif expr.args:
                        src = expr.args[0]
                    return classify(src, state) if src is not None else {'unknown'}
                return {'unknown'}
            if isinstance(expr, ast.Subscript):
                base = expr.value
                if isinstance(base, ast.Name) and base.id in data_params and isinstance(expr.slice, ast.Tuple):
                    return {'shared:%s[...]' % base.id}
                if isinstance(base, ast.Attribute) and base.attr in ('data', 'reference_data') \
                        and isinstance(expr.slice, ast.Tuple) and isinstance(base.value, ast.Name) and base.value.id == 'self':
                    return {'shared:self.%s[...]' % base.attr}
                return classify(base, state)
            if isinstance(expr, ast.Attribute):
                if expr.attr in ('T', 'flat', 'real', 'imag'):
                    return classify(expr.value, state)
                if expr.attr in SHARED_ATTRS:
                    return {'shared:.%s' % expr.attr}
                return {'unknown'}
            return {'unknown'}

        sites = []

        def on_stmt(st, state):
            tgt = None
            if isinstance(st, ast.AugAssign):
                tgt = st.target
            elif isinstance(st, ast.Assign) and len(st.targets) == 1 and isinstance(st.targets[0], ast.Subscript):
                tgt = st.targets[0]
            if tgt is None:
                return
            base = tgt
            while isinstance(base, ast.Subscript):
                base = base.value
            if isinstance(base, ast.Attribute) and base.attr in ('flat', 'T'):
                base = base.value
            if isinstance(st, ast.AugAssign) and not isinstance(st.target, ast.Subscript) and \
                    not isinstance(st.op, (ast.BitOr, ast.BitAnd, ast.BitXor)):
                # ``x += 1`` on names: only array-mutating for arrays; numeric counters are the norm.
                # We still check them when the name is known to be shared.
                pass
            if isinstance(base, ast.Name):
                tags = set(state.get(base.id, ()))
                sites.append((st, base.id, tags))

        fl = Flow(classify, on_stmt=on_stmt)
        fl.run(node, {p: frozenset(['param']) for p in params})
        for st, name, tags in sites:
            nsites += 1
            shared = sorted(t for t in tags if t.startswith('shared:'))
            if borrowed_params and 'param' in tags and not _mapping_store(st):
                # the arrays a reducer is given belong to the caller (the mask may be a memoised one)
                shared.append('an argument of the call (the caller\'s own array)')
            from ..util import alpha
            key = (construct, norm(st))
            exc = exceptions.get(key)
            if exc is None:
                # the row names the statement up to the renaming of locals
                for k2 in exceptions:
                    if k2[0] == construct and alpha(k2[1]) == alpha(st):
                        key, exc = k2, exceptions[k2]
            if shared and exc is not None:
                used_exc.add(key)
                ctx.exception(rule, '%s `%s`' % key, exc)
                ctx.ob(rule, construct, 'in-place write `%s` targets a fresh array' % norm(st), True, nontrivial=True)
                continue
            ctx.ob(rule, construct, 'in-place write `%s` targets a fresh array' % norm(st), not shared,
                   detail='%s is written in place by `%s` but may be %s - a memoised mask or the stored values of a '
                          'component would be corrupted for every later reader' % (name, norm(st), ', '.join(shared)),
                   where='%s:%d' % (m.relpath, st.lineno))
    for key in exceptions:
        if key not in used_exc and key[0].split(':')[0] in modules:
            raise AnalysisError('stale exception row for %s `%s`: the construct it excuses no longer matches' % key)
    return nsites


INPLACE_EXCEPTIONS = {
    ('glue.core.subset:MaskSubsetState.to_mask', 'result &= (v >= 0) & (v < n)'):
        'self.mask[tuple(vals)] with vals a list of integer arrays is advanced indexing, i.e. a fresh copy',
    ('glue.core.fixed_resolution_buffer:compute_fixed_resolution_buffer', 'array[invalid_all] = invalid_value'):
        'the view is a tuple of integer arrays: unhashable memo key (never cached) and fancy indexing copies; '
        'the write is additionally guarded by flags.writeable',
}


# ---------------------------------------------------------------------------------------
# R-CM: exception-safe context managers
def contextmanager_funcs(ix):
    """All @contextmanager generator functions of the package (incl. nested ones): [(module, node, construct)]."""
    out = []
    for m in ix.modules.values():
        owner = {}
        for cn in ast.walk(m.tree):
            if isinstance(cn, ast.ClassDef):
                for st in cn.body:
                    if isinstance(st, ast.FunctionDef):
                        owner[id(st)] = cn.name
        for node in ast.walk(m.tree):
            if isinstance(node, ast.FunctionDef) and any(unparse(d).split('.')[-1] == 'contextmanager'
                                                         for d in node.decorator_list):
                cname = owner.get(id(node))
                out.append((m, node, '%s:%s%s' % (m.name, (cname + '.') if cname else '', node.name)))
    return out


def _attr_store_targets(st):
    """Attribute paths stored by a simple statement: ['self._paused', 'self._ignore[ignore_type]', ...]."""
    tg = []
    if isinstance(st, ast.Assign):
        tg = list(st.targets)
    elif isinstance(st, (ast.AugAssign, ast.AnnAssign)):
        tg = [st.target]
    out = []
    for t in tg:
        for e in (t.elts if isinstance(t, (ast.Tuple, ast.List)) else [t]):
            if isinstance(e, (ast.Attribute, ast.Subscript)):
                out.append(unparse(e))
    return out


def check_contextmanager(ctx, rule, m, node, construct):
    """Every store before the yield that is undone after it must be undone in a finally."""
    pm = parent_map(node)
    yields = [n for n in walk_no_nested(node) if isinstance(n, (ast.Yield, ast.YieldFrom))]
    if len(yields) != 1:
        ctx.unmodelled(rule, construct, '%d yield expressions' % len(yields))
        return
    y = yields[0]
    pre, post = {}, []
    for st in walk_no_nested(node):
        if not isinstance(st, (ast.Assign, ast.AugAssign)):
            continue
        for t in _attr_store_targets(st):
            if (st.lineno, st.col_offset) < (y.lineno, y.col_offset):
                pre.setdefault(t, []).append(st)
            else:
                post.append((t, st))
    n = 0
    for t, st in post:
        if t not in pre:
            continue
        n += 1
        tr = in_finally(pm, st)
        ok = False
        if tr is not None:
            ok = any(y is x for b in tr.body for x in ast.walk(b))
        ctx.ob(rule, construct, 'the state %s changed before the yield is restored in a finally' % t, ok,
               detail='%s changes %s before its yield and restores it with `%s` outside any finally block: an exception '
                      'raised inside the with-block leaves the state changed for the rest of the session' % (construct, t, norm(st)),
               where='%s:%d' % (m.relpath, st.lineno))
    if n == 0 and not pre:
        # nothing is changed here: the yield sits inside the with-block of another context manager, which restores
        from ..util import enclosing
        w = enclosing(pm, y, (ast.With, ast.AsyncWith))
        if w is not None:
            ctx.ob(rule, construct, 'the state is changed and restored by the context manager `%s` the yield is wrapped in'
                   % norm(w.items[0].context_expr), True)
            return 1
    return n


# ---------------------------------------------------------------------------------------
# must-pass-through on the statement CFG
def node_expr(cfg, n):
    """The part of the ast a CFG node evaluates itself (header expression of compound statements)."""
    st = cfg.stmt[n]
    if st is None:
        return None
    k = cfg.kind[n]
    if k in ('if', 'while'):
        return st.test
    if k == 'for':
        return st.iter
    if k == 'with':
        return ast.Tuple(elts=[i.context_expr for i in st.items], ctx=ast.Load())
    if k in ('try', 'except', 'def', 'finally-entry', 'match'):
        return None
    return st


def nodes_where(cfg, pred):
    out = []
    for n in cfg.nodes():
        e = node_expr(cfg, n)
        if e is not None and pred(e):
            out.append(n)
    return out


def has_call(expr, names):
    """Does expr contain a call whose callee's last name is in ``names``?"""
    for c in ast.walk(expr):
        if isinstance(c, ast.Call) and call_name(c) in names:
            return True
    return False


def must_reach(ctx, rule, func, writes, reaches, what, detail, allowed_guard=None, cfg=None, construct=None):
    """Every normal path from each write node to the exit passes a reach node.

    ``writes``/``reaches``: predicates on the node expression.  ``allowed_guard(test_src)`` returns the
    edge label ('true'/'false') of an ``if`` that may legitimately skip the obligation, or None."""
    from ..cfg import CFG, EXIT
    cfg = cfg or CFG(func.node)
    W = nodes_where(cfg, writes)
    U = set(nodes_where(cfg, reaches))
    pruned = set()
    if allowed_guard is not None:
        for n in cfg.nodes():
            if cfg.kind[n] == 'if':
                lab = allowed_guard(unparse(cfg.stmt[n].test))
                if lab:
                    pruned.add((n, lab))
    results = []
    for w in W:
        st = cfg.stmt[w]
        path = cfg.path_avoiding(w, EXIT, avoid=U - {w}, labels_excluded=('exc', 'raise'), pruned_edges=pruned) \
            if w not in U or True else None
        if w in U:
            path = None if _only_self(cfg, w, U) else path
        ok = path is None
        c = construct or func.construct
        ctx.ob(rule, '%s `%s`' % (c, norm(node_expr(cfg, w))), what, ok,
               detail=detail % dict(func=func.construct, stmt=norm(node_expr(cfg, w))),
               where=where(func, st), path=cfg.guards_on_path(path) if path else None)
        results.append((w, ok))
    return W, U, cfg


def _only_self(cfg, w, U):
    return False


# ---------------------------------------------------------------------------------------
# R-ITER: no structural mutation of a collection inside a ``for`` over the same expression
MUTATORS = ('remove', 'append', 'pop', 'insert', 'clear', 'extend', 'discard', 'add', 'popitem', 'update', 'setdefault',
            '__delitem__', '__setitem__')


def iter_mutations(func_node):
    """[(for node, collection text, mutating node)] for loops that iterate a live collection and mutate it."""
    out = []
    for lp in ast.walk(func_node):
        if not isinstance(lp, ast.For):
            continue
        it = lp.iter
        # live iteration only: a bare name / attribute chain, or .items()/.keys()/.values() of one
        base = it
        if isinstance(it, ast.Call) and isinstance(it.func, ast.Attribute) and it.func.attr in ('items', 'keys', 'values') \
                and not it.args:
            base = it.func.value
        if not isinstance(base, (ast.Name, ast.Attribute)):
            continue
        coll = unparse(base)
        if isinstance(base, ast.Name) and len(coll) <= 0:
            continue
        for st in lp.body:
            for n in ast.walk(st):
                hit = None
                if isinstance(n, ast.Call) and isinstance(n.func, ast.Attribute) and n.func.attr in MUTATORS \
                        and unparse(n.func.value) == coll:
                    hit = n
                elif isinstance(n, ast.Delete):
                    for t in n.targets:
                        if isinstance(t, ast.Subscript) and unparse(t.value) == coll:
                            hit = n
                elif isinstance(n, ast.Assign):
                    for t in n.targets:
                        if isinstance(t, ast.Subscript) and unparse(t.value) == coll and isinstance(base, ast.Attribute) \
                                and isinstance(it, ast.Call):
                            loopvars = {x.id for x in ast.walk(lp.target) if isinstance(x, ast.Name)}
                            if isinstance(t.slice, ast.Name) and t.slice.id in loopvars:
                                continue     # re-binding an existing key does not resize the dict
                            hit = n      # d[k] = v while iterating d.items() may resize
                if hit is not None:
                    # a mutation immediately followed by leaving the loop is safe
                    out.append((lp, coll, hit))
    return out


def _leaves_loop_after(lp, node):
    """Is the mutation directly followed by break/return in the same block?"""
    for blk in ast.walk(lp):
        for fld in ('body', 'orelse'):
            seq = getattr(blk, fld, None)
            if not isinstance(seq, list):
                continue
            for i, st in enumerate(seq):
                if any(x is node for x in ast.walk(st)):
                    rest = seq[i + 1:]
                    if rest and isinstance(rest[0], (ast.Break, ast.Return)):
                        return True
                    if isinstance(st, ast.Return):
                        return True
    return False


def check_iter_mutation(ctx, rule, func, exceptions=None):
    n = 0
    for lp, coll, hit in iter_mutations(func.node):
        if _leaves_loop_after(lp, hit):
            continue
        n += 1
        key = (func.construct, coll)
        if exceptions and key in exceptions:
            ctx.exception(rule, '%s loop over %s' % key, exceptions[key])
            continue
        ctx.ob(rule, func.construct, 'the loop over %s does not mutate it' % coll, False,
               detail='%s iterates %s and mutates it inside the loop with `%s`: elements are skipped (or the iteration fails)'
                      % (func.construct, coll, norm(hit)), where=where(func, hit))
    return n


# ---------------------------------------------------------------------------------------
# R-XY: paired x / y expressions agree up to the renaming y -> x (cross-checking siblings, Engler et al.)
def xy_pairs(tree):
    """{y-identifier: x-identifier} for the identifiers of a module that come in x/y pairs."""
    idents = {n.id for n in ast.walk(tree) if isinstance(n, ast.Name)} | {n.attr for n in ast.walk(tree) if isinstance(n, ast.Attribute)} | \
        {a.arg for n in ast.walk(tree) if isinstance(n, ast.arguments) for a in n.args + n.kwonlyargs}
    pairs = {}
    for i in idents:
        for a, b in (('y', 'x'), ('Y', 'X'), ('height', 'width')):
            if a in i:
                j = i.replace(a, b)
                if j in idents and j != i:
                    pairs[i] = j
                    break
    return pairs


def check_xy_symmetry(ctx, rule, mod, exceptions, floor):
    """Two-operand conjunctions / disjunctions / pairs whose first operand mentions only x-names and whose second only
    y-names must be the same expression up to the renaming."""
    import copy
    pairs = xy_pairs(mod.tree)
    xs = set(pairs.values())

    class Ren(ast.NodeTransformer):
        def visit_Name(self, n):
            return ast.copy_location(ast.Name(id=pairs.get(n.id, n.id), ctx=n.ctx), n)

        def visit_Attribute(self, n):
            self.generic_visit(n)
            return ast.copy_location(ast.Attribute(value=n.value, attr=pairs.get(n.attr, n.attr), ctx=n.ctx), n)

    def names(e):
        return [n.id for n in ast.walk(e) if isinstance(n, ast.Name)] + [n.attr for n in ast.walk(e) if isinstance(n, ast.Attribute)]

    owner = {}
    for top in ast.walk(mod.tree):
        if isinstance(top, ast.ClassDef):
            for ch in top.body:
                if isinstance(ch, (ast.FunctionDef, ast.AsyncFunctionDef)):
                    for x in ast.walk(ch):
                        owner.setdefault(id(x), '%s.%s' % (top.name, ch.name))
    for top in mod.tree.body:
        if isinstance(top, (ast.FunctionDef, ast.AsyncFunctionDef)):
            for x in ast.walk(top):
                owner.setdefault(id(x), top.name)
    n = 0
    used = set()
    for node in ast.walk(mod.tree):
        ops = None
        if isinstance(node, ast.BoolOp) and len(node.values) == 2:
            ops = node.values
        elif isinstance(node, ast.Tuple) and len(node.elts) == 2:
            ops = node.elts
        if not ops:
            continue
        a, b = ops
        na, nb = names(a), names(b)
        if not (any(x in xs for x in na) and not any(x in pairs for x in na) and any(x in pairs for x in nb) and not any(x in xs for x in nb)):
            continue
        n += 1
        ta, tb = unparse(a), unparse(b)
        same = unparse(Ren().visit(copy.deepcopy(b))) == ta
        where_ = owner.get(id(node), '<module>')
        key = '%s | %s' % (ta, tb)
        if not same and key in exceptions:
            used.add(key)
            ctx.exception(rule, '%s:%s `%s`' % (mod.name, where_, key[:80]), exceptions[key])
            continue
        ctx.ob(rule, '%s:%s `%s`' % (mod.name, where_, key[:100]), 'the y-expression is the x-expression with y for x', same,
               detail='in %s:%s the paired expressions `%s` and `%s` differ by more than the renaming x -> y: one of the two is a slip '
                      '(the sibling expression is the reference)' % (mod.name, where_, ta, tb), where='%s:%d' % (mod.relpath, node.lineno))
    stale = [k for k in exceptions if k not in used]
    if stale:
        raise AnalysisError('%s: stale x/y exception rows: %s' % (rule, stale))
    if n < floor:
        raise AnalysisError('%s: only %d x/y pairs found in %s (expected at least %d)' % (rule, n, mod.name, floor))
    return n


# ---------------------------------------------------------------------------------------
# R-NAN: range membership is tested positively (lo <= x and x <= hi); "outside" tests (x < lo or x > hi) let NaN through
def _cmp_parts(e):
    if isinstance(e, ast.Compare) and len(e.ops) == 1:
        return e.left, e.ops[0], e.comparators[0]
    return None


def range_tests(tree):
    """(kind, node): 'inside' for lo<=x & x<=hi style conjunctions, 'outside' for x<lo | x>hi style disjunctions on one operand."""
    out = []
    for n in ast.walk(tree):
        pair = None
        if isinstance(n, ast.BoolOp) and len(n.values) == 2:
            pair = (n.values[0], n.values[1], 'and' if isinstance(n.op, ast.And) else 'or')
        elif isinstance(n, ast.BinOp) and isinstance(n.op, (ast.BitAnd, ast.BitOr)):
            pair = (n.left, n.right, 'and' if isinstance(n.op, ast.BitAnd) else 'or')
        if not pair:
            continue
        a, b = _cmp_parts(pair[0]), _cmp_parts(pair[1])
        if not a or not b:
            continue

        def norm_(c):
            l, op, r = c
            # orient as  <operand> <op> <bound>
            return (unparse(l), type(op).__name__, unparse(r)), (unparse(r), {'Lt': 'Gt', 'LtE': 'GtE', 'Gt': 'Lt', 'GtE': 'LtE'}.get(type(op).__name__), unparse(l))
        for x in norm_(a):
            for y in norm_(b):
                if x[1] is None or y[1] is None or x[0] != y[0] or x[2] == y[2]:
                    continue
                lower = {x[1], y[1]} & {'Gt', 'GtE'}
                upper = {x[1], y[1]} & {'Lt', 'LtE'}
                if lower and upper:
                    if pair[2] == 'and':
                        out.append(('inside', n))
                    else:
                        out.append(('outside', n))
    seen, res = set(), []
    for k, n in out:
        if id(n) not in seen:
            seen.add(id(n))
            res.append((k, n))
    return res


def check_nan_safe_ranges(ctx, rule, mods, floor):
    n_in = 0
    for mod in mods:
        for kind, node in range_tests(mod.tree):
            if kind == 'inside':
                n_in += 1
                continue
            ctx.ob(rule, '%s `%s`' % (mod.name, unparse(node)[:80]), 'range membership is decided by a positive test (NaN is never inside)', False,
                   detail='%s tests `%s`, i.e. whether the value is OUTSIDE the range: a NaN (missing value) is neither below nor above, so '
                          'it is not rejected and ends up selected; the sibling range tests of these modules are written as '
                          '`lo <= x and x <= hi`, which NaN fails' % (mod.name, unparse(node)), where='%s:%d' % (mod.relpath, node.lineno))
    ctx.ob(rule, 'positive range tests', '%d range tests are written positively' % n_in, True, nontrivial=False)
    if n_in < floor:
        raise AnalysisError('%s: only %d positive range tests recognised (expected at least %d)' % (rule, n_in, floor))


def check_element_order(ctx, rule, ix, modules, what='the results are put back with a C-order reshape'):
    """Flatten / reshape calls of the given modules use one element order (C).  Returns the number of calls seen."""
    n = 0
    for mq in modules:
        mod = ix.module(mq)
        for node in ast.walk(mod.tree):
            if not isinstance(node, ast.Call) or not isinstance(node.func, ast.Attribute):
                continue
            if node.func.attr not in ('ravel', 'flatten', 'reshape', 'asfortranarray') and unparse(node.func) != 'np.reshape':
                continue
            n += 1
            order = [k.value for k in node.keywords if k.arg == 'order']
            pos = node.args[0] if node.func.attr in ('ravel', 'flatten') and node.args else None
            o = order[0] if order else pos
            ok = o is None or (isinstance(o, ast.Constant) and o.value == 'C')
            ok = ok and node.func.attr != 'asfortranarray'
            ctx.ob(rule, '%s `%s`' % (mq, unparse(node)[:60]), 'flattening and reshaping use C order', ok,
                   detail='`%s` in %s flattens / reshapes in an element order other than C while %s: for non-contiguous '
                          '(transposed, Fortran-ordered) input the values land at the positions of other elements' % (unparse(node)[:80], mq, what),
                   where='%s:%d' % (mod.relpath, node.lineno))
    return n
