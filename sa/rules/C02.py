"""C02 - a saved session restores to an observationally equivalent session.

Decides: dispatch shape, totality and class preservation of save/restore, field identity
(what was saved from field f comes back into field f), writer/reader key agreement,
inherited loaders fitting constructors, back-references after the yield.
"""
import ast

from ..index import AnalysisError, dotted_chain, norm, unparse, walk_no_nested, body_stmts
from ..serial import Registry
from ..fieldflow import base_field
from ..cfg import CFG
from ..util import calls_in, call_name, where, parent_map, returns_of, enclosing, expand_locals, kwarg
from .. import props

props.prop(
    'C02',
    explanation='Static (ast) model of GlueSerializer/GlueUnSerializer dispatch (MRO + registries + '
                '__gluestate__ methods) applied to every concrete class of the serialisable families found in '
                'the class graph; per class the resolved saver and loader are analysed by field-flow: keys written '
                '<-> keys read, field saved <-> field restored, constructor call of an inherited loader <-> the '
                'subclass constructor, behaviour read-set covered by what is restored.',
    decides='that no selection/region/link/coordinate class is saved by an empty family saver or restored as '
            'another class, that every saved key is read back into the field it came from, that nothing the '
            'behaviour depends on is dropped, that inherited loaders fit the constructors they call, and that '
            'back-references are resolved only after the object is registered; that a function is saved by name only after '
            'an identity test of what the name resolves to',
    not_decided='values (numpy/base64/JSON round-trip of numbers), files re-read by LoadLog, State subclasses '
                '(callback properties discovered at run time), classes outside glue/',
    assumptions=['a saver that raises is a loud failure and satisfies the property',
                 'context.id/context.do/context.object preserve object identity (C02.f checks the cycle breaking)'])
props.also('C02',
           'that record upgrades write a default only under an absence test of the key; that flatten / reshape pairs and views of categorical arrays in the array helpers keep C order and categories; that the type tag of every record is computed by the one helper; that a saved value is never replaced by a default through `saved or default` inside a loader; that restored coordinate components are sorted by (world, axis) before they become the positional identifier lists')

FAMILIES = [
    # (root class, behaviour methods, label)
    ('glue.core.subset.SubsetState', ['to_mask'], 'selection'),
    ('glue.core.roi.Roi', ['contains', 'contains3d'], 'region'),
    ('glue.core.component_link.ComponentLink', ['compute'], 'link'),
    ('glue.core.coordinates.Coordinates', ['pixel_to_world_values', 'world_to_pixel_values'], 'coordinates'),
    ('glue.core.link_helpers.LinkCollection', [], 'link collection'),
    ('glue.core.component.Component', [], 'component'),
    ('glue.core.roi_pretransforms.ProjectionMplTransform', ['__call__'], 'pretransform'),
    ('glue.core.roi_pretransforms.RadianTransform', ['__call__'], 'pretransform'),
    ('glue.core.roi_pretransforms.FullSphereLongitudeTransform', ['__call__'], 'pretransform'),
    ('glue.core.link_helpers.PartialResult', ['__call__'], 'partial result'),
    ('glue.core.parse.ParsedCommand', ['evaluate'], 'parsed command'),
    ('glue.core.subset.Subset', [], 'subset'),
    ('glue.core.subset_group.SubsetGroup', [], 'subset group'),
    ('glue.core.visual.VisualAttributes', [], 'style'),
    ('glue.core.data.Data', [], 'dataset'),
    ('glue.core.data_collection.DataCollection', [], 'collection'),
    ('glue.core.component_id.ComponentID', [], 'component id'),
    ('glue.viewers.image.state.AggregateSlice', [], 'aggregate slice'),
    ('glue.core.data_factories.helpers.LoadLog', [], 'load log'),
]

# classes whose save/restore is deliberately outside the field-flow model, with the reason
UNMODELLED = {
    'glue.core.data_factories.helpers.LoadLog': 'rebuilt by re-reading the file (the data are outside the source)',
    'glue.core.visual.VisualAttributes': 'keys discovered from style._atts at run time',
    'glue.core.coordinates.Coordinates': 'abstract base (external ABC); redirected to LegacyCoordinates by the rename table',
}

# keys a saver writes that its loader deliberately does not read
WRITTEN_NOT_READ = {
    ('glue.core.data_collection.DataCollection', 'cids'): 'written only to force registration of identifiers',
    ('glue.core.data_collection.DataCollection', 'components'): 'written only to force registration of components',
    ('glue.core.subset_group.GroupedSubset', 'style'): 'the style is the group\'s; restored through the group',
}

# (loader qualname, key): the key may point back to the object under construction
BACKREFS = [
    ('glue.core.state._load_data_3', '_key_joins'),
    ('glue.core.state._load_data_4', '_key_joins'),
    ('glue.core.state._load_data_5', '_key_joins'),
    ('glue.core.state._load_regiondata', '_key_joins'),
    ('glue.core.subset_group.GroupedSubset.__setgluestate__', 'group'),
    ('glue.core.subset_group.SubsetGroup.__setgluestate__', 'subsets'),
    ('glue.core.subset_group.SubsetGroup.__setgluestate__', 'state'),
]


def run(ctx):
    ix = ctx.index
    reg = Registry(ix)
    if reg.problems:
        raise AnalysisError('registry scan: ' + '; '.join(reg.problems))
    ctx.guard(rule_a, ctx, ix)
    classes = ctx.guard(rule_b, ctx, ix, reg)
    ctx.guard(rule_c, ctx, ix, reg, classes)
    ctx.guard(rule_d, ctx, ix, reg, classes)
    ctx.guard(rule_e, ctx, ix, reg, classes)
    ctx.guard(rule_f, ctx, ix, reg)
    ctx.guard(rule_g, ctx, ix)
    ctx.guard(rule_h, ctx, ix)
    ctx.guard(rule_i, ctx, ix)
    ctx.guard(rule_j, ctx, ix)
    ctx.guard(rule_k, ctx, ix, reg)
    ctx.guard(rule_l, ctx, ix)
    ctx.guard(rule_m, ctx, ix)
    ctx.guard(rule_n, ctx, ix)


# ---------------------------------------------------------------------------------------
def rule_a(ctx, ix):
    R = 'C02.a'
    ctx.describe(R, 'dispatch shape: method first, then first registry hit in MRO order, loud failure', floor=8)
    ser = ix.cls('glue.core.state.GlueSerializer')
    f = ser.resolve_func('_dispatch')
    if f is None:
        raise AnalysisError('GlueSerializer._dispatch vanished')
    _dispatch_shape(ctx, R, f, '__gluestate__', 'saver')
    un = ix.cls('glue.core.state.GlueUnSerializer')
    g = un.resolve_func('_dispatch')
    if g is None:
        raise AnalysisError('GlueUnSerializer._dispatch vanished')
    _dispatch_shape(ctx, R, g, '__setgluestate__', 'loader')
    # the type path written is that of type(obj)
    do = ser.resolve_func('do')
    stores = [st for st in walk_no_nested(do.node) if isinstance(st, ast.Assign)
              and isinstance(st.targets[0], ast.Subscript) and isinstance(st.targets[0].slice, ast.Constant)
              and st.targets[0].slice.value == '_type']
    generic = [st for st in stores if not isinstance(st.value, ast.Constant)]
    ok = False
    for st in generic:
        txt = unparse(expand_locals(do.node, st.value)).replace(' ', '')
        p = do.params[1]
        v_ = expand_locals(do.node, st.value)
        if isinstance(v_, ast.Call) and isinstance(v_.func, ast.Attribute) and isinstance(v_.func.value, ast.Name) and \
                v_.func.value.id in (do.self_name, 'cls') and len(v_.args) == 1 and unparse(v_.args[0]) == p:
            # the tag is computed by a helper of the class (fixed names for a few types first): its general answer is its
            # last, unconditional return
            h_ = ser.resolve_func(v_.func.attr)
            if h_ is not None and len(h_.params) >= 2:
                tops = [x for x in body_stmts(h_.node) if isinstance(x, ast.Return) and x.value is not None]
                if tops:
                    txt = unparse(tops[-1].value).replace(' ', '')
                    p = h_.params[-1]
        ok = ('type(%s).__module__' % p in txt and 'type(%s).__name__' % p in txt and
              txt.index('__module__') < txt.index('__name__'))
    ctx.ob(R, do.construct, '_type records module.name of type(obj)', ok,
           detail='the recorded _type is not "<module>.<name>" of the saved object\'s class', where=do.where)


def _dispatch_shape(ctx, R, f, dunder, what):
    body = body_stmts(f.node)
    # a dispatch that only fronts a helper of the class (a memo, a wrapper): the shape is that of the helper it hands the
    # object / record to
    if f.cls is not None and not any(isinstance(n, ast.For) for n in walk_no_nested(f.node)):
        for c in calls_in(f.node, nested=True):
            if isinstance(c.func, ast.Attribute) and unparse(c.func.value) == f.self_name and len(f.params) > 1 and \
                    any(unparse(a) == f.params[1] for a in c.args):
                h = f.cls.resolve_func(c.func.attr)
                if h is not None and h is not f and any(isinstance(n, ast.For) for n in walk_no_nested(h.node)):
                    return _dispatch_shape(ctx, R, h, dunder, what)
    # (1) the method test dominates the registry loop
    loops = [n for n in walk_no_nested(f.node) if isinstance(n, ast.For)]
    mro_loops = [lp for lp in loops if isinstance(lp.iter, ast.Call) and isinstance(lp.iter.func, ast.Attribute)
                 and lp.iter.func.attr == 'mro']
    ctx.ob(R, f.construct, '%s dispatch walks <type>.mro() in MRO order' % what, len(mro_loops) == 1,
           detail='the %s dispatch does not iterate exactly once over <type>.mro() (found iterables: %s) - the most '
                  'specific registered %s would no longer win' % (what, [unparse(lp.iter) for lp in loops], what),
           where=f.where)
    if len(mro_loops) != 1:
        return
    lp = mro_loops[0]
    hs = [n for n in walk_no_nested(f.node) if isinstance(n, ast.Call) and isinstance(n.func, ast.Name)
          and n.func.id == 'hasattr' and len(n.args) == 2 and isinstance(n.args[1], ast.Constant)
          and n.args[1].value == dunder]
    ok = bool(hs) and all(h.lineno < lp.lineno for h in hs)
    ctx.ob(R, f.construct, '%s is looked up before the registry' % dunder, ok,
           detail='%s is not tested before the registry walk' % dunder, where=f.where)
    # (2) first hit returns
    rets = [n for n in ast.walk(lp) if isinstance(n, ast.Return)]
    ctx.ob(R, f.construct, 'the first registry hit in MRO order is returned', bool(rets),
           detail='the registry walk does not return at its first hit', where=where(f, lp))
    # (3) loud failure
    raises = [n for n in walk_no_nested(f.node) if isinstance(n, ast.Raise) and n.lineno > lp.lineno]
    ok = any('GlueSerializeError' in unparse(r) for r in raises)
    ctx.ob(R, f.construct, 'no %s found raises GlueSerializeError' % what, ok,
           detail='falling out of the registry walk does not raise GlueSerializeError (an unknown class would be '
                  'silently skipped)', where=f.where)


# ---------------------------------------------------------------------------------------
def _family_classes(ix):
    out = []
    seen = set()
    for root, behaviour, label in FAMILIES:
        rc = ix.cls(root)
        for c in rc.subclasses():
            if c.qualname in seen:
                continue
            seen.add(c.qualname)
            out.append((c, behaviour, label, rc))
    return out


def rule_b(ctx, ix, reg, R='C02.b', floor=90, only_root=None):
    ctx.describe(R, 'every class of the serialisable families resolves to a saver that keeps its state and a '
                    'loader that rebuilds the same class', floor=floor)
    classes = []
    for c, behaviour, label, root in _family_classes(ix):
        if only_root is not None and root.qualname != only_root:
            continue
        skind, sfunc, sver, svia = reg.saver_for(c)
        if sfunc is None:
            ctx.ob(R, c.construct, 'no saver: saving fails loudly', True, nontrivial=False)
            continue
        sinfo = reg.saver_info(sfunc, c)
        lkind, lfunc, lvia = reg.loader_for(c, sver)
        B = {base_field(x) for x in reg.ff.behaviour_reads(c, behaviour)} if behaviour else set()
        rec = dict(cls=c, behaviour=behaviour, label=label, sfunc=sfunc, sver=sver, sinfo=sinfo, lfunc=lfunc,
                   linfo=None, B=B, svia=svia, lvia=lvia, skind=skind)
        classes.append(rec)
        if sinfo.raises and not sinfo.keys:
            ctx.ob(R, c.construct, 'saver raises: saving fails loudly', True, nontrivial=False)
            continue
        # (1) not an empty family saver while the behaviour has state
        empty = sinfo.empty_literal and not sinfo.keys and not sinfo.unmodelled
        ctx.ob(R, c.construct, 'saver %s records the state the %s depends on' % (sfunc.name, label),
               not (empty and B),
               detail='%s is saved by %s (registered for %s), which writes no keys, although its behaviour reads %s; '
                      'it is restored as an empty/default object - silently' % (c.name, sfunc.construct, svia, sorted(B)),
               where=c.where)
        if lfunc is None:
            ctx.ob(R, c.construct, 'a loader exists for what the saver writes', False,
                   detail='%s can be saved (by %s, version %s) but no loader resolves for it' % (c.name, sfunc.construct, sver),
                   where=c.where)
            continue
        linfo = reg.loader_info(lfunc, c)
        rec['linfo'] = linfo
        # (2) the loader rebuilds C
        if c.qualname in UNMODELLED:
            ctx.exception(R, c.qualname, UNMODELLED[c.qualname])
            continue
        builds = linfo.constructs
        ok = True
        detail = ''
        if not builds:
            if linfo.chained:
                ok = True
            else:
                ok = None
        for kind, k, call in builds:
            if kind == 'class' and k is not None and k.qualname != c.qualname:
                # a helper object built on the way (e.g. a dummy group) is fine if C itself is also built
                if any(kk == 'cls' or kk == 'lookup' or (kc is not None and kc.qualname == c.qualname)
                       for kk, kc, _ in builds):
                    continue
                if k.is_subclass_of(c) or c.is_subclass_of(k):
                    ok = False
                    detail = ('%s is restored by %s (found through %s), which builds a %s: the restored object is not a %s'
                              % (c.name, lfunc.construct, lvia, k.name, c.name))
        if ok is None:
            ctx.unmodelled(R, c.construct, 'loader %s builds its result in a way the model does not follow' % lfunc.construct)
            continue
        ctx.ob(R, c.construct, 'loader %s rebuilds a %s' % (lfunc.name, c.name), ok, detail=detail, where=where(lfunc))
    return classes


# ---------------------------------------------------------------------------------------
def rule_c(ctx, ix, reg, classes, R1='C02.c(i)', R2='C02.c(ii)', floors=(100, 30)):
    ctx.describe(R1, 'field identity: what was saved from field f comes back into field f', floor=floors[0])
    ctx.describe(R2, 'nothing the behaviour depends on is dropped between saver and loader', floor=floors[1])
    for rec in classes:
        c, sinfo, linfo = rec['cls'], rec['sinfo'], rec['linfo']
        if linfo is None or c.qualname in UNMODELLED:
            continue
        if sinfo.unmodelled:
            ctx.unmodelled(R1, c.construct, 'saver: ' + sinfo.unmodelled)
            continue
        cf = reg.ff.ctor_flow(c)
        for k in sorted(sinfo.keys):
            fs = sinfo.keys[k]
            fl = linfo.key_fields.get(k, set())
            if not fs or not fl:
                continue
            fsb = {base_field(x) for x in fs}
            flb = {base_field(x) for x in fl}
            ok = bool(fsb & flb)
            detail = ''
            if not ok:
                # saved from a field that the constructor derives from the restored one?
                derived = set()
                for x in fsb:
                    for s in cf.field_src.get(x, ()):
                        if s[0] == 'field':
                            derived.add(base_field(s[1]))
                ok = bool(derived & flb)
            if ok:
                # index-precise: _atts[0] must come back into _atts[0]
                for x in fs:
                    if '[' in x:
                        same = [y for y in fl if '[' in y and base_field(y) == base_field(x)]
                        if same and x not in same:
                            ok = False
                            detail = 'key %r is saved from %s but restored into %s' % (k, x, sorted(same))
            if not ok and not detail:
                # a swap or a misnamed argument lands the value in a field that another key was saved from
                other = [k2 for k2, f2 in sinfo.keys.items() if k2 != k and ({base_field(x) for x in f2} & flb)]
                if not other:
                    ctx.unmodelled(R1, c.construct, 'key %r: flow into %s not comparable with its source %s'
                                   % (k, sorted(flb), sorted(fsb)))
                    continue
                detail = ('key %r is saved from field(s) %s of %s but the loader routes it into %s (swapped or '
                          'misnamed argument)' % (k, sorted(fs), c.name, sorted(fl)))
            ctx.ob(R1, c.construct, 'key %r: saved from %s, restored into the same field' % (k, sorted(fsb)), ok,
                   detail=detail, where=where(rec['lfunc']))
        # (ii) behaviour coverage
        B = rec['B']
        if not B:
            continue
        saved = set()
        for k, fs in sinfo.keys.items():
            saved |= {base_field(x) for x in fs}
        restored = set()
        restored_w = set()      # restored from keys the saver really writes
        for k, fl in linfo.key_fields.items():
            restored |= {base_field(x) for x in fl}
            if k in sinfo.written:
                restored_w |= {base_field(x) for x in fl}
        restored |= {base_field(x) for x in linfo.post_fields}
        # derived closure through the constructor
        changed = True
        while changed:
            changed = False
            for fld, srcs in cf.field_src.items():
                b = base_field(fld)
                if b in restored:
                    continue
                fsrc = [s[1] for s in srcs if s[0] == 'field']
                psrc = [s for s in srcs if s[0] == 'param']
                if fsrc and not psrc and all(base_field(x) in restored for x in fsrc):
                    restored.add(b)
                    changed = True
        # fields that only ever hold constants / caches set in the constructor are not state
        const_only = set()
        for fld, srcs in cf.field_src.items():
            if srcs and all(s[0] in ('const', 'selfmethod') for s in srcs):
                const_only.add(base_field(fld))
        # derived closure for the saver side too
        saved_closure = set(saved)
        changed = True
        while changed:
            changed = False
            for fld, srcs in cf.field_src.items():
                b = base_field(fld)
                if b in saved_closure:
                    continue
                fsrc = [s[1] for s in srcs if s[0] == 'field']
                psrc = [s for s in srcs if s[0] == 'param']
                if fsrc and not psrc and all(base_field(x) in saved_closure for x in fsrc):
                    saved_closure.add(b)
                    changed = True
        if sinfo.raises and not sinfo.keys:
            continue
        changed = True
        while changed:
            changed = False
            for fld, srcs in cf.field_src.items():
                b = base_field(fld)
                if b in restored_w:
                    continue
                fsrc = [s_[1] for s_ in srcs if s_[0] == 'field']
                psrc = [s_ for s_ in srcs if s_[0] == 'param']
                if fsrc and not psrc and all(base_field(x) in restored_w for x in fsrc):
                    restored_w.add(b)
                    changed = True
        miss_s = sorted(B - saved_closure - const_only - restored_w)
        ctx.ob(R2, c.construct + ' saver', 'behaviour fields %s are all written by the saver' % sorted(B), not miss_s,
               detail='%s\'s behaviour reads field(s) %s that its saver %s never writes: the restored object behaves '
                      'differently' % (c.name, miss_s, rec['sfunc'].construct), where=where(rec['sfunc']))
        if any(kind in ('cls', 'lookup', 'class') for kind, _, _ in linfo.constructs) or linfo.post_fields:
            miss_l = sorted(B - restored - const_only)
            ctx.ob(R2, c.construct + ' loader', 'behaviour fields %s are all restored by the loader' % sorted(B),
                   not miss_l,
                   detail='%s\'s behaviour reads field(s) %s that its loader %s never restores from the record'
                          % (c.name, miss_l, rec['lfunc'].construct), where=where(rec['lfunc']))


# ---------------------------------------------------------------------------------------
def key_agreement(ctx, R, label, owner_q, sfunc, lfunc, sinfo, linfo, reg):
    if sinfo.unmodelled:
        ctx.unmodelled(R, label, 'saver: ' + sinfo.unmodelled)
        return
    written = sinfo.written
    miss = sorted(k for k in linfo.uncond if k not in written and not k.startswith('_type') and k != '_protocol')
    ctx.ob(R, label, 'keys the loader needs %s are written by the saver' % sorted(linfo.uncond), not miss,
           detail='%s reads key(s) %s unconditionally but %s never writes them: loading what was saved raises KeyError'
                  % (lfunc.construct, miss, sfunc.construct), where=where(lfunc))
    dropped = []
    for k in sorted(written):
        if k in linfo.read or k in ('_protocol', '_type'):
            continue
        exc = WRITTEN_NOT_READ.get((owner_q, k))
        if exc:
            ctx.exception(R, '%s key %s' % (owner_q, k), exc)
            continue
        dropped.append(k)
    ctx.ob(R, label, 'every key written %s is read by the loader' % sorted(written), not dropped,
           detail='%s writes key(s) %s that %s never reads: that part of the saved state is silently dropped on restore'
                  % (sfunc.construct, dropped, lfunc.construct), where=where(sfunc))


def rule_d(ctx, ix, reg, classes):
    R = 'C02.d'
    ctx.describe(R, 'writer/reader key agreement for every resolved saver/loader pair', floor=60)
    seen = set()
    for rec in classes:
        if rec['linfo'] is None:
            continue
        c = rec['cls']
        key = (rec['sfunc'].qualname, rec['sfunc'].node.lineno, rec['lfunc'].qualname, rec['lfunc'].node.lineno)
        if key in seen:
            continue
        seen.add(key)
        if rec['sinfo'].raises and not rec['sinfo'].keys:
            continue
        if c.qualname in UNMODELLED:
            ctx.exception(R, c.qualname, UNMODELLED[c.qualname])
            continue
        owner = rec['sfunc'].cls.qualname if rec['sfunc'].cls is not None else rec['svia']
        key_agreement(ctx, R, '%s <-> %s' % (rec['sfunc'].construct, rec['lfunc'].construct), owner,
                      rec['sfunc'], rec['lfunc'], rec['sinfo'], rec['linfo'], reg)


# ---------------------------------------------------------------------------------------
def rule_e(ctx, ix, reg, classes):
    R = 'C02.e'
    ctx.describe(R, 'the constructor call of the resolved loader fits the constructor of the class it builds; '
                    'no saved value is a bound method of the object itself', floor=60)
    for rec in classes:
        c, linfo, sinfo = rec['cls'], rec['linfo'], rec['sinfo']
        if linfo is None or c.qualname in UNMODELLED:
            continue
        for tcls, call, problems, unmodelled in linfo.ctor_problems:
            if unmodelled:
                ctx.unmodelled(R, c.construct, 'constructor call %s uses star-arguments' % norm(call))
                continue
            ctx.ob(R, c.construct, 'loader call %s fits %s.__init__' % (norm(call)[:60], tcls.name), not problems,
                   detail='%s is restored through %s, whose call %s does not fit %s.__init__: %s - loading a saved %s '
                          'raises TypeError' % (c.name, rec['lfunc'].construct, norm(call)[:80], tcls.name,
                                                '; '.join(problems), c.name),
                   where=where(rec['lfunc'], call))
        # self-reference: a saved value that is a bound method of the saved object
        if rec['skind'] == 'method' and not linfo.is_generator:
            sf = rec['sfunc']
            selfname = sf.self_name
            for k, vals in sinfo.values.items():
                for v in vals:
                    for n in ast.walk(v):
                        if isinstance(n, ast.Attribute) and isinstance(n.value, ast.Name) and n.value.id == selfname:
                            m = c.resolve(n.attr)
                            if m is not None and m.kind == 'method':
                                called = any(isinstance(p, ast.Call) and p.func is n for p in ast.walk(v))
                                srcs = reg.ff.ctor_flow(c).field_src.get(n.attr, set())
                                # an instance attribute assigned from a caller-supplied value shadows the method
                                shadowed = bool(srcs) and not any(s[0] == 'selfmethod' for s in srcs)
                                ctx.ob(R, c.construct, 'saved value of key %r is not a bound method of the object' % k,
                                       called or shadowed,
                                       detail='%s saves self.%s under key %r; for %s that is a bound method of the very '
                                              'object being saved, so the record refers to itself and cannot be loaded '
                                              '(circular reference)' % (sf.construct, n.attr, k, c.name),
                                       where=where(sf))


# ---------------------------------------------------------------------------------------
def rule_f(ctx, ix, newest_of=None):
    """``newest_of``: a Registry - loaders of superseded protocol versions are left to C12 (a save never writes them)."""
    R = 'C02.f'
    ctx.describe(R, 'generator loaders resolve back-references after the yield; the unserialiser registers the '
                    'yielded object before resuming', floor=7 if newest_of is not None else 9)
    old = set()
    if newest_of is not None:
        for t, vs in newest_of.loaders.items():
            for v, fn in vs.items():
                if v < max(vs):
                    old.add(id(fn.raw_node))
    for q, key in BACKREFS:
        f = ix.func(q)
        if id(f.raw_node) in old:
            continue
        body = body_stmts(f.node)
        yi = None
        for i, st in enumerate(body):
            if any(isinstance(n, (ast.Yield, ast.YieldFrom)) for n in ast.walk(st)
                   if not isinstance(n, (ast.FunctionDef, ast.Lambda))):
                yi = i
                break
        if yi is None:
            ctx.ob(R, f.construct, 'loader yields the object before resolving %r' % key, False,
                   detail='%s is no longer a generator loader: key %r may point back to the object under construction '
                          'and would be a circular reference' % (f.construct, key), where=f.where)
            continue
        rec = f.params[1] if f.has_decorator('classmethod') else f.params[0]
        early = []
        nreads = 0
        for i, st in enumerate(body):
            for n in ast.walk(st):
                if isinstance(n, ast.Subscript) and isinstance(n.value, ast.Name) and n.value.id == rec \
                        and isinstance(n.slice, ast.Constant) and n.slice.value == key:
                    nreads += 1
                    if i <= yi:
                        early.append(n)
        if nreads == 0:
            # the key is read by a chained loader or not at all: other rules (C02.d) cover dropped keys
            ctx.ob(R, f.construct, 'key %r is resolved after the yield' % key, True, nontrivial=False)
            continue
        ctx.ob(R, f.construct, 'key %r is resolved after the yield' % key, not early,
               detail='%s resolves key %r before (or in) the statement that yields the partially built object; the '
                      'referenced object refers back, so loading raises "Circular Reference detected"' % (f.construct, key),
               where=where(f, early[0]) if early else f.where)
    un = ix.cls('glue.core.state.GlueUnSerializer')
    f = un.resolve_func('object')
    if f is None:
        raise AnalysisError('GlueUnSerializer.object vanished')
    cfg = CFG(f.node)
    dom = cfg.dominators()
    stores = cfg.find(lambda st: isinstance(st, ast.Assign) and isinstance(st.targets[0], ast.Subscript)
                      and unparse(st.targets[0].value).endswith('._objs'))
    # the generator kept aside when the loader yielded: a name bound in the statement that calls next() on the loader's result
    gens = set()
    for st in ast.walk(f.node):
        if isinstance(st, ast.Assign) and any(isinstance(c, ast.Call) and isinstance(c.func, ast.Name) and c.func.id == 'next' for c in ast.walk(st.value)):
            for t in st.targets:
                for n in ast.walk(t):
                    if isinstance(n, ast.Name):
                        gens.add(n.id)
    for c_ in ast.walk(f.node):
        if isinstance(c_, ast.Call) and isinstance(c_.func, ast.Name) and c_.func.id == 'next' and c_.args and isinstance(c_.args[0], ast.Name):
            gens.add(c_.args[0].id)
    loops = cfg.find(lambda st: isinstance(st, ast.For) and isinstance(st.iter, ast.Name) and st.iter.id in gens)
    if not stores or not loops:
        raise AnalysisError('GlueUnSerializer.object: registration store or resume loop not recognised')
    # the store is conditional on isinstance(obj_id, str); its *guard* must dominate the loop and the store must precede it
    ok = all(cfg.stmt[s].lineno < cfg.stmt[l].lineno for s in stores for l in loops)
    pm = parent_map(f.node)
    from ..util import enclosing
    same_block = True
    for s in stores:
        for l in loops:
            ps = enclosing(pm, cfg.stmt[s], (ast.Try, ast.FunctionDef))
            pl = enclosing(pm, cfg.stmt[l], (ast.Try, ast.FunctionDef))
            same_block = same_block and (ps is pl)
    ctx.ob(R, f.construct, 'the yielded object is registered before the generator is resumed', ok and same_block,
           detail='GlueUnSerializer.object resumes the generator loader before registering the partially built object: '
                  'any back-reference is a circular reference', where=f.where)
    # working set released in finally
    fin = [n for n in walk_no_nested(f.node) if isinstance(n, ast.Try) and n.finalbody]
    ok = any('_working.remove' in unparse(st) or '_working.discard' in unparse(st) for t in fin for st in t.finalbody)
    ctx.ob(R, f.construct, 'the working-set entry is released in finally', ok,
           detail='GlueUnSerializer.object does not release the working-set entry in a finally block: after a failed '
                  'load every retry reports a circular reference', where=f.where)


def _uncond_in_loop(pm, call, loop):
    from ..util import guard_chain
    return not [g for g, br in guard_chain(pm, call, loop) if isinstance(g, (ast.If, ast.Try))]


def _saved_value(func, key):
    """The expression a saver stores under ``key``: in a dict literal (``dict(key=...)`` / ``{'key': ...}``) or by ``x['key'] = ...``."""
    from ..util import dict_literal_keys
    for n in ast.walk(func.node):
        d = dict_literal_keys(n) if isinstance(n, (ast.Dict, ast.Call)) else None
        if d and key in d:
            return d[key]
        if isinstance(n, ast.Assign) and isinstance(n.targets[0], ast.Subscript) and isinstance(n.targets[0].slice, ast.Constant) \
                and n.targets[0].slice.value == key:
            return n.value
    return None


def _pass_over(func, expr):
    """elementwise() that also follows a local list which is patched in place afterwards (``comps[i] = ...``)."""
    from ..util import elementwise
    ew = elementwise(expr, func.node)
    if ew is not None and isinstance(ew.node, ast.Name):
        defs = [st for st in walk_no_nested(func.node) if isinstance(st, ast.Assign) and len(st.targets) == 1
                and isinstance(st.targets[0], ast.Name) and st.targets[0].id == ew.node.id]
        if len(defs) == 1 and isinstance(defs[0].value, ast.List) and not defs[0].value.elts:
            # a list filled by an append loop: the same pass written out
            from ..util import element_cases, Elementwise
            ec = element_cases(func.node, ew.node)
            if ec is not None:
                src, tgt, cases, filt = ec
                conditional = any(c != ('const', True) for c, v in cases)
                srcw = elementwise(ast.parse(src, mode='eval').body, func.node)
                funcs = tuple(unparse(c_.func) for c, v in cases for c_ in ast.walk(v) if isinstance(c_, ast.Call))
                if srcw is not None:
                    return Elementwise(srcw.source, srcw.node, srcw.filtered or filt or conditional or ew.filtered, srcw.reordered or ew.reordered,
                                       srcw.funcs + funcs + ew.funcs)
        if len(defs) == 1:
            inner = elementwise(defs[0].value, func.node)
            if inner is not None:
                inner.filtered = inner.filtered or ew.filtered
                inner.reordered = inner.reordered or ew.reordered
                inner.funcs = inner.funcs + ew.funcs
                return inner
    return ew


def _whole_pass(ctx, R, func, construct, what, expr, sources, need_func, detail_absent):
    """Tri-state: ``expr`` is one unfiltered, order-preserving pass over one of ``sources`` applying ``need_func`` to each element."""
    ew = _pass_over(func, expr) if expr is not None else None
    good = ew is not None and ew.source in sources and not ew.filtered and not ew.reordered and \
        (need_func is None or any(need_func in f for f in ew.funcs))
    bad = expr is None or (ew is not None and (ew.filtered or ew.reordered or ew.source not in sources or
                                               (need_func is not None and not any(need_func in f for f in ew.funcs))))
    ctx.idiom(R, construct, what, accepted=good, absent=bad and not good,
              detail_absent='%s: %s' % (detail_absent, 'the value is missing' if expr is None else 'found %r over `%s`' % (ew, norm(expr)[:120])),
              shape=norm(expr)[:160] if expr is not None else '', where=func.where)
    return good


def rule_g(ctx, ix):
    """Savers list every element of the collections they save, in order; loaders put every saved element back, unconditionally."""
    from ..util import enclosing
    R = 'C02.g'
    ctx.describe(R, 'collection savers/loaders cover every element, in order, unconditionally', floor=10)
    sd = ix.func('glue.core.state._save_data')
    obj = sd.params[0]
    _whole_pass(ctx, R, sd, sd.construct + ' components', 'every component is saved, in the dataset\'s own order', _saved_value(sd, 'components'),
                ('%s._components' % obj, '%s.components' % obj, '%s.component_ids()' % obj), '.id',
                '_save_data no longer lists the components by one whole pass over data._components (order or completeness is lost)')
    _whole_pass(ctx, R, sd, sd.construct + ' subsets', 'every subset is saved', _saved_value(sd, 'subsets'),
                ('%s.subsets' % obj, '%s._subsets' % obj), '.id', '_save_data no longer lists every subset of the dataset')
    ld = ix.func('glue.core.state._load_data')
    rec = ld.params[0]
    pm = parent_map(ld.node)
    for callee, key, what, nargs in (('add_component', 'components', 'every saved component is added back, unconditionally, in saved order', 2),
                                     ('add_subset', 'subsets', 'every saved subset is attached again', 1)):
        calls = [c for c in calls_in(ld.node) if call_name(c) == callee]
        ok = False
        shape = None
        for c in calls:
            lp = enclosing(pm, c, (ast.For,))
            if lp is None or not _uncond_in_loop(pm, c, lp):
                continue
            ew = _pass_over(ld, lp.iter)
            shape = ew
            if ew is not None and ew.source == "%s['%s']" % (rec, key) and not ew.filtered and not ew.reordered:
                ok = True
        ctx.ob(R, ld.construct + ' ' + key, what, ok,
               detail='_load_data no longer puts every saved entry of rec[%r] back: %s is not called unconditionally in one whole, '
                      'order-preserving pass over the saved list (found: %r)' % (key, callee, shape), where=ld.where)
    sc = ix.func('glue.core.state._save_data_collection_4')
    dc = sc.params[0]
    for key, srcs, what in (('data', (dc,), 'every dataset'), ('links', ('%s.external_links' % dc, '%s._link_manager.external_links' % dc), 'every external link'),
                            ('groups', ('%s.subset_groups' % dc, '%s._subset_groups' % dc), 'every subset group')):
        _whole_pass(ctx, R, sc, sc.construct + ' ' + key, '%s of the collection is saved' % what, _saved_value(sc, key), srcs, '.id',
                    '_save_data_collection_4 no longer saves %s (key %r) in one whole pass' % (what, key))
    lc = ix.func('glue.core.state._load_data_collection_4')
    rec = lc.params[0]
    ctor = [c for c in calls_in(lc.node) if call_name(c) == 'DataCollection' and c.args]
    _whole_pass(ctx, R, lc, lc.construct + ' data', 'every saved dataset is put back into the collection', ctor[0].args[0] if ctor else None,
                ("%s['data']" % rec,), '.object', '_load_data_collection_4 no longer builds the collection from every entry of rec[\'data\']')
    sl = [c for c in calls_in(lc.node) if call_name(c) == 'set_links' and c.args]
    _whole_pass(ctx, R, lc, lc.construct + ' links', 'every saved link is set again', sl[0].args[0] if sl else None,
                ("%s['links']" % rec,), '.object', '_load_data_collection_4 no longer restores every saved link through set_links')
    grp = [st for st in walk_no_nested(lc.node) if isinstance(st, ast.Assign) and unparse(st.targets[0]).endswith('._subset_groups')]
    _whole_pass(ctx, R, lc, lc.construct + ' groups', 'every saved subset group is restored', grp[0].value if grp else None,
                ("%s['groups']" % rec,), '.object', '_load_data_collection_4 no longer restores every saved subset group')
    cnt = [st for st in walk_no_nested(lc.node) if isinstance(st, ast.Assign) and unparse(st.targets[0]).endswith('._sg_count')]
    ctx.ob(R, lc.construct + ' group counter', 'the group counter is restored from the record',
           bool(cnt) and norm(cnt[0].value) == "%s['subset_group_count']" % rec,
           detail='_load_data_collection_4 no longer restores the subset group counter from rec[\'subset_group_count\'] (found: %s)'
                  % (norm(cnt[0].value) if cnt else None), where=lc.where)


FALSY_DEFAULTS = ('[]', '{}', '()', "''", '""', '0', '0.0', 'None', 'False', 'set()', 'dict()', 'list()', 'tuple()')
DEFAULTING_EXCEPTIONS = {
    ('glue.core.application_base.Application', 'data_collection'):
        'the only falsy collection is the empty one, and the default DataCollection() is the empty collection too',
}


def _defaulting_params(K):
    """{param: (default text, node)} for constructor parameters that are replaced when falsy (``p or default``)."""
    init = K.resolve_func('__init__')
    if init is None:
        return {}, None
    ps = set(init.params)
    out = {}
    for n in ast.walk(init.node):
        if isinstance(n, ast.BoolOp) and isinstance(n.op, ast.Or) and isinstance(n.values[0], ast.Name) and n.values[0].id in ps:
            out[n.values[0].id] = (unparse(n.values[-1]), n)
    return out, init


def rule_h(ctx, ix):
    """A saved value is not restored through a constructor parameter that replaces falsy values by another default."""
    R = 'C02.h'
    ctx.describe(R, 'saved values do not pass through constructor parameters that replace falsy values (p or default)', floor=3)
    loaders = [f for q, f in sorted(ix.functions.items()) if f.has_decorator('loader')]
    for c in sorted(ix.classes.values(), key=lambda c: c.qualname):
        m = c.members.get('__setgluestate__')
        if m is not None and m.func is not None:
            loaders.append(m.func)
    if len(loaders) < 60:
        raise AnalysisError('C02.h: only %d loaders found' % len(loaders))
    n = 0
    # the `saved or default` detector must recognise its reference example (no site on today's tree: not a vacuous pass)
    import types
    probe = types.SimpleNamespace(
        params=['cls', 'rec', 'context'], construct='<reference example>', cls=None, module=None, is_probe=True,
        node=ast.parse("def __setgluestate__(cls, rec, context):\n    state = context.object(rec['state'])\n"
                       "    return cls(state.get('coords') or ['x'], state.get('next_transform'))\n").body[0])
    probe_hits = []
    for f in loaders + [probe]:
        ps = [p for p in f.params if p not in ('cls', 'self')]
        if not ps:
            continue
        rec = ps[0]

        tainted = set()

        def saved(e):
            """The expression is a saved value as such (a record entry, possibly re-wrapped or looked up in the context) - not an
            object built from it by some other constructor or loader, which is never falsy by accident."""
            if isinstance(e, ast.Name):
                return e.id == rec or e.id in tainted
            if isinstance(e, ast.Subscript):
                return saved(e.value)
            if isinstance(e, ast.Starred):
                return saved(e.value)
            if isinstance(e, (ast.Tuple, ast.List, ast.Set)):
                return any(saved(x) for x in e.elts)
            if isinstance(e, ast.Dict):
                return any(saved(x) for x in e.values if x is not None)
            if isinstance(e, (ast.GeneratorExp, ast.ListComp, ast.SetComp)):
                return saved(e.elt) or any(saved(g.iter) for g in e.generators)
            if isinstance(e, ast.DictComp):
                return saved(e.value) or any(saved(g.iter) for g in e.generators)
            if isinstance(e, ast.Call) and call_name(e) in ('list', 'dict', 'tuple', 'map', 'object', 'get', 'sorted', 'zip'):
                return any(saved(a) for a in e.args) or (isinstance(e.func, ast.Attribute) and call_name(e) == 'get' and saved(e.func.value))
            return False
        # local names bound to saved values
        for _ in range(3):
            for st in walk_no_nested(f.node):
                if isinstance(st, ast.Assign) and saved(st.value):
                    for t in st.targets:
                        if isinstance(t, ast.Name):
                            tainted.add(t.id)
        for bo in [b for b in ast.walk(f.node) if isinstance(b, ast.BoolOp) and isinstance(b.op, ast.Or)]:
            if saved(bo.values[0]) and not isinstance(bo.values[0], ast.Name):
                if getattr(f, 'is_probe', False):
                    probe_hits.append(bo)
                    continue
                default = unparse(bo.values[-1])
                ctx.ob(R, '%s `%s`' % (f.construct, norm(bo)[:80]), 'a falsy saved value is not replaced by another default inside the loader',
                       default.replace(' ', '') in FALSY_DEFAULTS,
                       detail='%s reads the saved value as `%s`: a saved falsy value (0, "", an empty list) comes back as %s instead of '
                              'what was saved' % (f.construct, norm(bo)[:100], default), where=where(f, bo))
        if getattr(f, 'is_probe', False):
            continue
        for call in calls_in(f.node):
            K = None
            if isinstance(call.func, ast.Name) and call.func.id == 'cls' and f.cls is not None:
                K = f.cls
            else:
                try:
                    K = ix.resolve_class(f.module, call.func)
                except AnalysisError:
                    K = None
            if K is None:
                continue
            dp, init = _defaulting_params(K)
            if not dp:
                continue
            params = [p for p in init.params if p != init.self_name]
            flows = []
            for i, a in enumerate(call.args):
                if isinstance(a, ast.Starred):
                    if saved(a.value):
                        flows.extend((p, a) for p in dp)
                elif i < len(params) and params[i] in dp and saved(a):
                    flows.append((params[i], a))
            for k in call.keywords:
                if k.arg is None:
                    if saved(k.value):
                        flows.extend((p, k.value) for p in dp)
                elif k.arg in dp and saved(k.value):
                    flows.append((k.arg, k.value))
            for p, a in flows:
                n += 1
                default = dp[p][0]
                key = (K.qualname, p)
                if key in DEFAULTING_EXCEPTIONS:
                    ctx.exception(R, '%s -> %s(%s)' % (f.construct, K.qualname, p), DEFAULTING_EXCEPTIONS[key])
                    continue
                ctx.ob(R, '%s -> %s(%s=...)' % (f.construct, K.name, p),
                       'a falsy saved value is not replaced by the constructor default', default.replace(' ', '') in FALSY_DEFAULTS,
                       detail='%s passes the saved value `%s` to %s.__init__ parameter %s, which stores `%s or %s`: a saved falsy value '
                              '(0, "", empty) comes back as the default instead of the saved value'
                              % (f.construct, unparse(a)[:80], K.name, p, p, default), where=where(f, call))
    if not probe_hits:
        raise AnalysisError('C02.h: the `saved or default` detector no longer recognises its reference example')
    if n < 3:
        raise AnalysisError('C02.h: only %d saved-value -> defaulting-parameter flows recognised' % n)


def rule_i(ctx, ix):
    """The two sides of a saved key join are restored independently of each other (they have different lengths for 1-n joins)."""
    R = 'C02.i'
    ctx.describe(R, 'key joins: each side is restored from its own saved side, the sides are never zipped together', floor=1)
    mod = ix.module('glue.core.state')
    n = 0
    for q, f in sorted(ix.functions.items()):
        if not q.startswith('glue.core.state._load_data'):
            continue
        for node in ast.walk(f.node):
            gens = []
            if isinstance(node, (ast.GeneratorExp, ast.ListComp, ast.DictComp, ast.SetComp)):
                gens = [(g.target, g.iter, node) for g in node.generators]
            elif isinstance(node, ast.For):
                gens = [(node.target, node.iter, node)]
            for tgt, it, owner in gens:
                if '_key_joins' not in unparse(it) or not (isinstance(tgt, ast.Tuple) and len(tgt.elts) == 3):
                    continue
                n += 1
                k, v0, v1 = (unparse(e) for e in tgt.elts)
                # local names defined (inside the loop / function) from the sides
                taint = {v0: {v0}, v1: {v1}, k: {k}}
                body = owner.body if isinstance(owner, ast.For) else []
                for _ in range(3):
                    for st in [s_ for b in body for s_ in ast.walk(b) if isinstance(s_, ast.Assign)]:
                        src = set()
                        for x in ast.walk(st.value):
                            if isinstance(x, ast.Name) and x.id in taint:
                                src |= taint[x.id]
                            # targets of comprehensions over tainted iterables
                        for c in ast.walk(st.value):
                            if isinstance(c, (ast.GeneratorExp, ast.ListComp)):
                                for g in c.generators:
                                    for x in ast.walk(g.iter):
                                        if isinstance(x, ast.Name) and x.id in taint:
                                            src |= taint[x.id]
                        for t in st.targets:
                            if isinstance(t, ast.Name) and src:
                                taint[t.id] = taint.get(t.id, set()) | src

                def sides(e):
                    out = set()
                    for x in ast.walk(e):
                        if isinstance(x, ast.Name) and x.id in taint:
                            out |= taint[x.id]
                    return out & {v0, v1}
                mixed = []
                scope = [owner] if not isinstance(owner, ast.For) else body
                for b in scope:
                    for c in ast.walk(b):
                        if isinstance(c, ast.Call) and call_name(c) == 'zip' and sides(c) == {v0, v1}:
                            mixed.append(c)
                        if isinstance(c, ast.Tuple) and len(c.elts) == 2 and not isinstance(c.ctx, ast.Store):
                            a, b2 = sides(c.elts[0]), sides(c.elts[1])
                            if a == {v1} and b2 == {v0}:
                                mixed.append(c)
                ctx.ob(R, f.construct, 'the saved sides (%s, %s) are restored separately and in position' % (v0, v1), not mixed,
                       detail='%s combines the two saved sides of a key join (`%s`): the sides have different lengths for 1-n / n-1 joins, '
                              'so zipping them drops identifiers (or the sides are swapped), and the restored join no longer selects the '
                              'same rows' % (f.construct, unparse(mixed[0])[:100] if mixed else ''), where=where(f, owner))
    if n < 1:
        raise AnalysisError('C02.i: only %d key-join loaders recognised' % n)


def rule_j(ctx, ix):
    """Two registries of the (un)serialiser that every restored reference goes through: the names handed out on save are unique
    (a name is only registered after it was found free), and the list of deferred loader callbacks survives re-entrant loads
    (callbacks run loaders, which register further callbacks and run the list again: it is edited in place, never rebound)."""
    from .. import cond
    R = 'C02.j'
    ctx.describe(R, 'serialiser names are registered only when free; the deferred-callback list is never rebound while callbacks run', floor=3)
    ser = ix.cls('glue.core.state.GlueSerializer')
    f = ser.resolve_func('id')
    if f is None:
        raise AnalysisError('GlueSerializer.id vanished')
    s_ = f.self_name
    stores = [st for st in walk_no_nested(f.node) if isinstance(st, ast.Assign) and isinstance(st.targets[0], ast.Subscript)
              and unparse(st.targets[0].value) == '%s._objs' % s_]
    if len(stores) != 1:
        raise AnalysisError('GlueSerializer.id: the registration of the name is not recognised')
    name = unparse(stores[0].targets[0].slice)
    asserted = any(isinstance(a, ast.Assert) and a.lineno < stores[0].lineno and
                   cond.equivalent(cond.formula(a.test), cond.Not(cond.T('in|%s|%s._objs' % (name, s_))))
                   for a in walk_no_nested(f.node))
    # or: every way the name is produced has checked it against the registry
    dis = ser.resolve_func('_disambiguate')
    checked = False
    if dis is not None:
        ds = dis.self_name
        rets = [r for r in returns_of(dis) if r.value is not None]
        checked = bool(rets)
        for r in rets:
            pc = cond.path_condition(dis.node, r, expand=False) or ('const', True)
            free = cond.Not(cond.T('in|%s|%s._objs' % (unparse(r.value).replace(' ', ''), ds)))
            try:
                if not cond.implies(pc, free):
                    checked = False
            except ValueError:
                checked = False
        lab = ser.resolve_func('_label')
        via = lab is not None and all(isinstance(r.value, ast.Call) and call_name(r.value) == '_disambiguate' or isinstance(r.value, ast.Constant)
                                      for r in returns_of(lab) if r.value is not None)
        checked = checked and via and any(isinstance(st, ast.Assign) and unparse(st.targets[0]) == name and isinstance(st.value, ast.Call)
                                          and call_name(st.value) == '_label' for st in walk_no_nested(f.node))
    ctx.ob(R, f.construct, 'a name is registered only after it was found to be free (asserted here, or guaranteed by every return of _disambiguate)',
           asserted or checked,
           detail='GlueSerializer.id registers `%s` without it having been checked against the names already handed out (no dominating '
                  'assert, and _disambiguate can return a name it did not look up): two objects can get one name, and the second '
                  'silently replaces the first in the saved session' % name, where=where(f, stores[0]))
    un = ix.cls('glue.core.state.GlueUnSerializer')
    appends = 0
    runs_callbacks = []
    for nm, mem in sorted(un.members.items()):
        g = mem.func
        if g is None or g.cls is not un:
            continue
        gs = g.self_name
        for c in calls_in(g.node):
            if call_name(c) in ('append', 'extend', 'insert') and unparse(c.func.value) == '%s._callbacks' % gs:
                appends += 1
        for st in walk_no_nested(g.node):
            if isinstance(st, (ast.Assign, ast.AugAssign)):
                tg = st.targets if isinstance(st, ast.Assign) else [st.target]
                for t in tg:
                    for e in (t.elts if isinstance(t, (ast.Tuple, ast.List)) else [t]):
                        if unparse(e) == '%s._callbacks' % gs and nm != '__init__':
                            runs_callbacks.append((g, st))
    if not appends:
        raise AnalysisError('GlueUnSerializer: no registration of deferred callbacks found')
    ctx.ob(R, un.construct + '._callbacks', 'the deferred-callback list is bound once, in __init__ (callbacks are added and removed in place)',
           not runs_callbacks,
           detail='%s rebinds the deferred-callback list with `%s`: a callback that loads further objects runs the list again and registers '
                  'new callbacks on the old list object, which are lost when the outer pass rebinds the field - a restored selection '
                  'keeps a name string where its dataset should be' % ((runs_callbacks[0][0].construct, norm(runs_callbacks[0][1])) if runs_callbacks else ('', '')),
           where=where(runs_callbacks[0][0], runs_callbacks[0][1]) if runs_callbacks else un.where)
    tc = un.resolve_func('_try_callbacks')
    if tc is not None:
        from ..util import elementwise
        its = [n for n in walk_no_nested(tc.node) if isinstance(n, ast.For)]
        live = [n for n in its if unparse(n.iter) == '%s._callbacks' % tc.self_name]
        removes = any(call_name(c) in ('remove', 'pop') and '_callbacks' in unparse(c.func) for c in calls_in(tc.node))
        ctx.ob(R, tc.construct, 'the pass over the callbacks iterates a snapshot when it removes from the list', not (live and removes),
               detail='_try_callbacks removes callbacks from the list it is iterating: every other callback is skipped', where=tc.where)


def rule_k(ctx, ix, reg):
    """A function (the `using` of a link, of a derived attribute) is saved either by value (pickled) or by its dotted name; the
    loader of the by-name form looks the name up again.  The by-name form is only sound when the name leads back to the very
    object that is being saved: a closure, a decorated or a re-bound function shares its name with another object."""
    from .. import cond
    R = 'C02.k'
    ctx.describe(R, 'a function is saved by name only after the name was checked to resolve to that very object', floor=2)
    sv = reg.savers.get('types.FunctionType', {})
    ld = reg.loaders.get('types.FunctionType', {})
    if not sv or not ld:
        raise AnalysisError('saver / loader of types.FunctionType vanished')
    for v, f in sorted(sv.items()):
        obj = f.params[0]
        l = ld.get(v)
        if l is None:
            raise AnalysisError('no loader for version %d of types.FunctionType' % v)
        rec = l.params[0]
        # keys the loader resolves by name
        byname = set()
        for r in returns_of(l):
            if r.value is None:
                continue
            for c in ast.walk(r.value):
                if isinstance(c, ast.Call) and call_name(c) in ('lookup_class_with_patches', 'lookup_class') and c.args and \
                        isinstance(c.args[0], ast.Subscript) and unparse(c.args[0].value) == rec and isinstance(c.args[0].slice, ast.Constant):
                    byname.add(c.args[0].slice.value)
        if not byname:
            raise AnalysisError('%s: the by-name form is no longer recognised' % l.construct)
        n = 0
        for r in returns_of(f):
            if not isinstance(r.value, ast.Dict):
                continue
            keys = {k.value for k in r.value.keys if isinstance(k, ast.Constant)}
            if not (keys & byname):
                continue
            n += 1
            pc = cond.path_condition(f.node, r, expand=True) or ('const', True)
            ok = False
            for a in cond.atoms(pc):
                parts = a.split('|')
                if parts[0] == 'is' and obj in parts[1:] and any('lookup_class' in p_ for p_ in parts[1:]):
                    try:
                        ok = ok or cond.implies(pc, cond.T(a))
                    except ValueError:
                        pass
            ctx.ob(R, f.construct, 'the by-name form is written only when the name resolves to the object itself (identity test)', ok,
                   detail='%s writes the dotted name of the function under `%s` - without requiring that the name resolves to the very '
                          'function being saved: a closure or re-bound function that shares its name with a module-level one is '
                          'saved silently and comes back as the other function (the linked values change)' % (f.construct, pc),
                   where=where(f, r))
        if n == 0:
            raise AnalysisError('%s: no by-name record written' % f.construct)
        ok = any(isinstance(r.value, ast.Dict) and not ({k.value for k in r.value.keys if isinstance(k, ast.Constant)} & byname)
                 for r in returns_of(f)) or any(isinstance(x, ast.Raise) for x in ast.walk(f.node))
        ctx.ob(R, f.construct + ' fallback', 'a function that is not reachable under its name is saved by value or refused loudly', ok,
               detail='%s has no by-value form (and does not raise) for functions that are not reachable under their name' % f.construct,
               where=f.where)


def rule_l(ctx, ix):
    """The in-place upgrades of old session records add what old files lack: a default is written under a key only when the key
    is ABSENT.  A test of the stored value's truth ("empty or missing") also rewrites records that say "empty" on purpose."""
    from .. import cond
    R = 'C02.l'
    ctx.describe(R, 'record upgrades write a default only for a key that is absent (not for one that holds an empty value)', floor=1)
    f = ix.func('glue.core.state.apply_inplace_patches')
    n = 0
    for st in ast.walk(f.node):
        if not (isinstance(st, ast.Assign) and len(st.targets) == 1 and isinstance(st.targets[0], ast.Subscript)
                and isinstance(st.targets[0].slice, ast.Constant) and isinstance(st.targets[0].slice.value, str)):
            continue
        key = st.targets[0].slice.value
        cont = unparse(st.targets[0].value)
        pc = cond.path_condition(f.node, st, expand=False) or ('const', True)
        ats = cond.atoms(pc)
        absent_atom = "in|%r|%s" % (key, cont)
        by_value = [a for a in ats if (repr(key) in a or ('"%s"' % key) in a) and not a.startswith('in|')]
        if absent_atom not in ats and not by_value:
            continue            # not a "fill in what is missing" statement
        n += 1
        try:
            ok = absent_atom in ats and cond.implies(pc, cond.Not(cond.T(absent_atom))) and not by_value
        except ValueError:
            ok = False
        ctx.ob(R, '%s %s[%r]' % (f.construct, cont, key), 'the default is written only when the key is absent', ok,
               detail='apply_inplace_patches writes `%s` under `%s`, a test of the stored VALUE (%s): a record that stores an empty value '
                      'on purpose (RadianTransform(coords=[]), the class default) is rewritten on load and the restored selection is '
                      'evaluated with other coordinates transformed' % (norm(st), pc, ', '.join(by_value) or 'no absence test'),
               where=where(f, st))
    if n < 1:
        raise AnalysisError('apply_inplace_patches: no default-filling statement recognised')


def rule_m(ctx, ix):
    """Categorical values come back from a session file in the memory order they were saved with (np.save keeps Fortran order):
    the integer codes must be computed in one element order (C) whatever the memory layout."""
    R = 'C02.m'
    ctx.describe(R, 'flatten / reshape pairs of the array helpers (categorical codes) use the C element order', floor=2)
    from . import common as _common
    n = _common.check_element_order(ctx, R, ix, ['glue.utils.array'], what='the result is reshaped in C order')
    if n < 2:
        raise AnalysisError('C02.m: only %d flatten / reshape calls in glue.utils.array' % n)


def rule_n(ctx, ix):
    """The pixel / world identifier lists of a restored dataset are positional (entry i belongs to axis i).  The loaders rebuild
    them by sorting the restored coordinate components: the sort key has to order by axis (within world / pixel), whatever order
    the components were saved in (reorder_components is public)."""
    R = 'C02.n'
    ctx.describe(R, 'restored coordinate components are ordered by (world, axis) before they become the positional identifier lists', floor=2)
    cc = ix.cls('glue.core.component.CoordinateComponent')
    lt = cc.resolve_func('__lt__')
    own_order = lt is not None and {'axis', 'world'} <= {n.attr for n in ast.walk(lt.node) if isinstance(n, ast.Attribute)}
    n = 0
    for q, f in sorted(ix.functions.items()):
        if not q.startswith('glue.core.state.'):
            continue
        if not any(isinstance(st, ast.Assign) and any(unparse(t).endswith('._pixel_component_ids') for t in st.targets) for st in ast.walk(f.node)):
            continue
        sorts = [c for c in calls_in(f.node) if call_name(c) in ('sorted', 'sort')]
        if not sorts:
            ctx.idiom(R, f.construct, 'coordinate components are sorted', accepted=False, absent=False, detail_absent='',
                      shape='no sorted() / .sort() in a loader that assigns _pixel_component_ids')
            continue
        for c in sorts:
            n += 1
            key = kwarg(c, 'key')
            if key is None:
                ok, how = own_order, 'the components\' own ordering'
            elif isinstance(key, ast.Lambda):
                arg = key.args.args[0].arg
                body = key.body
                attrs = {x.attr for x in ast.walk(body) if isinstance(x, ast.Attribute)}
                whole = isinstance(body, ast.Subscript) and isinstance(body.value, ast.Name) and body.value.id == arg or \
                    (isinstance(body, ast.Name) and body.id == arg)
                ok = (whole and own_order) or 'axis' in attrs
                how = 'key `%s`' % unparse(body)
            elif unparse(key).replace(' ', '') in ('itemgetter(1)', 'operator.itemgetter(1)'):
                ok, how = own_order, 'the components\' own ordering (itemgetter(1))'
            else:
                ctx.idiom(R, f.construct, 'sort key recognised', accepted=False, absent=False, detail_absent='', shape=unparse(key))
                continue
            ctx.ob(R, '%s `%s`' % (f.construct, norm(c)[:60]), 'the sort orders by axis (%s)' % how, ok,
                   detail='%s sorts the restored coordinate components with %s, which does not order by axis: for a dataset whose '
                          'components were reordered before saving (Data.reorder_components) the restored pixel_component_ids / '
                          'world_component_ids are permuted, and everything positional (aligned links, pixel-axis selections) uses the '
                          'wrong axis' % (f.construct, how), where=where(f, c))
    if n < 2:
        raise AnalysisError('C02.n: only %d coordinate sorts found in the loaders' % n)
