"""C09 - a drawn region becomes a selection of exactly the points the region contains (partial)."""
import ast
import itertools

from ..index import AnalysisError, dotted_chain, norm, unparse, walk_no_nested, body_stmts
from ..util import calls_in, call_name, where, returns_of, kwarg
from .. import props
from . import common

props.prop(
    'C09',
    explanation='Static (ast) abstract enumeration of roi_to_subset_state over (region class) x (x categorical?) x (y categorical?) x '
                'use_pretransform, deciding isinstance tests through the class model: every combination the statement names must '
                'reach a returned selection through region methods the class implements; and a two-point axis type system '
                '(X | Y) seeded from the public parameters and region fields: every sink that pairs an attribute, a category list '
                'and region coordinates must be homogeneous.',
    decides='dispatch exhaustiveness for range / rectangular / categorical / circular / annulus / elliptical / polygonal regions '
            'on all four axis-kind combinations; x-things paired with x-things in the range branch, the rectangle decomposition, '
            'the mixed categorical/numerical branch (incl. the swapped polygon unpacking) and the two-categorical branch; that the '
            'polygon helpers apply no rounding or absolute tolerance to coordinate values',
    not_decided='where region edges fall between category positions (rounding in from_range, polygon/line intersections)',
    assumptions=['region classes outside glue/ are not seen'])
props.also('C09',
           'scale-free polygon helpers (no absolute tolerance); shared view-dependence rule of the categorical lookup (C04.f); symmetry periods of the angle shortcuts of to_polygon and the containment tests (C08.k)')

FUNC = 'glue.core.subset.roi_to_subset_state'
NAMED = ['XRangeROI', 'YRangeROI', 'RectangularROI', 'CategoricalROI', 'CircularROI', 'CircularAnnulusROI',
         'EllipticalROI', 'PolygonalROI']


def run(ctx):
    ix = ctx.index
    f = ix.func(FUNC)
    ctx.guard(rule_a, ctx, ix, f)
    ctx.guard(rule_b, ctx, ix, f)
    ctx.guard(rule_c, ctx, ix)
    ctx.guard(rule_d, ctx, ix)
    ctx.guard(rule_e, ctx, ix, f)
    ctx.guard(rule_g, ctx, ix)
    # the selection of a drawn region is the region's own containment test: its pre-selection boxes must not be inverted
    from ..report import BorrowedCtx
    from .C08 import rule_f as _boxes
    ctx.guard(_boxes, BorrowedCtx(ctx, {'C08.f': 'C09.f'}), ix)
    # a region drawn on pixel axes is evaluated through a shortcut that is only right for the dataset that owns those axes
    from .C04 import rule_f as _pixel_shortcut
    ctx.guard(_pixel_shortcut, BorrowedCtx(ctx, {'C04.f': 'C09.h'}), ix)
    # on a categorical axis a drawn ellipse / rectangle is translated through its polygon: the angle shortcuts of to_polygon() and
    # of the containment tests must be symmetries of the shape
    from .C08 import rule_k as _periods
    ctx.guard(_periods, BorrowedCtx(ctx, {'C08.k': 'C09.i'}), ix)


# ---------------------------------------------------------------------------------------
class _Stop(Exception):
    def __init__(self, kind, node, calls):
        self.kind = kind
        self.node = node
        self.calls = calls


def _paths(ix, f, roicls, xcat, ycat, pre):
    """Enumerate the terminal statements reachable for one combination; undecidable tests fork."""
    roi_p, xatt_p, yatt_p, xc_p, yc_p, pre_p = f.params[:6]
    results = []

    def decide(test, env):
        if isinstance(test, ast.BoolOp):
            vals = [decide(v, env) for v in test.values]
            if isinstance(test.op, ast.And):
                if any(v is False for v in vals):
                    return False
                return True if all(v is True for v in vals) else None
            if any(v is True for v in vals):
                return True
            return False if all(v is False for v in vals) else None
        if isinstance(test, ast.UnaryOp) and isinstance(test.op, ast.Not):
            v = decide(test.operand, env)
            return None if v is None else not v
        if isinstance(test, ast.Call) and isinstance(test.func, ast.Name) and test.func.id == 'isinstance' and len(test.args) == 2 \
                and unparse(test.args[0]) == roi_p and env.get(roi_p) == 'ROI':
            ks = test.args[1].elts if isinstance(test.args[1], ast.Tuple) else [test.args[1]]
            for k in ks:
                kc = ix.resolve_class(f.module, k)
                if kc is None:
                    return None
                if roicls.is_subclass_of(kc):
                    return True
            return False
        if isinstance(test, ast.Compare) and len(test.ops) == 1 and isinstance(test.comparators[0], ast.Constant) \
                and test.comparators[0].value is None and isinstance(test.left, ast.Name):
            v = env.get(test.left.id, '?')
            if v == '?':
                return None
            isnone = v is None
            return isnone if isinstance(test.ops[0], ast.Is) else (not isnone if isinstance(test.ops[0], ast.IsNot) else None)
        if isinstance(test, ast.Name):
            v = env.get(test.id, '?')
            if v in (True, False):
                return v
            return None
        if isinstance(test, ast.Compare) and unparse(test.left) == '%s.ori' % roi_p and len(test.ops) == 1 \
                and isinstance(test.comparators[0], ast.Constant):
            ori = {'XRangeROI': 'x', 'YRangeROI': 'y'}.get(roicls.name)
            if ori is None:
                return None
            eq = ori == test.comparators[0].value
            return eq if isinstance(test.ops[0], ast.Eq) else not eq
        return None

    def val(expr, env):
        if isinstance(expr, ast.Name):
            return env.get(expr.id, '?')
        if isinstance(expr, ast.Constant):
            return expr.value
        return 'OBJ'

    def roi_calls(node, env):
        out = []
        for c in ast.walk(node):
            if isinstance(c, ast.Call) and isinstance(c.func, ast.Attribute) and isinstance(c.func.value, ast.Name) \
                    and env.get(c.func.value.id) == 'ROI':
                out.append(c.func.attr)
            if isinstance(c, ast.Attribute) and isinstance(c.value, ast.Name) and env.get(c.value.id) == 'ROI' \
                    and isinstance(c.ctx, ast.Load):
                pass
        return out

    def run_block(stmts, env, calls, depth=0):
        """Returns list of (env, calls) continuing after the block; terminals are appended to results."""
        states = [(dict(env), list(calls))]
        for st in stmts:
            nxt = []
            for e, cl in states:
                if isinstance(st, ast.Return):
                    results.append(('return', st, cl + roi_calls(st, e)))
                    continue
                if isinstance(st, ast.Raise):
                    results.append(('raise', st, cl))
                    continue
                if isinstance(st, ast.If):
                    d = decide(st.test, e)
                    cl2 = cl + roi_calls(st.test, e)
                    if d is not False:
                        nxt += run_block(st.body, e, cl2, depth + 1)
                    if d is not True:
                        nxt += run_block(st.orelse, e, cl2, depth + 1)
                    continue
                if isinstance(st, (ast.For, ast.While)):
                    cl2 = cl + roi_calls(st.iter if isinstance(st, ast.For) else st.test, e)
                    inner = run_block(st.body, e, cl2, depth + 1)
                    nxt += inner if inner else []
                    nxt.append((dict(e), cl2))       # zero iterations
                    continue
                if isinstance(st, ast.Assign):
                    e2 = dict(e)
                    v = val(st.value, e)
                    if isinstance(st.value, ast.Call) and ix.resolve_class(f.module, st.value.func) is not None \
                            and ix.resolve_class(f.module, st.value.func).is_subclass_of(ROI_BASE[0]):
                        v = 'ROI2'
                    for t in st.targets:
                        for nm in ast.walk(t):
                            if isinstance(nm, ast.Name):
                                e2[nm.id] = v if isinstance(t, ast.Name) else 'OBJ'
                    nxt.append((e2, cl + roi_calls(st.value, e)))
                    continue
                nxt.append((e, cl + roi_calls(st, e)))
            # dedupe
            seen = set()
            states = []
            for e, cl in nxt:
                k = (tuple(sorted((a, str(b)) for a, b in e.items())), tuple(cl))
                if k not in seen:
                    seen.add(k)
                    states.append((e, cl))
            if len(states) > 64:
                raise AnalysisError('roi_to_subset_state: path explosion')
        return states
    env = {roi_p: 'ROI', xatt_p: 'ATT', yatt_p: 'ATT', xc_p: ('SET' if xcat else None), yc_p: ('SET' if ycat else None), pre_p: pre}
    rest = run_block(body_stmts(f.node), env, [])
    for e, cl in rest:
        results.append(('fallthrough', None, cl))
    return results


ROI_BASE = [None]


def rule_a(ctx, ix, f):
    R = 'C09.a'
    ctx.describe(R, 'every (region kind x axis kinds x pretransform) combination reaches a returned selection through implemented methods',
                 floor=40)
    roi = ix.cls('glue.core.roi.Roi')
    ROI_BASE[0] = roi
    classes = []
    for name in NAMED:
        c = ix.cls('glue.core.roi.' + name)
        classes.append(c)
        for sub in c.subclasses(strict=True):
            if sub not in classes and not sub.name.startswith('Mpl'):
                classes.append(sub)
    for c, xcat, ycat, pre in itertools.product(classes, (False, True), (False, True), (False, True)):
        if c.is_subclass_of('glue.core.roi.CategoricalROI') and not (xcat or ycat):
            continue       # a categorical region only exists on a categorical axis (statement: "categorical on a categorical x axis")
        if c.is_subclass_of('glue.core.roi.CategoricalROI') and not xcat:
            continue
        res = _paths(ix, f, c, xcat, ycat, pre)
        label = '%s x_cat=%s y_cat=%s pretransform=%s' % (c.name, xcat, ycat, pre)
        bad = []
        for kind, node, calls in res:
            if kind == 'fallthrough':
                bad.append('falls off the end of the function (returns None)')
            elif kind == 'raise':
                bad.append('raises: %s' % norm(node))
            elif node.value is None:
                bad.append('returns None')
            for meth in calls:
                m = c.resolve(meth)
                fn = m.func if m is not None else None
                if fn is None and (m is None or m.kind != 'property'):
                    if m is None:
                        bad.append('calls roi.%s(), which %s does not have' % (meth, c.name))
                    continue
                if fn is not None:
                    body = body_stmts(fn.node)
                    if len(body) == 1 and isinstance(body[0], ast.Raise):
                        bad.append('calls roi.%s(), which %s only implements by raising (%s)' % (meth, c.name, fn.construct))
        ctx.ob(R, 'glue.core.subset:roi_to_subset_state[%s]' % label, 'reaches a returned selection using only implemented region methods',
               not bad,
               detail='roi_to_subset_state(%s): %s' % (label, '; '.join(sorted(set(bad)))), where=f.where)


# ---------------------------------------------------------------------------------------
def _tag(expr, env, roi_p):
    if isinstance(expr, ast.Call) and call_name(expr) in ('repeat', 'tile', 'full_like') and expr.args:
        return _tag(expr.args[0], env, roi_p)     # the values come from the first argument, the count is only a shape
    tags = set()
    for n in ast.walk(expr):
        if isinstance(n, ast.Name) and n.id in env:
            tags |= env[n.id]
        elif isinstance(n, ast.Attribute) and isinstance(n.value, ast.Name) and n.value.id == roi_p:
            if n.attr in ('xmin', 'xmax', 'xc', 'vx'):
                tags.add('X')
            elif n.attr in ('ymin', 'ymax', 'yc', 'vy'):
                tags.add('Y')
    return tags


def rule_b(ctx, ix, f):
    R = 'C09.b'
    ctx.describe(R, 'axis pairing: x-things with x-things', floor=12)
    roi_p, xatt_p, yatt_p, xc_p, yc_p = f.params[:5]
    seed = {xatt_p: {'X'}, xc_p: {'X'}, yatt_p: {'Y'}, yc_p: {'Y'}}
    node = f.node
    # (1) range branch: `if roi.ori == 'x': ... else: ...` assigns homogeneous values
    from .. import cond
    ifs = []
    for n in ast.walk(node):
        if isinstance(n, ast.If) and ('%s.ori' % roi_p) in unparse(n.test):
            bx = cond.branches(n, "%s.ori == 'x'" % roi_p, f.node)
            by = cond.branches(n, "%s.ori == 'y'" % roi_p, f.node)
            if bx is not None:
                ifs.append((n, bx[0], bx[1]))
            elif by is not None:
                ifs.append((n, by[1], by[0]))
    if len(ifs) != 1:
        raise AnalysisError('roi_to_subset_state: the orientation test of the range branch is not recognised')
    t, xbody, ybody = ifs[0]
    for body, want in ((xbody, 'X'), (ybody, 'Y')):
        names = set()
        for st in body:
            if isinstance(st, ast.Assign):
                # `a, b = x, y` is `a = x; b = y`
                pairs = [(st.targets[0], st.value)]
                if isinstance(st.targets[0], ast.Tuple) and isinstance(st.value, ast.Tuple) and len(st.targets[0].elts) == len(st.value.elts):
                    pairs = list(zip(st.targets[0].elts, st.value.elts))
                for tgt_e, val_e in pairs:
                    tg = _tag(val_e, seed, roi_p)
                    names.add(unparse(tgt_e))
                    txt = '%s = %s' % (unparse(tgt_e), unparse(val_e))
                    ctx.ob(R, 'glue.core.subset:roi_to_subset_state `%s`' % txt, 'the %s-oriented range uses the %s attribute/categories'
                           % (want.lower(), want.lower()), tg == {want},
                           detail='in the branch for %s-oriented range regions `%s` picks a %s-axis quantity: the range is applied to the '
                                  'wrong attribute' % (want.lower(), txt, '/'.join(sorted(tg)).lower() or 'non-axis'), where=where(f, st))
        if len(names) < 2:
            raise AnalysisError('roi_to_subset_state: range branch no longer assigns attribute and categories per orientation')
    # (2) rectangle decomposition
    env = dict(seed)
    rect = [n for n in ast.walk(node) if isinstance(n, ast.If) and unparse(n.test).replace(' ', '') == 'isinstance(%s,RectangularROI)' % roi_p]
    if len(rect) != 1:
        raise AnalysisError('roi_to_subset_state: rectangle decomposition branch not recognised')
    for st in rect[0].body:
        if isinstance(st, ast.Assign) and isinstance(st.value, ast.Call):
            cn = call_name(st.value)
            tgt = unparse(st.targets[0])
            if cn in ('XRangeROI', 'YRangeROI'):
                want = 'X' if cn == 'XRangeROI' else 'Y'
                tg = set()
                for a in st.value.args:
                    tg |= _tag(a, env, roi_p)
                ctx.ob(R, 'glue.core.subset:roi_to_subset_state `%s`' % norm(st), '%s is built from the %s limits' % (cn, want.lower()),
                       tg == {want},
                       detail='the rectangle is decomposed with `%s`: an %s range built from %s limits' % (norm(st), want.lower(),
                                                                                                          '/'.join(sorted(tg)).lower()),
                       where=where(f, st))
                env[tgt] = {want}
            elif cn == 'roi_to_subset_state':
                tg = set()
                for a in st.value.args:
                    tg |= _tag(a, env, roi_p)
                for k in st.value.keywords:
                    tg |= _tag(k.value, env, roi_p)
                    if k.arg and k.arg[0] in 'xy' and k.arg[1] == '_':
                        tg.add(k.arg[0].upper())
                ctx.ob(R, 'glue.core.subset:roi_to_subset_state `%s`' % norm(st), 'the recursive call pairs one axis\' range with that axis\' attribute and categories',
                       len(tg) == 1,
                       detail='`%s` mixes x and y quantities: the x range of the rectangle is applied to the y attribute (or vice versa)' % norm(st),
                       where=where(f, st))
                env[tgt] = tg
    rets = [r for r in ast.walk(rect[0]) if isinstance(r, ast.Return) and r in rect[0].body]
    ok = len(rets) == 1 and isinstance(rets[0].value, ast.Call) and call_name(rets[0].value) == 'AndState' and \
        {frozenset(env.get(unparse(a), set())) for a in rets[0].value.args} == {frozenset({'X'}), frozenset({'Y'})}
    ctx.ob(R, 'glue.core.subset:roi_to_subset_state rectangle', 'the rectangle is the AND of its x range and its y range', ok,
           detail='the decomposed rectangle is not AndState(<x range selection>, <y range selection>)', where=where(f, rect[0]))
    # (3) mixed categorical / numerical branch
    mixed = []
    for n in ast.walk(node):
        if isinstance(n, ast.If) and any('to_polygon' in unparse(s_) for s_ in n.body):
            b = cond.branches(n, '%s is not None' % xc_p, f.node)
            if b is not None:
                mixed.append(b)
    if len(mixed) != 1:
        raise AnalysisError('roi_to_subset_state: mixed categorical/numerical branch not recognised')

    class mx(object):
        body, orelse = mixed[0]
    pli = [c for c in ast.walk(node) if isinstance(c, ast.Call) and call_name(c) == 'polygon_line_intersections']
    cmr = [c for c in ast.walk(node) if isinstance(c, ast.Call) and call_name(c) == 'CategoricalMultiRangeSubsetState']
    if len(pli) != 1 or len(cmr) != 1:
        raise AnalysisError('roi_to_subset_state: polygon_line_intersections / CategoricalMultiRangeSubsetState call not recognised')
    for body, cat_axis in ((mx.body, 'X'), (mx.orelse, 'Y')):
        e = dict(seed)
        for st in body:
            if isinstance(st, ast.Assign):
                if isinstance(st.targets[0], ast.Tuple) and isinstance(st.value, ast.Call) and call_name(st.value) == 'to_polygon':
                    a, b = st.targets[0].elts
                    e[unparse(a)] = {'X'}
                    e[unparse(b)] = {'Y'}
                else:
                    e[unparse(st.targets[0])] = _tag(st.value, e, roi_p)
        num_axis = 'Y' if cat_axis == 'X' else 'X'
        a0 = e.get(unparse(pli[0].args[0]), set())
        a1 = e.get(unparse(pli[0].args[1]), set())
        which = 'x categorical' if cat_axis == 'X' else 'y categorical'
        ctx.ob(R, 'glue.core.subset:roi_to_subset_state mixed[%s] polygon' % which,
               'the polygon coordinate along the categorical axis is the one intersected with the category positions',
               a0 == {cat_axis} and a1 == {num_axis},
               detail='with the %s axis, polygon_line_intersections(%s, %s, ...) receives the polygon\'s %s coordinates as the '
                      'categorical axis and %s as the numerical one: expected %s then %s (the unpacking of roi.to_polygon() is '
                      'swapped for exactly one of the two cases)' % (which.split()[0], unparse(pli[0].args[0]), unparse(pli[0].args[1]),
                                                                      '/'.join(sorted(a0)).lower(), '/'.join(sorted(a1)).lower(),
                                                                      cat_axis.lower(), num_axis.lower()), where=where(f, mx))
        kw = {k.arg: unparse(k.value) for k in cmr[0].keywords}
        cat_v = e.get(kw.get('cat_att', unparse(cmr[0].args[1]) if len(cmr[0].args) > 1 else ''), set())
        num_v = e.get(kw.get('num_att', unparse(cmr[0].args[2]) if len(cmr[0].args) > 2 else ''), set())
        # the categories walked by the loop that intersects the polygon with each category position
        cat_name = 'categories'
        for lp_ in ast.walk(node):
            if isinstance(lp_, ast.For) and any(x is pli[0] for x in ast.walk(lp_)):
                for n_ in ast.walk(lp_.iter):
                    if isinstance(n_, ast.Name) and n_.id in e:
                        cat_name = n_.id
        cats = e.get(cat_name, set())
        ctx.ob(R, 'glue.core.subset:roi_to_subset_state mixed[%s] attributes' % which,
               'the categorical attribute, the categories and the numerical attribute come from the matching axes',
               cat_v == {cat_axis} and num_v == {num_axis} and cats == {cat_axis},
               detail='with the %s axis: categorical attribute from %s, categories from %s, numerical attribute from %s'
                      % (which.split()[0], sorted(cat_v), sorted(cats), sorted(num_v)), where=where(f, mx))
    # (4) both categorical
    c2d = [c for c in ast.walk(node) if isinstance(c, ast.Call) and call_name(c) == 'CategoricalROISubsetState2D']
    if len(c2d) != 1:
        raise AnalysisError('roi_to_subset_state: CategoricalROISubsetState2D call not recognised')
    loops = [n for n in ast.walk(node) if isinstance(n, ast.For) and 'enumerate' in unparse(n.iter) and
             any(call_name(c) == 'contains' for c in calls_in(n))]
    if len(loops) != 1:
        raise AnalysisError('roi_to_subset_state: double-categorical loop not recognised')
    lp = loops[0]
    e = dict(seed)
    outer = _tag(lp.iter, e, roi_p)
    for nm in ast.walk(lp.target):
        if isinstance(nm, ast.Name):
            e[nm.id] = set(outer)
    for st in lp.body:
        if isinstance(st, ast.Assign) and isinstance(st.targets[0], ast.Name):
            e[st.targets[0].id] = _tag(st.value, e, roi_p)
    cont = [c for c in calls_in(lp) if call_name(c) == 'contains'][0]
    t0, t1 = _tag(cont.args[0], e, roi_p), _tag(cont.args[1], e, roi_p)
    ctx.ob(R, 'glue.core.subset:roi_to_subset_state both-categorical contains', 'the region is asked about (x position, y position)',
           t0 == {'X'} and t1 == {'Y'},
           detail='roi.contains(%s, %s) is called with %s-axis positions first and %s-axis positions second'
                  % (unparse(cont.args[0]), unparse(cont.args[1]), '/'.join(sorted(t0)).lower(), '/'.join(sorted(t1)).lower()), where=where(f, cont))
    keys = [st for st in ast.walk(lp) if isinstance(st, ast.Assign) and isinstance(st.targets[0], ast.Subscript)]
    ktag = _tag(keys[0].targets[0].slice, e, roi_p) if keys else set()
    vtag = _tag(keys[0].value, e, roi_p) - ktag if keys else set()
    a1, a2 = _tag(c2d[0].args[1], seed, roi_p), _tag(c2d[0].args[2], seed, roi_p)
    ctx.ob(R, 'glue.core.subset:roi_to_subset_state both-categorical attributes',
           'the attribute of the dictionary keys comes first and the attribute of the values second', a1 == ktag and a2 == vtag and a1 != a2 and bool(a1),
           detail='CategoricalROISubsetState2D(%s): keys are %s-axis labels, values %s-axis labels, but the attributes are passed as (%s, %s)'
                  % (', '.join(unparse(a) for a in c2d[0].args), '/'.join(sorted(ktag)).lower(), '/'.join(sorted(vtag)).lower(),
                     '/'.join(sorted(a1)).lower(), '/'.join(sorted(a2)).lower()), where=where(f, c2d[0]))
    # (5) categorical region on the x axis
    crs = [c for c in ast.walk(node) if isinstance(c, ast.Call) and call_name(c) == 'CategoricalROISubsetState' and kwarg(c, 'att') is not None]
    ok = len(crs) == 1 and _tag(kwarg(crs[0], 'att'), seed, roi_p) == {'X'} and unparse(kwarg(crs[0], 'roi')) == roi_p
    ctx.ob(R, 'glue.core.subset:roi_to_subset_state categorical region', 'a categorical region selects on the x attribute', ok,
           detail='the CategoricalROI branch does not build CategoricalROISubsetState(roi=roi, att=x_att)', where=f.where)
    # (6) final numeric branch
    sets = {}
    for st in ast.walk(node):
        if isinstance(st, ast.Assign) and isinstance(st.targets[0], ast.Attribute) and st.targets[0].attr in ('xatt', 'yatt'):
            sets[st.targets[0].attr] = _tag(st.value, seed, roi_p)
    ctor = [c for c in ast.walk(node) if isinstance(c, ast.Call) and call_name(c) == 'RoiSubsetState' and (c.args or c.keywords)]
    for c in ctor:
        if len(c.args) >= 2:
            sets['xatt'] = _tag(c.args[0], seed, roi_p)
            sets['yatt'] = _tag(c.args[1], seed, roi_p)
        for k in c.keywords:
            if k.arg in ('xatt', 'yatt'):
                sets[k.arg] = _tag(k.value, seed, roi_p)
    ctx.ob(R, 'glue.core.subset:roi_to_subset_state numeric', 'the 2-d selection gets xatt from the x attribute and yatt from the y attribute',
           sets.get('xatt') == {'X'} and sets.get('yatt') == {'Y'},
           detail='the numeric branch sets xatt from %s and yatt from %s' % (sorted(sets.get('xatt', [])), sorted(sets.get('yatt', []))),
           where=f.where)
    # the region itself is handed over (or its polygon)
    rs = [st for st in ast.walk(node) if isinstance(st, ast.Assign) and isinstance(st.targets[0], ast.Attribute) and st.targets[0].attr == 'roi']
    ok = any(unparse(st.value) == roi_p for st in rs) or any(kwarg(c, 'roi') is not None and unparse(kwarg(c, 'roi')) == roi_p for c in ctor)
    ctx.ob(R, 'glue.core.subset:roi_to_subset_state numeric roi', 'the selection keeps the drawn region', ok,
           detail='the numeric branch does not store the region in the selection', where=f.where, nontrivial=False)


def rule_c(ctx, ix):
    """contains() looks categories up with searchsorted, so every store into .categories must be a sorted unique array."""
    R = 'C09.c'
    ctx.describe(R, 'categorical regions keep their categories sorted (contains() uses searchsorted)', floor=2)
    c = ix.cls('glue.core.roi.CategoricalROI')
    cont = c.resolve_func('contains')
    if cont is None:
        raise AnalysisError('CategoricalROI.contains vanished')
    uses_ss = any(call_name(x) == 'searchsorted' for x in calls_in(cont.node))
    if not uses_ss:
        ctx.ob(R, cont.construct, 'contains() no longer relies on sorted categories', True, nontrivial=False)
        return
    n = 0
    for name, m in sorted(c.members.items()):
        f = m.func
        if f is None:
            continue
        insts = {f.self_name} if f.self_name and not f.has_decorator('staticmethod', 'classmethod') else set()
        for st in walk_no_nested(f.node):
            if isinstance(st, ast.Assign) and isinstance(st.value, ast.Call) and isinstance(st.targets[0], ast.Name):
                k = ix.resolve_class(f.module, st.value.func)
                if (k is not None and k.is_subclass_of(c)) or unparse(st.value.func) == 'cls':
                    insts.add(st.targets[0].id)
        for st in walk_no_nested(f.node):
            if not isinstance(st, ast.Assign):
                continue
            for t in st.targets:
                if isinstance(t, ast.Attribute) and t.attr == 'categories' and isinstance(t.value, ast.Name) and t.value.id in insts:
                    n += 1
                    v = st.value
                    ok = (isinstance(v, ast.Constant) and v.value is None) or \
                        (isinstance(v, ast.Call) and ix.resolve_expr(f.module, v.func) in ('numpy.unique', 'numpy.sort', 'sorted'))
                    ctx.ob(R, '%s `%s`' % (f.construct, norm(st)), 'categories are stored sorted (np.unique / None)', ok,
                           detail='%s stores the categories as `%s` without sorting them, but contains() finds labels with '
                                  'np.searchsorted: for category orders that are not already sorted, labels inside the region are '
                                  'not found' % (f.construct, unparse(v)), where=where(f, st))
    if n < 2:
        raise AnalysisError('CategoricalROI: only %d stores into .categories recognised' % n)


def rule_d(ctx, ix):
    """Missing values (NaN) are never selected: every range test of the selection and region code is a positive test."""
    R = 'C09.d'
    ctx.describe(R, 'range tests of the selection / region modules are written positively (NaN fails them)', floor=1)
    common.check_nan_safe_ranges(ctx, R, [ix.module('glue.core.subset'), ix.module('glue.core.roi')], floor=8)


def rule_e(ctx, ix, f):
    """A region can be concave or thin: whether a category position lies inside says nothing about its neighbours.  The passes
    that translate a polygon-like region into per-category selections must look at every category."""
    from ..util import iterations, short_circuits, elementwise, parent_map as _pm, enclosing
    R = 'C09.e'
    ctx.describe(R, 'every category is examined when a polygon-like region is translated (no early exit from the per-category pass)', floor=2)
    pm = _pm(f.node)
    n = 0
    # the category collections: the two parameters and every local bound to one of them
    cat_names = set(f.params[3:5])
    for _ in range(3):
        for st in ast.walk(f.node):
            if isinstance(st, ast.Assign) and isinstance(st.value, (ast.Name, ast.Attribute)) and unparse(st.value) in cat_names:
                for t_ in st.targets:
                    if isinstance(t_, ast.Name):
                        cat_names.add(t_.id)
    for it, tg, owner, kind in iterations(f.node):
        ew = elementwise(it, f.node)
        if ew is None or ew.source not in cat_names:
            continue
        n += 1
        if kind == 'for':
            exits = [x for x in ast.walk(owner) if isinstance(x, (ast.Break, ast.Return)) and
                     enclosing(pm, x, (ast.For, ast.While)) is owner]
            ok = not exits and not ew.filtered
            how = 'leaves the loop early (`%s`)' % norm(exits[0]) if exits else 'skips part of the categories'
        else:
            ok = not short_circuits(pm, owner) and not ew.filtered
            how = 'stops at the first match'
        ctx.ob(R, '%s pass over `%s`' % (f.construct, ew.source), 'the pass looks at every category', ok,
               detail='the pass over `%s` in roi_to_subset_state %s: for a concave or slanted region the categories after a gap (a '
                      'column the region does not touch) are never examined and their elements are not selected' % (ew.source, how),
               where=where(f, owner))
    if n < 2:
        raise AnalysisError('roi_to_subset_state: only %d per-category passes found' % n)


ROUNDERS = ('round', 'around', 'round_', 'rint', 'floor', 'ceil', 'trunc', 'fix', 'isclose', 'allclose')


def _absolute_scale_calls(fnode):
    """Calls in a function that tie coordinate values to an absolute scale: rounding to a number of decimals / to integers, or a
    comparison with an absolute tolerance (np.isclose has atol=1e-8 unless the call sets atol=0), applied to a value that
    depends on a parameter of the function."""
    params = {a.arg for a in fnode.args.posonlyargs + fnode.args.args + fnode.args.kwonlyargs}
    # flow-insensitive closure: locals computed from parameters
    dep = set(params)
    for _ in range(6):
        for st in ast.walk(fnode):
            if isinstance(st, ast.Assign) and any(isinstance(n, ast.Name) and n.id in dep for n in ast.walk(st.value)):
                for t in st.targets:
                    dep |= {n.id for n in ast.walk(t) if isinstance(n, ast.Name)}
            elif isinstance(st, (ast.For, ast.comprehension)) and any(isinstance(n, ast.Name) and n.id in dep for n in ast.walk(st.iter)):
                dep |= {n.id for n in ast.walk(st.target) if isinstance(n, ast.Name)}
    out = []
    for c in ast.walk(fnode):
        if not isinstance(c, ast.Call):
            continue
        nm = call_name(c)
        if nm not in ROUNDERS:
            continue
        args = list(c.args) + ([c.func.value] if isinstance(c.func, ast.Attribute) and not
                               (isinstance(c.func.value, ast.Name) and c.func.value.id in ('np', 'numpy', 'math')) else [])
        if not any(isinstance(n, ast.Name) and n.id in dep for a in args for n in ast.walk(a)):
            continue
        if nm in ('isclose', 'allclose'):
            atol = [k.value for k in c.keywords if k.arg == 'atol']
            if atol and isinstance(atol[0], ast.Constant) and atol[0].value == 0:
                continue            # purely relative
        out.append(c)
    return out


def rule_g(ctx, ix):
    """The polygon helpers behind the per-category ranges work in the units of the data: a selection must not change when the
    numeric axis is expressed in other units, so they never round coordinates or compare them with an absolute tolerance."""
    R = 'C09.g'
    ctx.describe(R, 'polygon geometry is scale-free: no rounding of, and no absolute tolerance on, coordinate values', floor=4)
    probe = ast.parse('def f(px, py):\n    pts = np.hstack([px, py])\n    return np.unique(np.round(pts, 8))\n').body[0]
    if not _absolute_scale_calls(probe):
        raise AnalysisError('C09.g: the detector no longer recognises its reference example')
    mod = ix.module('glue.utils.geometry')
    views = common.function_views(ix)
    n = 0
    for raw in mod.tree.body:
        if not isinstance(raw, ast.FunctionDef):
            continue
        node = views(raw)
        if node is None:
            continue
        n += 1
        hits = _absolute_scale_calls(node)
        ctx.ob(R, 'glue.utils.geometry:%s' % raw.name, 'coordinates are used as they are (no rounding, no absolute tolerance)', not hits,
               detail='glue.utils.geometry.%s applies `%s` to coordinate values: the result depends on the absolute size of the numbers, '
                      'so a region drawn on an axis with small values (1e-9 metres) selects other elements than the same region on the '
                      'same data in other units - crossings closer than the rounding step merge and per-category ranges collapse'
                      % (raw.name, norm(hits[0]) if hits else ''),
               where='%s:%d' % (mod.relpath, getattr(hits[0], 'lineno', raw.lineno) if hits else raw.lineno))
    if n < 4:
        raise AnalysisError('C09.g: only %d functions of glue.utils.geometry scanned' % n)
