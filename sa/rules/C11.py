"""C11 - key joins propagate selections by key membership, in all four join shapes."""
import ast

from ..index import AnalysisError, dotted_chain, norm, unparse, walk_no_nested, body_stmts
from ..flow import Flow
from ..util import calls_in, call_name, where, returns_of, kwarg, parent_map, in_finally, in_try_body, guard_chain
from .. import props
from . import common

props.prop(
    'C11',
    explanation='Static (ast + dataflow) decision of the join bookkeeping and of left/right role separation in the key-join '
                'routine: a two-point type system (LEFT = this dataset, its key attributes and the requested view; RIGHT = '
                'the other dataset, its key attributes and the mask evaluated there) is propagated through the four join '
                'shapes; every data access and every isin() must be homogeneous / ordered.',
    decides='join registered and removed in both directions with swapped key tuples; left keys read from this dataset with '
            'the view, right keys from the other dataset with the mask; isin(left, right) in that order; the four shapes '
            'dispatched exhaustively with a loud fall-through; recursion guard set before the recursive call, cleared in '
            'finally, tested on the other dataset',
    not_decided='that numpy\'s isin / result_type / byte views behave as documented; duplicates inside one dataset',
    assumptions=['_key_joins[other] = (own key attributes, other\'s key attributes)'])
props.also('C11',
           "that no key is cast one-sidedly to the other side's dtype before comparison; that both directions of a join are stored under the same condition")

JOINS = 'glue.core.joins.get_mask_with_key_joins'


def run(ctx):
    ix = ctx.index
    ctx.guard(rule_a, ctx, ix)
    ctx.guard(rule_b, ctx, ix)
    ctx.guard(rule_c, ctx, ix)
    ctx.guard(rule_d, ctx, ix)
    ctx.guard(rule_e, ctx, ix)


def rule_a(ctx, ix):
    R = 'C11.a'
    ctx.describe(R, 'joins are registered and removed in both directions', floor=5)
    data = ix.cls('glue.core.data.Data')
    f = data.resolve_func('join_on_key')
    if f is None:
        raise AnalysisError('Data.join_on_key vanished')
    s, other, cid, cido = f.params[:4]
    # roles: whatever is computed from `cid` are this dataset's keys (L), from `cid_other` the other dataset's (R)
    env = {cid: {'L'}, cido: {'R'}}

    def tags(e):
        out = set()
        for n in ast.walk(e):
            if isinstance(n, ast.Name) and n.id in env:
                out |= env[n.id]
        return out
    stores = {}
    for x in walk_no_nested(f.node):
        if isinstance(x, ast.Assign):
            t0 = x.targets[0]
            if isinstance(t0, ast.Name):
                tg = tags(x.value)
                if tg:
                    env[t0.id] = tg if t0.id not in (cid, cido) else env[t0.id] | tg
            elif '_key_joins[' in unparse(t0) and isinstance(x.value, ast.Tuple) and len(x.value.elts) == 2:
                stores[unparse(t0)] = (tags(x.value.elts[0]), tags(x.value.elts[1]), unparse(x.value), x)
    fwd = stores.get('%s._key_joins[%s]' % (s, other))
    bwd = stores.get('%s._key_joins[%s]' % (other, s))
    ctx.ob(R, f.construct, 'the join is stored on this dataset as (own keys, other keys)', fwd is not None and fwd[:2] == ({'L'}, {'R'}),
           detail='join_on_key stores %s under self._key_joins[other]' % (fwd[2] if fwd else None), where=f.where)
    ctx.ob(R, f.construct, 'the reverse join is stored on the other dataset with the swapped tuple', bwd is not None and bwd[:2] == ({'R'}, {'L'}),
           detail='join_on_key stores %s under other._key_joins[self] (expected the swapped tuple (other keys, own keys)): selections do not '
                  'propagate from this dataset to the other one%s' % (bwd[2] if bwd else None, '' if bwd else ' - the reverse registration is missing'),
           where=f.where)
    if fwd is not None and bwd is not None:
        from .. import cond
        pcf = cond.path_condition(f.node, fwd[3], expand=False) or ('const', True)
        pcb = cond.path_condition(f.node, bwd[3], expand=False) or ('const', True)
        ctx.ob(R, f.construct + ' both directions', 'the two directions are stored under the same condition', cond.equivalent(pcf, pcb),
               detail='join_on_key stores the forward direction under `%s` but the reverse direction under `%s`: joining the same two '
                      'datasets again (on other keys) updates one direction only, so a selection travels one way by the new keys and '
                      'the other way by the old ones' % (pcf, pcb), where=where(f, bwd[3]))
    lm = ix.cls('glue.core.link_manager.LinkManager')
    g = lm.resolve_func('add_link')
    j = [c for c in calls_in(g.node) if call_name(c) == 'join_on_key']
    app = [c for c in calls_in(g.node) if call_name(c) == 'append' and '_external_links' in unparse(c.func)]
    ok = len(j) == 1 and bool(app) and j[0].lineno < app[0].lineno and unparse(j[0].func.value).endswith('.data1') and \
        [unparse(a) for a in j[0].args][0].endswith('.data2')
    pm = parent_map(g.node)
    guarded = ok and any('JoinLink' in unparse(gg.test) for gg, br in guard_chain(pm, j[0], g.node) if isinstance(gg, ast.If))
    ctx.ob(R, g.construct, 'adding a JoinLink performs the join before the link is recorded', ok and guarded,
           detail='LinkManager.add_link does not call data1.join_on_key(data2, ...) for JoinLinks before recording them', where=g.where)
    if ok:
        a = [unparse(x) for x in j[0].args]
        ctx.ob(R, g.construct, 'data1 is joined on its own key (cids1) with data2 on cids2', 'cids1' in a[1] and 'cids2' in a[2],
               detail='the JoinLink is applied as join_on_key(%s): keys of the two datasets are crossed' % ', '.join(a), where=g.where)
    h = lm.resolve_func('remove_link')
    from ..util import expand_locals
    pops = [expand_locals(h.node, c.func) for c in calls_in(h.node) if call_name(c) == 'pop']
    pops = [c for c in pops if '_key_joins' in unparse(c)]
    sides = {unparse(c).split('._key_joins')[0].rpartition('.')[2] for c in pops}
    ctx.ob(R, h.construct, 'removing a JoinLink removes the join from both datasets', sides == {'data1', 'data2'},
           detail='LinkManager.remove_link pops the key join from %s only: the other dataset keeps propagating selections through '
                  'a join that no longer exists' % (sorted(sides) or 'neither dataset'), where=h.where)


def rule_b(ctx, ix):
    R = 'C11.b'
    ctx.describe(R, 'left/right role separation in the four join shapes', floor=14)
    f = ix.func(JOINS)
    data_p, kj_p, ss_p, view_p = f.params[:4]
    loops = [n for n in body_stmts(f.node) if isinstance(n, ast.For) and unparse(n.iter) == '%s.items()' % kj_p]
    if len(loops) != 1:
        raise AnalysisError('get_mask_with_key_joins: loop over the key joins not recognised')
    lp = loops[0]
    t = lp.target
    if not (isinstance(t, ast.Tuple) and len(t.elts) == 2 and isinstance(t.elts[1], ast.Tuple) and len(t.elts[1].elts) == 2):
        raise AnalysisError('get_mask_with_key_joins: loop target is not (other, (cid1, cid2))')
    other = unparse(t.elts[0])
    c1, c2 = (unparse(e) for e in t.elts[1].elts)
    init = {data_p: frozenset('L'), view_p: frozenset('L'), other: frozenset('R'), c1: frozenset('L'), c2: frozenset('R')}

    def classify(expr, state):
        # a dtype computed from both sides is not key data: it carries no role, and casting keeps the role of the array cast
        if isinstance(expr, ast.Call) and call_name(expr) in ('result_type', 'promote_types', 'common_type', 'find_common_type'):
            return set()
        if isinstance(expr, ast.Call) and isinstance(expr.func, ast.Attribute) and expr.func.attr == 'astype':
            return classify(expr.func.value, state)
        tags = set()
        for n in ast.iter_child_nodes(expr):
            tags |= classify(n, state)
        if isinstance(expr, ast.Name) and expr.id in state:
            tags |= {x for x in state[expr.id] if x in ('L', 'R')}
        return tags
    sinks = []

    def on_stmt(st, state):
        exprs = [st]
        if isinstance(st, (ast.If, ast.While)):
            exprs = [st.test]
        elif isinstance(st, ast.For):
            exprs = [st.iter]
        if isinstance(st, ast.Expr) and isinstance(st.value, ast.Call) and isinstance(st.value.func, ast.Attribute) \
                and st.value.func.attr in ('append', 'extend') and isinstance(st.value.func.value, ast.Name):
            nm = st.value.func.value.id
            tg = set()
            for a in st.value.args:
                tg |= classify(a, state)
            state[nm] = frozenset(state.get(nm, frozenset()) | tg)
        if isinstance(st, ast.AugAssign) and isinstance(st.target, ast.Name):
            pass
        for e in exprs:
            for c in ast.walk(e):
                if isinstance(c, ast.Call):
                    sinks.append((c, dict(state), st))
    fl = Flow(classify, on_stmt=on_stmt)
    fl.block(lp.body, dict(init))
    seen = set()
    ngd, nisin = 0, 0
    for c, state, st in sinks:
        if id(c) in seen:
            continue
        seen.add(id(c))
        if call_name(c) == 'get_data' and isinstance(c.func, ast.Attribute):
            ngd += 1
            recv = classify(c.func.value, state)
            parts = set(recv)
            for a in c.args:
                parts |= classify(a, state)
            for k in c.keywords:
                parts |= classify(k.value, state)
            v = kwarg(c, 'view') or (c.args[1] if len(c.args) > 1 else None)
            vt = classify(v, state) if v is not None else set()
            ok = len(parts) == 1 and vt == parts
            side = 'this dataset' if recv == {'L'} else 'the other dataset'
            ctx.ob(R, '%s `%s`' % (f.construct, norm(c)), 'keys of %s are read with its own key attribute and its own view/mask' % side, ok,
                   detail='`%s` mixes the two sides of the join (receiver: %s, arguments: %s, view: %s): the key column of one dataset '
                          'is read from (or restricted by the mask of) the other' % (norm(c), sorted(recv), sorted(parts), sorted(vt) or 'none'),
                   where=where(f, c))
        elif call_name(c) in ('isin', 'in1d'):
            nisin += 1
            a, b = classify(c.args[0], state), classify(c.args[1], state)
            ctx.ob(R, '%s `%s`' % (f.construct, norm(c)), 'membership of this dataset\'s keys in the selected keys of the other', a == {'L'} and b == {'R'},
                   detail='`%s` tests %s keys against %s keys: expected isin(<keys of this dataset>, <selected keys of the other>); '
                          'the mask then has the other dataset\'s length / meaning' % (norm(c), _side(a), _side(b)), where=where(f, c))
        elif call_name(c) == 'get_mask' and isinstance(c.func, ast.Attribute):
            recv = classify(c.func.value, state)
            ok = recv == {'R'} and c.args and unparse(c.args[0]) == ss_p
            ctx.ob(R, '%s `%s`' % (f.construct, norm(c)), 'the selection is evaluated on the other dataset', ok,
                   detail='the recursive evaluation `%s` is not other.get_mask(subset_state)' % norm(c), where=where(f, c))
    if ngd < 6 or nisin < 4:
        raise AnalysisError('get_mask_with_key_joins: only %d get_data and %d isin calls recognised' % (ngd, nisin))
    for r, state in fl.returns:
        if r.value is None:
            continue
        shp = [c for c in ast.walk(r.value) if isinstance(c, ast.Call) and call_name(c) == 'reshape']
        if shp:
            tg = classify(shp[0].args[0], state)
            ctx.ob(R, '%s `%s`' % (f.construct, norm(r)), 'the mask is shaped like this dataset\'s (viewed) keys', tg == {'L'},
                   detail='`%s` shapes the result like %s keys' % (norm(r), _side(tg)), where=where(f, r))
    # exhaustive dispatch on (len(cid1), len(cid2)) with a loud fall-through: the conditions under which the four results are
    # returned, read as formulas (elif chain, guard clauses and local names for the lengths are all the same thing)
    from .. import cond
    A = cond.T('eq|%s|%s' % tuple(sorted(('len(%s)' % c1, '1'))))
    B = cond.T('eq|%s|%s' % tuple(sorted(('len(%s)' % c2, '1'))))
    E = cond.T('eq|%s|%s' % tuple(sorted(('len(%s)' % c1, 'len(%s)' % c2))))
    keep = lambda k: k in (A[1], B[1], E[1])
    rets = [r for r in ast.walk(lp) if isinstance(r, ast.Return) and r.value is not None]
    conds = []
    for r in rets:
        pc = cond.path_condition(f.node, r)
        if pc is not None:
            conds.append(cond.restrict(pc, keep))
    nAB = cond.Not(cond.And(A, B))
    want = [cond.And(A, B), cond.And(nAB, E), cond.And(nAB, cond.Not(E), A), cond.And(nAB, cond.Not(E), cond.Not(A), B)]
    matched = [any(cond.equivalent(c, w) for c in conds) for w in want]
    ctx.ob(R, f.construct + ' dispatch', 'the four join shapes are dispatched in order 1-1, n-n, 1-n, n-1', all(matched) and len(conds) == 4,
           detail='the shape dispatch returns under the conditions %s (expected, in order: both single; equal lengths; left single; '
                  'right single)' % (conds,), where=where(f, lp))
    raises = [x for x in ast.walk(lp) if isinstance(x, ast.Raise) and not isinstance(pm_get(f, x), ast.ExceptHandler)]
    ok = False
    for x in raises:
        pc = cond.path_condition(f.node, x)
        if pc is not None and cond.equivalent(cond.restrict(pc, keep), cond.And(cond.Not(A), cond.Not(B), cond.Not(E))):
            ok = True
    ctx.ob(R, f.construct + ' fall-through', 'an unsupported shape raises', ok,
           detail='the shape dispatch has no raising fall-through for shapes that are none of the four', where=where(f, lp))
    tail = body_stmts(f.node)[-1]
    ok = isinstance(tail, ast.Raise) and 'IncompatibleAttribute' in unparse(tail)
    ctx.ob(R, f.construct + ' no join', 'when no join can evaluate the selection the routine raises IncompatibleAttribute', ok,
           detail='get_mask_with_key_joins does not end with `raise IncompatibleAttribute`', where=f.where)


def pm_get(f, node):
    return parent_map(f.node).get(id(node))


def _side(tags):
    return {frozenset('L'): "this dataset's", frozenset('R'): "the other dataset's"}.get(frozenset(tags), 'mixed/unknown')


def rule_c(ctx, ix):
    R = 'C11.c'
    ctx.describe(R, 'recursion guard: set before the recursive call, cleared in finally, tested on the other dataset', floor=4)
    f = ix.func(JOINS)
    data_p = f.params[0]
    pm = parent_map(f.node)
    sets = [st for st in ast.walk(f.node) if isinstance(st, ast.Assign) and unparse(st.targets[0]).endswith('._recursing')]
    on = [st for st in sets if isinstance(st.value, ast.Constant) and st.value.value is True]
    off = [st for st in sets if isinstance(st.value, ast.Constant) and st.value.value is False]
    rec = [c for c in ast.walk(f.node) if isinstance(c, ast.Call) and call_name(c) == 'get_mask']
    if len(on) != 1 or not off or len(rec) != 1:
        raise AnalysisError('get_mask_with_key_joins: recursion guard not recognised')
    fin = [st for st in off if in_finally(pm, st) is not None]
    off = fin or off
    ctx.ob(R, f.construct, 'the guard is set on this dataset before the recursive call', unparse(on[0].targets[0]) == '%s._recursing' % data_p
           and on[0].lineno < rec[0].lineno,
           detail='the recursion flag is not set on the dataset being evaluated before other.get_mask(...)', where=where(f, on[0]))
    tr = in_finally(pm, off[0])
    ok = tr is not None and any(rec[0] is x for b in tr.body for x in ast.walk(b)) and unparse(off[0].targets[0]) == unparse(on[0].targets[0])
    ctx.ob(R, f.construct, 'the guard is cleared in the finally of the try that makes the recursive call', ok,
           detail='the recursion flag is not reset in a finally block around the recursive call: after an unrelated exception the '
                  'dataset is skipped by every later join lookup', where=where(f, off[0]))
    lp = [n for n in body_stmts(f.node) if isinstance(n, ast.For)][0]
    other = unparse(lp.target.elts[0])
    tests = [n for n in lp.body if isinstance(n, ast.If) and '_recursing' in unparse(n.test)]
    ok = len(tests) == 1 and other in unparse(tests[0].test) and data_p not in unparse(tests[0].test).replace(other, '') and \
        any(isinstance(x, ast.Continue) for x in tests[0].body) and tests[0].lineno < rec[0].lineno
    ctx.ob(R, f.construct, 'a dataset that is already being evaluated is skipped (flag tested on the other dataset)', ok,
           detail='the recursion test is not `if getattr(other, "_recursing", False): continue` before the recursive call: cyclic '
                  'joins recurse without bound', where=where(f, lp))
    hs = [h for n in ast.walk(f.node) if isinstance(n, ast.Try) for h in n.handlers]
    ok = any('IncompatibleAttribute' in unparse(h.type) and any(isinstance(x, ast.Continue) for x in h.body) for h in hs if h.type is not None)
    ctx.ob(R, f.construct, 'an incompatible selection on the other dataset moves on to the next join', ok,
           detail='IncompatibleAttribute from the other dataset does not `continue` to the next join', where=f.where)


def rule_d(ctx, ix):
    """Keys compared by their raw bytes must be stored with one dtype on both sides of the join."""
    R = 'C11.d'
    ctx.describe(R, 'byte-level (concatenated) keys: each pair of key columns is brought to a common dtype first', floor=2)
    ca = ix.func('glue.core.joins.concatenate_arrays')
    bytewise = any(isinstance(c, ast.Call) and call_name(c) == 'view' and c.args and 'S' in unparse(c.args[0]) for c in ast.walk(ca.node))
    ctx.ob(R, ca.construct, 'the concatenated key is compared as raw bytes (read from the code: %s)' % bytewise, True, nontrivial=False)
    f = ix.func('glue.core.joins.get_mask_with_key_joins')
    calls = [c for c in calls_in(f.node) if call_name(c) == 'concatenate_arrays']
    if len(calls) != 2:
        raise AnalysisError('get_mask_with_key_joins: the two concatenate_arrays calls are not recognised')
    if not bytewise:
        ctx.unmodelled(R, f.construct, 'concatenate_arrays no longer compares raw bytes: dtype agreement not needed')
        return
    lists = [unparse(c.args[0].value) for c in calls if c.args and isinstance(c.args[0], ast.Starred)]
    if len(lists) != 2:
        raise AnalysisError('get_mask_with_key_joins: the key lists handed to concatenate_arrays are not recognised')
    apps = {}
    for c in calls_in(f.node):
        if call_name(c) == 'append' and unparse(c.func.value) in lists and c.args:
            apps.setdefault(unparse(c.func.value), []).append(c)
    if any(len(apps.get(l, [])) != 1 for l in lists):
        raise AnalysisError('get_mask_with_key_joins: one append per key list expected, found %s' % {k: len(v) for k, v in apps.items()})
    a, b = apps[lists[0]][0], apps[lists[1]][0]

    def cast_of(call):
        e = call.args[0]
        # follow one local name
        if isinstance(e, ast.Name):
            defs = [st for st in walk_no_nested(f.node) if isinstance(st, ast.Assign) and unparse(st.targets[0]) == e.id and st.lineno < call.lineno]
            e = defs[-1].value if defs else e
        for x in ast.walk(e):
            if isinstance(x, ast.Call) and call_name(x) == 'astype' and x.args:
                return unparse(x.args[0])
        return None
    ca_, cb_ = cast_of(a), cast_of(b)
    common_src = None
    if ca_ and ca_ == cb_:
        defs = [st for st in walk_no_nested(f.node) if isinstance(st, ast.Assign) and unparse(st.targets[0]) == ca_]
        for st in defs:
            if isinstance(st.value, ast.Call) and call_name(st.value) in ('result_type', 'promote_types', 'common_type', 'find_common_type') \
                    and len(st.value.args) == 2:
                common_src = unparse(st.value)
    ctx.idiom(R, f.construct + ' n-n keys', 'both columns of a key pair are cast to their common dtype before the bytes are compared',
              accepted=common_src is not None,
              absent=(ca_ is None and cb_ is None) or ((ca_ is None) != (cb_ is None) and (ca_ or cb_).endswith('.dtype')),
              detail_absent='get_mask_with_key_joins concatenates the key columns with the dtypes they happen to be stored with and compares '
                            'the raw bytes: equal key values stored as int32 / int64, or as strings of different widths, never match, so '
                            'an n-n join between such columns selects nothing',
              shape='casts: %s / %s' % (ca_, cb_), where=where(f, a))


CASTS = ('astype',)
CAST_FUNCS = ('asarray', 'array', 'asanyarray', 'require', 'ascontiguousarray', 'fromiter')
SCALAR_CASTS = ('float', 'int', 'float64', 'float32', 'float16', 'int64', 'int32', 'int16', 'int8', 'uint64', 'uint32', 'uint16', 'uint8',
                'double', 'single', 'longdouble', 'intp', 'str_', 'bytes_', 'complex', 'complex128', 'bool_')
COMMON = ('result_type', 'promote_types', 'common_type', 'find_common_type')


def rule_e(ctx, ix):
    """Keys are compared by value: in the join module no key column passes through a cast to a dtype fixed in the source
    (only to the common dtype of the two sides), and no membership test assumes uniqueness of a column that was not
    de-duplicated."""
    R = 'C11.e'
    ctx.describe(R, 'key values are compared exactly: no fixed-dtype cast of key data, no unfounded assume_unique', floor=6)
    mod = ix.module('glue.core.joins')
    if mod is None:
        raise AnalysisError('glue.core.joins vanished')
    funcs = [n for n in ast.walk(mod.tree) if isinstance(n, (ast.FunctionDef, ast.AsyncFunctionDef))]
    from ..util import single_assignments
    ncast = nmember = 0
    for fn in funcs:
        construct = 'glue.core.joins:%s' % fn.name
        defs = single_assignments(fn)

        def origin(e, depth=4):
            while isinstance(e, ast.Name) and e.id in defs and depth:
                e = defs[e.id]
                depth -= 1
            return e
        for c in ast.walk(fn):
            if not isinstance(c, ast.Call):
                continue
            nm = call_name(c)
            dt = None
            is_cast = False
            if nm in CASTS and isinstance(c.func, ast.Attribute):
                is_cast = True
                dt = c.args[0] if c.args else kwarg(c, 'dtype')
            elif nm in CAST_FUNCS and (kwarg(c, 'dtype') is not None or len(c.args) > 1) and c.args:
                is_cast = True
                dt = kwarg(c, 'dtype') or c.args[1]
            elif nm in SCALAR_CASTS and len(c.args) == 1 and not c.keywords and \
                    (isinstance(c.func, ast.Name) or unparse(c.func.value) in ('np', 'numpy')):
                # float(x) / np.float64(x) of something that is not a literal
                if not isinstance(c.args[0], ast.Constant):
                    is_cast = True
                    dt = c.func
            if is_cast:
                ncast += 1
                src = origin(dt) if dt is not None else None
                common = isinstance(src, ast.Call) and call_name(src) in COMMON and len(src.args) >= 2
                fixed = src is not None and (isinstance(src, ast.Constant) or
                                             (isinstance(src, (ast.Name, ast.Attribute)) and not isinstance(origin(src), ast.Call)
                                              and unparse(src).rpartition('.')[2] in SCALAR_CASTS + ('bool', 'str', 'bytes', 'object', 'float_', 'int_'))
                                             or (isinstance(src, ast.Call) and call_name(src) == 'dtype' and src.args and isinstance(src.args[0], ast.Constant)))
                # a Boolean result buffer is not key data
                boolbuf = fixed and unparse(src) in ('bool', 'np.bool_', "'bool'", "'?'") and nm != 'astype'
                if boolbuf:
                    ctx.ob(R, '%s `%s`' % (construct, norm(c)), 'a Boolean buffer, not key data', True, nontrivial=False)
                    continue
                # `right.astype(left.dtype)`: the dtype of ONE side - as lossy for the other side's values as a fixed one
                one_sided = isinstance(src, ast.Attribute) and src.attr == 'dtype' and isinstance(c.func, ast.Attribute) and \
                    unparse(src.value) != unparse(c.func.value)
                fixed = fixed or one_sided
                ctx.idiom(R, '%s `%s`' % (construct, norm(c)), 'key data is only ever cast to the common dtype of the two sides of the join',
                          accepted=common, absent=fixed,
                          detail_absent='`%s` casts key values to a dtype fixed in the source (%s): keys that differ only beyond what that '
                                        'type can represent (integers above 2**53 as float64, fractions as integers, long strings as short '
                                        'ones) become equal, so rows are selected whose key is not the key of any selected row'
                                        % (norm(c), unparse(src) if src is not None else '?'),
                          shape='cast to `%s`' % (unparse(src) if src is not None else None), where='%s:%d' % (mod.relpath, c.lineno))
            if nm in ('isin', 'in1d', 'intersect1d', 'setdiff1d', 'setxor1d', 'union1d'):
                nmember += 1
                au = kwarg(c, 'assume_unique')
                if au is None and nm in ('isin', 'in1d') and len(c.args) > 2:
                    au = c.args[2]
                if au is None or (isinstance(au, ast.Constant) and au.value is False):
                    ctx.ob(R, '%s `%s`' % (construct, norm(c)), 'membership test makes no uniqueness assumption', True)
                    continue

                def unique(e):
                    e = origin(e)
                    return isinstance(e, ast.Call) and call_name(e) == 'unique' and not e.keywords
                ok = len(c.args) >= 2 and unique(c.args[0]) and unique(c.args[1])
                ctx.ob(R, '%s `%s`' % (construct, norm(c)), 'assume_unique only when both operands were de-duplicated', ok,
                       detail='`%s` tells numpy that both key arrays are free of duplicates, but %s cannot be shown to be the result of '
                              'np.unique: with repeated key values (several rows per key, which is what a join is for) numpy returns a '
                              'wrong mask' % (norm(c), ', '.join('`%s`' % norm(a) for a in c.args[:2] if not unique(a)) or 'an operand'),
                       where='%s:%d' % (mod.relpath, c.lineno))
    if nmember < 4:
        raise AnalysisError('glue.core.joins: only %d membership tests found' % nmember)
