"""One module per property; each exposes run(ctx)."""
