"""C10 - statistics and histograms equal their definition regardless of chunking or views (partial)."""
import ast

from ..index import AnalysisError, dotted_chain, norm, unparse, walk_no_nested, body_stmts
from ..util import calls_in, call_name, where, returns_of, kwarg, parent_map, guard_chain
from .. import props
from . import common

props.prop(
    'C10',
    explanation='Static (ast) agreement of the two reducer tables (plain and NaN-aware) with the documented statistic names '
                'and with each other, of the filter flags with the filters they guard, of the keyword forwarding on the chunked '
                'recursion (taken only above 40 000 000 elements, which no test reaches) and into the array-level routine, and '
                'of the chunk write-back.',
    decides='reducer tables; finite/positive/mask filters guarded by their flags; every filter and the statistic forwarded '
            'unchanged on the chunked path and to utils.compute_statistic; chunk result stored at the chunk\'s own index of '
            'the non-reduced axis',
    not_decided='every numerical clause (minimal sub-array, padding, bin edges, log ranges, weights) - this family cannot see '
                'them; e.g. values on interior bin edges falling into the lower bin is a known numeric defect outside its reach',
    assumptions=['numpy reducers compute what their names say'])
props.also('C10',
           'that the emptiness count of the NaN-aware sum counts not-NaN values; that the result is padded back to the full shape exactly when the values were cut to the minimal sub-array; that views of categorical arrays inherit the categories of the full array (C04.d)')

PLAIN = {'minimum': {'numpy.min', 'numpy.amin'}, 'maximum': {'numpy.max', 'numpy.amax'}, 'mean': {'numpy.mean'},
         'median': {'numpy.median'}, 'sum': {'numpy.sum'}, 'percentile': {'numpy.percentile'}}
NAN = {'minimum': 'nanmin', 'maximum': 'nanmax', 'mean': 'nanmean', 'median': 'nanmedian', 'sum': 'nansum',
       'percentile': 'nanpercentile'}
ARR = 'glue.utils.array'
FORWARDED = ['subset_state', 'axis', 'finite', 'positive', 'percentile']


def run(ctx):
    ix = ctx.index
    ctx.guard(rule_a, ctx, ix)
    ctx.guard(rule_b, ctx, ix)
    ctx.guard(rule_c, ctx, ix)
    ctx.guard(rule_d, ctx, ix)
    ctx.guard(rule_e, ctx, ix)
    ctx.guard(rule_f, ctx, ix)
    ctx.guard(rule_g, ctx, ix)
    ctx.guard(rule_h, ctx, ix)
    ctx.guard(rule_i, ctx, ix)
    # statistics are taken on sub-arrays (a view, a selection, the chunk loop): the codes of a categorical sub-array must be those
    # of the full array
    from ..report import BorrowedCtx
    from .C04 import rule_d as _view_categories
    ctx.guard(_view_categories, BorrowedCtx(ctx, {'C04.d': 'C10.j'}), ix)


def _table(ix, mod, name):
    node = mod.assigns.get(name)
    if not isinstance(node, ast.Dict):
        raise AnalysisError('%s is not a dict literal in glue/utils/array.py' % name)
    out = {}
    for k, v in zip(node.keys, node.values):
        if not (isinstance(k, ast.Constant) and isinstance(k.value, str)):
            raise AnalysisError('%s has a non-literal key' % name)
        out[k.value] = (ix.resolve_expr(mod, v), v)
    return out


def rule_a(ctx, ix):
    R = 'C10.a'
    ctx.describe(R, 'reducer tables agree with the statistic names and with each other; filters guarded by their flags', floor=16)
    mod = ix.module(ARR)
    plain = _table(ix, mod, 'PLAIN_FUNCTIONS')
    nan = _table(ix, mod, 'NAN_FUNCTIONS')
    ctx.ob(R, 'glue.utils.array:PLAIN_FUNCTIONS', 'keys are the documented statistics', set(plain) == set(PLAIN),
           detail='PLAIN_FUNCTIONS has keys %s, documented statistics are %s' % (sorted(plain), sorted(PLAIN)))
    ctx.ob(R, 'glue.utils.array:NAN_FUNCTIONS', 'both tables have the same keys', set(plain) == set(nan),
           detail='the NaN-aware table has keys %s but the plain table %s: a statistic works or fails depending on the filters'
                  % (sorted(nan), sorted(plain)))
    for k, (q, v) in sorted(plain.items()):
        if k in PLAIN:
            ctx.ob(R, 'glue.utils.array:PLAIN_FUNCTIONS[%s]' % k, '%r is computed by %s' % (k, sorted(PLAIN[k])), q in PLAIN[k],
                   detail='statistic %r is mapped to %s in the plain table' % (k, q), where='%s:%d' % (mod.relpath, v.lineno))
    for k, (q, v) in sorted(nan.items()):
        if k not in NAN:
            continue
        ok = q == 'numpy.' + NAN[k]
        if not ok:
            fn = ix.functions.get(q)
            if fn is not None:
                inner = [ix.resolve_expr(fn.module, c.func) for c in calls_in(fn.node)]
                ok = ('numpy.' + NAN[k]) in inner and not any(x and x.startswith('numpy.nan') and x != 'numpy.' + NAN[k]
                                                              and x.replace('numpy.', '') in NAN.values() for x in inner)
        ctx.ob(R, 'glue.utils.array:NAN_FUNCTIONS[%s]' % k, '%r is computed by numpy.%s (or a wrapper that calls it)' % (k, NAN[k]), ok,
               detail='statistic %r is mapped to %s in the NaN-aware table: with filters on (the default) it computes another statistic' % (k, q),
               where='%s:%d' % (mod.relpath, v.lineno))
    f = ix.func(ARR + '.compute_statistic')
    pm = parent_map(f.node)
    # the Boolean array that is narrowed filter by filter, by its role: the target of the `&=` statements
    keeps = {unparse(st.target) for st in walk_no_nested(f.node) if isinstance(st, ast.AugAssign) and isinstance(st.op, ast.BitAnd)}
    keepvar = sorted(keeps)[0] if len(keeps) == 1 else 'keep'
    for flag, pat, what in (('finite', 'isfinite', 'finite values only'), ('positive', '> 0', 'strictly positive values only'),
                            ('mask is not None', 'mask', 'selected values only')):
        hit = False
        for st in walk_no_nested(f.node):
            if isinstance(st, ast.AugAssign) and isinstance(st.op, ast.BitAnd) and unparse(st.target) == keepvar and pat in unparse(st.value):
                gs = [unparse(g.test) for g, br in guard_chain(pm, st, f.node) if isinstance(g, ast.If) and br == 'body']
                if gs and gs[0] == flag:
                    hit = True
        ctx.ob(R, f.construct + ' ' + flag, 'the filter "%s" is applied exactly when %s' % (what, flag), hit,
               detail='utils.compute_statistic no longer narrows `keep` with the %s filter under `if %s`' % (what, flag), where=f.where)
    # which table is used: the statement that picks the NaN-aware table runs on the filtered branch, the plain one on the other
    picks = {}
    for st in walk_no_nested(f.node):
        if isinstance(st, ast.Assign) and isinstance(st.targets[0], ast.Name):
            for tab in ('NAN_FUNCTIONS', 'PLAIN_FUNCTIONS'):
                v = st.value
                if (isinstance(v, ast.Name) and v.id == tab) or (isinstance(v, ast.Subscript) and unparse(v.value) == tab):
                    picks[tab] = (st, [('body' if br == 'body' else 'else') for g, br in guard_chain(pm, st, f.node) if isinstance(g, ast.If)],
                                  [g for g, br in guard_chain(pm, st, f.node) if isinstance(g, ast.If)])
    ok = set(picks) == {'NAN_FUNCTIONS', 'PLAIN_FUNCTIONS'}
    if ok:
        from .. import cond
        (sn, bn, gn), (sp, bp, gp) = picks['NAN_FUNCTIONS'], picks['PLAIN_FUNCTIONS']
        # the conditions under which each table is picked, as formulas: complementary, and every filter step runs under the
        # condition that picks the NaN-aware table (if/else, swapped branches and guard clauses are the same thing)
        pcn, pcp = cond.path_condition(f.node, sn), cond.path_condition(f.node, sp)
        ok = pcn is not None and pcp is not None and pcn != ('const', True) and \
            cond.equivalent(cond.And(pcn, pcp), ('const', False))
        if ok:
            # together they cover every way of reaching the reducer call (whatever guard clauses precede both)
            keep_atoms = cond.atoms(pcn) | cond.atoms(pcp)
            rets = [r for r in walk_no_nested(f.node) if isinstance(r, ast.Return) and r.value is not None and
                    any(isinstance(c, ast.Call) and isinstance(c.func, ast.Name) and c.func.id in {unparse(sn.targets[0]), unparse(sp.targets[0])}
                        for c in ast.walk(r.value))]
            reach = None
            for r in rets:
                pr = cond.path_condition(f.node, r)
                if pr is not None:
                    pr = cond.restrict(pr, lambda k: k in keep_atoms)
                    reach = pr if reach is None else cond.Or(reach, pr)
            ok = reach is not None and cond.equivalent(cond.Or(pcn, pcp), reach)
        if ok:
            for st in walk_no_nested(f.node):
                if isinstance(st, ast.AugAssign) and isinstance(st.op, ast.BitAnd) and unparse(st.target) == keepvar:
                    pcf = cond.path_condition(f.node, st)
                    ok = ok and pcf is not None and cond.implies(pcf, pcn)
        # ... and the table (or its entry) is subscripted with the statistic
        names = {unparse(sn.targets[0]), unparse(sp.targets[0])}
        direct = all(isinstance(st.value, ast.Subscript) and unparse(st.value.slice) == f.params[0] for st in (sn, sp))
        later = len(names) == 1 and any(isinstance(x, ast.Subscript) and unparse(x.value) in names and unparse(x.slice) == f.params[0]
                                        for x in ast.walk(f.node))
        ok = ok and (direct or later)
    ctx.ob(R, f.construct + ' table choice', 'the NaN-aware reducer is used whenever values were filtered out', ok,
           detail='utils.compute_statistic no longer selects NAN_FUNCTIONS on the filtered branch and PLAIN_FUNCTIONS otherwise: %s'
                  % {k: v[1] for k, v in picks.items()}, where=f.where)
    # the reducer call: function(data[, percentile], axis=axis) - positional arguments may be passed as *args built per statistic
    fname = None
    for st in walk_no_nested(f.node):
        if isinstance(st, ast.Assign) and isinstance(st.targets[0], ast.Name) and isinstance(st.value, ast.Subscript) \
                and unparse(st.value.slice) == f.params[0]:
            fname = st.targets[0].id
    pc = [c for c in calls_in(f.node) if fname and unparse(c.func) == fname]
    forms = []
    for c in pc:
        alts = [[]]
        for a in c.args:
            if isinstance(a, ast.Starred) and isinstance(a.value, ast.Name):
                tuples = []
                for st in walk_no_nested(f.node):
                    if isinstance(st, ast.Assign) and unparse(st.targets[0]) == a.value.id:
                        v = st.value
                        if isinstance(v, ast.Tuple):
                            tuples.append(v)
                        elif isinstance(v, ast.IfExp) and isinstance(v.body, ast.Tuple) and isinstance(v.orelse, ast.Tuple):
                            tuples += [v.body, v.orelse]
                alts = [x + [unparse(e) for e in t.elts] for x in alts for t in tuples] if tuples else [x + ['*' + a.value.id] for x in alts]
            else:
                alts = [x + [unparse(a)] for x in alts]
        forms.extend((x, kwarg(c, 'axis') is not None and unparse(kwarg(c, 'axis')) == 'axis') for x in alts)
    dname = f.params[1]
    ok = bool(forms) and all(ax for x, ax in forms) and {tuple(x) for x, ax in forms} == {(dname,), (dname, 'percentile')}
    ctx.ob(R, f.construct + ' call', 'the reducer receives the axis (and the percentile for percentiles)', ok,
           detail='the reducer is not called as function(data[, percentile], axis=axis): %s' % [x for x, ax in forms], where=f.where)


def rule_b(ctx, ix):
    R = 'C10.b'
    ctx.describe(R, 'every filter is forwarded unchanged on the chunked recursion and to the array-level routine', floor=12)
    data = ix.cls('glue.core.data.Data')
    f = data.resolve_func('compute_statistic')
    if f is None:
        raise AnalysisError('Data.compute_statistic vanished')
    s = f.self_name
    rec = [c for c in calls_in(f.node) if unparse(c.func) == '%s.compute_statistic' % s]
    if len(rec) != 1:
        raise AnalysisError('Data.compute_statistic: chunked recursion not recognised')
    c = rec[0]
    pos = [unparse(a) for a in c.args]
    ctx.ob(R, f.construct + ' recursion', 'statistic and attribute are forwarded unchanged', pos[:2] == f.params[1:3],
           detail='the chunked recursion is called with (%s) instead of (statistic, cid)' % ', '.join(pos), where=where(f, c))
    for p in FORWARDED:
        v = kwarg(c, p)
        ctx.ob(R, f.construct + ' recursion ' + p, 'keyword %s is forwarded unchanged to each chunk' % p, v is not None and unparse(v) == p,
               detail='the chunked recursion of Data.compute_statistic %s: above n_chunk_max elements the %s filter is silently '
                      'ignored (no test uses an array that large)' % ('passes %s=%s' % (p, unparse(v)) if v is not None else 'drops ' + p, p),
               where=where(f, c))
    for p, reason in (('random_subset', 'a random subset cannot be combined with a reduction axis (documented)'),
                      ('n_chunk_max', 'each chunk is below the limit by construction')):
        ctx.exception(R, 'Data.compute_statistic recursion ' + p, reason)
    v = kwarg(c, 'view')
    loops = [n for n in walk_no_nested(f.node) if isinstance(n, ast.For) and 'iterate_chunks' in unparse(n.iter)]
    ok = v is not None and len(loops) == 1 and unparse(v) == unparse(loops[0].target)
    ctx.ob(R, f.construct + ' recursion view', 'each chunk is evaluated with the chunk view of the loop', ok,
           detail='the chunked recursion does not pass view=<chunk view>', where=where(f, c))
    # array-level call
    mod = f.module
    low = [x for x in calls_in(f.node) if isinstance(x.func, ast.Name) and x.func.id == 'compute_statistic']
    if len(low) != 1:
        raise AnalysisError('Data.compute_statistic: call of utils.compute_statistic not recognised')
    x = low[0]
    ok = [unparse(a) for a in x.args][:2] == ['statistic', 'data']
    ctx.ob(R, f.construct + ' array call', 'the statistic name and the extracted values are passed', ok,
           detail='utils.compute_statistic is called with (%s)' % ', '.join(unparse(a) for a in x.args), where=where(f, x))
    for p in ('mask', 'axis', 'finite', 'positive', 'percentile'):
        v = kwarg(x, p)
        ctx.ob(R, f.construct + ' array call ' + p, '%s is forwarded to the array-level routine' % p, v is not None and unparse(v) == p,
               detail='Data.compute_statistic %s when calling utils.compute_statistic' % ('passes %s=%s' % (p, unparse(v)) if v is not None else 'drops ' + p),
               where=where(f, x))
    # the base-class signature and the Data signature agree on the public filters
    base = ix.cls('glue.core.data.BaseCartesianData').resolve_func('compute_statistic')
    ok = base is not None and all(p in f.params for p in base.params)
    ctx.ob(R, f.construct + ' signature', 'Data.compute_statistic accepts every parameter of the abstract method', ok,
           detail='Data.compute_statistic does not accept %s' % [p for p in (base.params if base else []) if p not in f.params], where=f.where)


def _first_axis_not_reduced(v):
    """`[a for a in range(<ndim>) if a not in axis][0]` or `next(a for a in range(<ndim>) if a not in axis)`."""
    comp = None
    if isinstance(v, ast.Subscript) and isinstance(v.value, ast.ListComp) and isinstance(v.slice, ast.Constant) and v.slice.value == 0:
        comp = v.value
    elif isinstance(v, ast.Call) and unparse(v.func) == 'next' and len(v.args) == 1 and isinstance(v.args[0], (ast.GeneratorExp, ast.ListComp)):
        comp = v.args[0]
    if comp is None or len(comp.generators) != 1:
        return False
    g = comp.generators[0]
    t = unparse(g.target)
    return unparse(comp.elt) == t and unparse(g.iter).replace(' ', '') in ('range(self.ndim)', 'range(len(self.shape))') and \
        len(g.ifs) == 1 and unparse(g.ifs[0]).replace(' ', '') == '%snotinaxis' % t


def rule_c(ctx, ix):
    R = 'C10.c'
    ctx.describe(R, 'the chunk result is stored at the chunk\'s own index along the non-reduced axis', floor=4)
    data = ix.cls('glue.core.data.Data')
    f = data.resolve_func('compute_statistic')
    loops = [n for n in walk_no_nested(f.node) if isinstance(n, ast.For) and 'iterate_chunks' in unparse(n.iter)]
    if len(loops) != 1:
        raise AnalysisError('Data.compute_statistic: chunk loop not recognised')
    lp = loops[0]
    cv = unparse(lp.target)
    from ..util import expand_locals as _xl

    def _xl_shallow(fnode, e):
        return _xl(fnode, e, depth=1)       # one step: the name behind a name, not the definition of the axis index
    # the name of the non-reduced axis: the index applied to the chunk view in the write-back `result[chunk_view[<name>]] = ...`
    ai_name = None
    for st in lp.body:
        if isinstance(st, ast.Assign) and isinstance(st.targets[0], ast.Subscript):
            for sl in (st.targets[0].slice, _xl_shallow(f.node, st.targets[0].slice)):    # (also through `chunk_slice, values = chunk_view[axis], v`)
                if isinstance(sl, ast.Subscript) and unparse(sl.value) == cv and isinstance(sl.slice, ast.Name):
                    ai_name = sl.slice.id
                    break
    if ai_name is None:
        wb = [st for st in lp.body if isinstance(st, ast.Assign) and isinstance(st.targets[0], ast.Subscript)]
        if len(wb) == 1:
            ctx.ob(R, f.construct + ' write-back', 'result[chunk_view[axis_index]] receives the values of that chunk', False,
                   detail='the chunk loop stores `%s`: the statistic of a chunk lands at another position of the result' % norm(wb[0]),
                   where=where(f, wb[0]))
            return
        raise AnalysisError('Data.compute_statistic: the write-back of the chunk loop is not `result[chunk_view[<axis>]] = ...`')
    ai = [st for st in walk_no_nested(f.node) if isinstance(st, ast.Assign) and unparse(st.targets[0]) == ai_name]
    vals = [st for st in lp.body if isinstance(st, ast.Assign) and isinstance(st.value, ast.Call) and call_name(st.value) == 'compute_statistic']
    stores = [st for st in lp.body if isinstance(st, ast.Assign) and isinstance(st.targets[0], ast.Subscript)]
    if len(stores) != 1 or len(vals) != 1:
        raise AnalysisError('Data.compute_statistic: chunk loop body not recognised')
    idx = unparse(stores[0].targets[0].slice).replace(' ', '')
    if idx != '%s[%s]' % (cv, ai_name):
        idx = unparse(_xl_shallow(f.node, stores[0].targets[0].slice)).replace(' ', '')
    direct = vals[0] is stores[0]         # result[...] = self.compute_statistic(...)
    vname = None if direct else unparse(vals[0].targets[0])
    ok = (direct or unparse(stores[0].value) == vname or unparse(_xl(f.node, stores[0].value)) == unparse(vals[0].value)) and \
        idx == '%s[%s]' % (cv, ai_name)
    ctx.ob(R, f.construct + ' write-back', 'result[chunk_view[axis_index]] receives the values of that chunk', ok,
           detail='the chunk loop stores `%s`: the statistic of a chunk lands at another position of the result' % norm(stores[0]),
           where=where(f, stores[0]))
    # guard clauses in front of the choice (`if view is not None: axis = None ... else: axis = next(...)`) bind None
    ai = [st for st in ai if not (isinstance(st.value, ast.Constant) and st.value.value is None)] or ai
    txt = unparse(ai[0].value).replace(' ', '') if len(ai) == 1 else ''
    ctx.idiom(R, f.construct + ' axis_index', 'axis_index is the one axis that is not reduced',
              accepted=_first_axis_not_reduced(ai[0].value) if len(ai) == 1 else False,
              absent=len(ai) != 1 or ('notinaxis' not in txt),
              detail_absent='axis_index is computed as %s: it no longer picks the axis that is not in `axis`' % (txt or None),
              shape=txt, where=f.where)
    res = [st for st in walk_no_nested(f.node) if isinstance(st, ast.Assign) and unparse(st.targets[0]) == unparse(stores[0].targets[0].value)
           and st.lineno < lp.lineno]
    res.sort(key=lambda st: -st.lineno)
    ok = bool(res) and ('shape[%s]' % ai_name) in unparse(res[0].value)
    ctx.ob(R, f.construct + ' result shape', 'the result has the length of the non-reduced axis', ok,
           detail='the chunked result is allocated as %s' % (unparse(res[0].value) if res else None), where=f.where)
    chunk = [st for st in walk_no_nested(f.node) if isinstance(st, ast.Assign) and isinstance(st.targets[0], ast.Subscript) and unparse(st.targets[0].slice) == ai_name
             and unparse(st.targets[0].value) == (unparse(kwarg(lp.iter, 'chunk_shape')) if isinstance(lp.iter, ast.Call) and kwarg(lp.iter, 'chunk_shape') is not None else '')]
    ok = len(chunk) == 1 and 'self.shape' in unparse(lp.iter)
    ctx.ob(R, f.construct + ' chunking', 'chunks split only the non-reduced axis of the full shape', ok,
           detail='the chunk loop does not iterate iterate_chunks(self.shape, chunk_shape=...) with only axis_index reduced', where=where(f, lp))
    rets = [r for r in ast.walk(lp) if isinstance(r, ast.Return)]
    after = [st for st in ast.walk(f.node) if isinstance(st, ast.Return) and st.value is not None and
             unparse(st.value) == unparse(stores[0].targets[0].value)]
    ctx.ob(R, f.construct + ' return', 'the assembled result is returned after all chunks', not rets and bool(after),
           detail='the chunk loop returns early or the assembled result is not returned', where=f.where, nontrivial=False)


# ---------------------------------------------------------------------------------------
# sign domain for the widening of the upper histogram limit
POS, NONNEG, SIGNOF, SIGNOF_NZ, UNKNOWN = 'pos', 'nonneg', 'sign-of-operand', 'sign-of-operand, never zero', 'unknown'


def _sign(e, var):
    """Sign of expression ``e`` for every value of ``var`` (sign domain; ``SIGNOF`` = the sign of var)."""
    if isinstance(e, ast.Constant) and isinstance(e.value, (int, float)):
        return POS if e.value > 0 else (NONNEG if e.value == 0 else UNKNOWN)
    if isinstance(e, ast.Name):
        return SIGNOF if e.id == var else UNKNOWN
    if isinstance(e, ast.Call):
        fn = unparse(e.func)
        if fn in ('abs', 'np.abs', 'np.absolute', 'np.fabs') and len(e.args) == 1:
            inner = _sign(e.args[0], var)
            return POS if inner in (POS, SIGNOF_NZ) else NONNEG
        if fn == 'np.spacing' and len(e.args) == 1:
            # numpy: the spacing carries the sign of its argument, and is never zero
            inner = _sign(e.args[0], var)
            return {POS: POS, NONNEG: POS, SIGNOF: SIGNOF_NZ, SIGNOF_NZ: SIGNOF_NZ}.get(inner, UNKNOWN)
        return UNKNOWN
    if isinstance(e, ast.BinOp) and isinstance(e.op, ast.Mult):
        a, b = _sign(e.left, var), _sign(e.right, var)
        if UNKNOWN in (a, b):
            return UNKNOWN
        if a == POS and b == POS:
            return POS
        if {a, b} <= {POS, NONNEG}:
            return NONNEG
        if {a, b} == {POS, SIGNOF}:
            return SIGNOF
        if {a, b} == {POS, SIGNOF_NZ}:
            return SIGNOF_NZ
        return UNKNOWN
    return UNKNOWN


def rule_d(ctx, ix):
    """The closed upper end of the histogram range: widened upwards, in the space the bins are computed in."""
    R = 'C10.d'
    ctx.describe(R, 'the upper histogram limit is widened by a positive amount, after the transformation to log space, and that limit is '
                    'the one handed to the binning routine', floor=6)
    f = ix.cls('glue.core.data.Data').resolve_func('compute_histogram')
    if f is None:
        raise AnalysisError('Data.compute_histogram vanished')
    stmts = list(walk_no_nested(f.node))
    hist = [c for c in calls_in(f.node) if call_name(c) in ('histogram1d', 'histogram2d')]
    if len(hist) != 2:
        raise AnalysisError('Data.compute_histogram: the two binning calls are not recognised')
    # the limits by their role: range=(lo, hi) of the 1-d call, range=[(xlo, xhi), (ylo, yhi)] of the 2-d call
    def range_of(c):
        rng = [k.value for k in c.keywords if k.arg == 'range']
        e = rng[0] if rng else None
        if isinstance(e, ast.Name):
            defs = [st for st in stmts if isinstance(st, ast.Assign) and unparse(st.targets[0]) == e.id and st.lineno <= c.lineno]
            e = defs[-1].value if defs else e
        return e
    limits = {}
    for c in hist:
        e = range_of(c)
        pairs = [e] if call_name(c) == 'histogram1d' else (list(e.elts) if isinstance(e, (ast.List, ast.Tuple)) else [])
        names = []
        for p_ in pairs:
            if isinstance(p_, (ast.Tuple, ast.List)) and len(p_.elts) == 2 and all(isinstance(x, ast.Name) for x in p_.elts):
                names.append((p_.elts[0].id, p_.elts[1].id))
        limits[call_name(c)] = names
    ok_shape = len(limits.get('histogram1d', [])) == 1 and len(limits.get('histogram2d', [])) == 2 and \
        limits['histogram1d'][0] == limits['histogram2d'][0]
    if not ok_shape:
        his = ('xmax', 'ymax')
    else:
        his = (limits['histogram2d'][0][1], limits['histogram2d'][1][1])
    for var in his:
        nudges = [st for st in stmts if isinstance(st, ast.AugAssign) and isinstance(st.target, ast.Name) and st.target.id == var]
        ctx.ob(R, '%s %s widened' % (f.construct, var), 'the upper limit is widened (the binning routine excludes its upper end)',
               len(nudges) == 1 and isinstance(nudges[0].op, ast.Add),
               detail='Data.compute_histogram no longer widens %s: values equal to the upper limit fall out of the last bin' % var, where=f.where)
        if len(nudges) != 1:
            continue
        nd = nudges[0]
        sg = _sign(nd.value, var)
        ctx.idiom(R, '%s %s sign' % (f.construct, var), 'the amount added to the upper limit is positive for every limit',
                  accepted=sg in (POS,), absent=sg in (SIGNOF, SIGNOF_NZ, NONNEG),
                  detail_absent='Data.compute_histogram widens the upper limit with `%s`, whose sign is %s: for a negative limit (or a '
                                'log-space limit below 1) the limit moves inwards, values equal to it are dropped and the bin totals are '
                                'smaller than the number of in-range values' % (norm(nd), 'that of the limit' if sg in (SIGNOF, SIGNOF_NZ) else 'not strictly positive'),
                  shape=norm(nd), where=where(f, nd))
        later = [st for st in stmts if isinstance(st, ast.Assign) and any(isinstance(t, ast.Name) and t.id == var for t in st.targets)
                 and st.lineno > nd.lineno]
        ctx.ob(R, '%s %s order' % (f.construct, var), 'the limit is widened after its last transformation (log space)', not later,
               detail='Data.compute_histogram widens %s and transforms it afterwards with `%s`: in log space the widening shrinks below '
                      'the resolution of the limit, and values equal to the upper limit are dropped'
                      % (var, norm(later[0]) if later else ''), where=where(f, nd))
    for c in hist:
        e = range_of(c)
        want = 1 if call_name(c) == 'histogram1d' else 2
        got = limits.get(call_name(c), [])
        ctx.ob(R, '%s %s range' % (f.construct, call_name(c)), 'the binning routine receives the (transformed, widened) limits as (lower, upper) pairs of locals',
               len(got) == want and ok_shape,
               detail='Data.compute_histogram no longer hands the %d (lower, upper) limit pair(s) it computed to %s (range=%s), or the 1-d and '
                      '2-d calls use different x limits' % (want, call_name(c), unparse(e) if e is not None else None),
               where=where(f, c))


# statistics whose value changes when every value is repeated the same number of times: a total does, and so does an
# interpolated percentile ([0, 1] -> 25th = 0.25, [0, 0, 1, 1] -> 0.0); extremes, the mean and the median do not
REPETITION_SENSITIVE = {'sum', 'percentile'}


def _stat_excluded(test, var):
    """Set of statistic names the guard certainly excludes on its true branch; None when the guard does not mention the statistic."""
    out, seen = set(), False
    for a in ([test] if not (isinstance(test, ast.BoolOp) and isinstance(test.op, ast.And)) else test.values):
        if isinstance(a, ast.BoolOp) and isinstance(a.op, ast.And):
            sub_out = _stat_excluded(a, var)
            if sub_out is not None:
                seen = True
                out |= sub_out
            continue
        if isinstance(a, ast.Compare) and len(a.ops) == 1 and unparse(a.left) == var:
            seen = True
            rhs = a.comparators[0]
            if isinstance(a.ops[0], ast.NotEq) and isinstance(rhs, ast.Constant):
                out.add(rhs.value)
            elif isinstance(a.ops[0], ast.NotIn) and isinstance(rhs, (ast.Tuple, ast.List, ast.Set)):
                out |= {e.value for e in rhs.elts if isinstance(e, ast.Constant)}
            elif isinstance(a.ops[0], (ast.In, ast.Eq)):
                allowed = {e.value for e in (rhs.elts if isinstance(rhs, (ast.Tuple, ast.List, ast.Set)) else [rhs]) if isinstance(e, ast.Constant)}
                out |= set(PLAIN) - allowed
            else:
                return 'unrecognised'
    return out if seen else None


def rule_e(ctx, ix):
    """Broadcast (repeated) values are collapsed only for statistics that do not depend on how often a value is repeated."""
    R = 'C10.e'
    ctx.describe(R, 'the array is un-broadcast only for repetition-invariant statistics', floor=1)
    f = ix.cls('glue.core.data.Data').resolve_func('compute_statistic')
    stat = f.params[1]
    pm = parent_map(f.node)
    sites = [st for st in walk_no_nested(f.node) if isinstance(st, ast.Assign) and isinstance(st.value, ast.Call)
             and call_name(st.value) == 'unbroadcast' and unparse(st.targets[0]) == 'data']
    if not sites:
        raise AnalysisError('Data.compute_statistic: the un-broadcasting of the values is no longer recognised')
    for st in sites:
        excluded, unrec = set(), False
        for g, br in guard_chain(pm, st, f.node):
            if isinstance(g, ast.If) and br == 'body':
                ex = _stat_excluded(g.test, stat)
                if ex == 'unrecognised':
                    unrec = True
                elif ex:
                    excluded |= ex
        ctx.idiom(R, '%s `%s`' % (f.construct, norm(st)), 'sums are not computed on the un-broadcast array',
                  accepted=REPETITION_SENSITIVE <= excluded, absent=not unrec,
                  detail_absent='Data.compute_statistic collapses repeated (broadcast) values with `%s` also for %s: the overall sum of a '
                                'broadcast attribute (a pixel attribute, a link result) counts each repeated value once instead of '
                                'once per element' % (norm(st), sorted(REPETITION_SENSITIVE - excluded)),
                  shape='guards of `%s`' % norm(st), where=where(f, st))


def rule_f(ctx, ix):
    """The result is padded back to the full shape exactly when the values were cut to the minimal sub-array."""
    from ..cfg import CFG
    R = 'C10.f'
    ctx.describe(R, 'when the minimal sub-array is given up (flag cleared) the padding of the result is given up too', floor=2)
    f = ix.cls('glue.core.data.Data').resolve_func('compute_statistic')
    cfg = CFG(f.node)

    def is_assign(e, name, value=None):
        return isinstance(e, ast.Assign) and len(e.targets) == 1 and unparse(e.targets[0]) == name and \
            (value is None or unparse(e.value) == value)
    # the locals by their roles
    #   cut:   M = M[S]             (the mask reduced to the minimal sub-array; S is also reset to None and tested against None)
    #   flag:  a local set to True and to False in this function, under which the cut runs
    #   pad:   X[RS] = R            where RS is computed from S
    sub, flag, padvar = 'subarray_slices', 'use_subarray_slices', 'result_slices'
    nones = {st.targets[0].id for st in walk_no_nested(f.node) if isinstance(st, ast.Assign) and len(st.targets) == 1
             and isinstance(st.targets[0], ast.Name) and isinstance(st.value, ast.Constant) and st.value.value is None}
    cuts = [st for st in walk_no_nested(f.node) if isinstance(st, ast.Assign) and len(st.targets) == 1 and isinstance(st.targets[0], ast.Name)
            and isinstance(st.value, ast.Subscript) and isinstance(st.value.value, ast.Name) and st.value.value.id == st.targets[0].id
            and isinstance(st.value.slice, ast.Name) and st.value.slice.id in nones]
    if len(cuts) == 1:
        sub = cuts[0].value.slice.id
        maskvar = cuts[0].targets[0].id
        trues = {st.targets[0].id for st in walk_no_nested(f.node) if isinstance(st, ast.Assign) and isinstance(st.targets[0], ast.Name)
                 and isinstance(st.value, ast.Constant) and st.value.value is True}
        falses = {st.targets[0].id for st in walk_no_nested(f.node) if isinstance(st, ast.Assign) and isinstance(st.targets[0], ast.Name)
                  and isinstance(st.value, ast.Constant) and st.value.value is False}
        from .. import cond as _c
        pc_cut = _c.path_condition(f.node, cuts[0], expand=False) or ('const', True)
        cands = [n_ for n_ in sorted(trues & falses) if n_ in _c.atoms(pc_cut)]
        # the flag is tested right where the cut happens: the innermost `if` around the cut that tests a local
        pm_ = parent_map(f.node)
        stored_ = {n_.id for n_ in ast.walk(f.node) if isinstance(n_, ast.Name) and isinstance(n_.ctx, ast.Store)} - set(f.params)
        cur_ = pm_.get(id(cuts[0]))
        while cur_ is not None and cur_ is not f.node:
            if isinstance(cur_, ast.If):
                near = sorted({n_.id for n_ in ast.walk(cur_.test) if isinstance(n_, ast.Name)} & stored_ & set(_c.atoms(pc_cut)))
                if near:
                    if len(near) == 1:
                        cands = near
                    break
            cur_ = pm_.get(id(cur_))
        if len(cands) != 1:
            # the flag may get its value from a helper (`view, flag = self._combine(...)`): the one local the cut is tested on
            stored = {n_.id for n_ in ast.walk(f.node) if isinstance(n_, ast.Name) and isinstance(n_.ctx, ast.Store)}
            cands = [n_ for n_ in sorted(stored - set(f.params)) if n_ in _c.atoms(pc_cut)]
        if len(cands) == 1:
            flag = cands[0]
        for st in walk_no_nested(f.node):
            if isinstance(st, ast.Assign) and len(st.targets) == 1 and isinstance(st.targets[0], ast.Name) and \
                    any(isinstance(n_, ast.Name) and n_.id == sub for n_ in ast.walk(st.value)) and st.targets[0].id != sub and \
                    any(isinstance(p_, ast.Assign) and isinstance(p_.targets[0], ast.Subscript) and unparse(p_.targets[0].slice) == st.targets[0].id
                        for p_ in walk_no_nested(f.node)):
                padvar = st.targets[0].id
    else:
        maskvar = 'mask'
    def may_clear(e):
        # the flag is bound to anything but the constant True: `flag = False`, `view, flag = helper(...)`
        if not isinstance(e, ast.Assign):
            return False
        for t in e.targets:
            if unparse(t) == flag:
                return not (isinstance(e.value, ast.Constant) and e.value.value is True)
            if isinstance(t, (ast.Tuple, ast.List)) and any(unparse(x) == flag for x in t.elts):
                if isinstance(e.value, (ast.Tuple, ast.List)) and len(e.value.elts) == len(t.elts):
                    v = e.value.elts[[unparse(x) for x in t.elts].index(flag)]
                    return not (isinstance(v, ast.Constant) and v.value is True)
                return True
        return False
    B = common.nodes_where(cfg, may_clear)
    reset = set(common.nodes_where(cfg, lambda e: is_assign(e, sub, 'None')))
    pad = common.nodes_where(cfg, lambda e: isinstance(e, ast.Assign) and isinstance(e.targets[0], ast.Subscript)
                             and padvar in unparse(e.targets[0].slice) and isinstance(e.value, ast.Name))
    cut = common.nodes_where(cfg, lambda e: is_assign(e, maskvar, '%s[%s]' % (maskvar, sub)))
    if not B or not pad or not cut:
        raise AnalysisError('Data.compute_statistic: sub-array flag (%d), cut (%d) or padding (%d) no longer recognised' % (len(B), len(cut), len(pad)))
    pm = parent_map(f.node)
    for c in cut:
        from .. import cond
        pc = cond.path_condition(f.node, cfg.stmt[c], expand=False) or ('const', True)
        try:
            under = cond.implies(pc, cond.T(flag))
        except ValueError:
            under = False
        ctx.ob(R, f.construct + ' cut', 'the mask is cut to the sub-array only under the flag', under,
               detail='Data.compute_statistic cuts the mask to the minimal sub-array without testing %s' % flag, where=where(f, cfg.stmt[c]))
    # once the flag is cleared it is false: the true edge of `if use_subarray_slices` is infeasible from there
    pruned = {(n, 'true') for n in cfg.nodes() if cfg.kind[n] == 'if' and unparse(cfg.stmt[n].test) == flag}
    pruned |= {(n, 'false') for n in cfg.nodes() if cfg.kind[n] == 'if' and unparse(cfg.stmt[n].test) == 'not ' + flag}
    for b in B:
        for p in pad:
            path = cfg.path_avoiding(b, p, avoid=reset, labels_excluded=('exc', 'raise'), pruned_edges=pruned)
            ctx.ob(R, '%s `%s` -> padding' % (f.construct, norm(cfg.stmt[b])) + ' @%s' % _guard_text(pm, cfg.stmt[b], f.node),
                   'after the sub-array is given up, the result is not padded as if it had been cut', path is None,
                   detail='Data.compute_statistic gives up the minimal sub-array (`%s`, e.g. for a view with a step) but keeps '
                          'subarray_slices set, so the result - already full-size - is still written into a padded array through '
                          'the sub-array slices: with a reduction axis this raises ValueError (or pads wrongly) whenever the '
                          'selection does not span the whole view' % norm(cfg.stmt[b]),
                   where=where(f, cfg.stmt[b]), path=cfg.guards_on_path(path) if path else None)


def _guard_text(pm, st, stop):
    gs = [g for g, br in guard_chain(pm, st, stop) if isinstance(g, ast.If)]
    return unparse(gs[0].test)[:50] if gs else ''


def rule_g(ctx, ix):
    """The view of compute_statistic is a tuple of caller-supplied slices / indices (negative bounds count from the end): its
    entries are normalised (slice.indices(n), range(n)[i], i % n) before they are added to anything."""
    from ..relidx import make_classifier, position_arithmetic, REL
    R = 'C10.g'
    ctx.describe(R, 'entries of the statistic view are normalised before any position arithmetic', floor=2)
    n = 0
    for cq in ('glue.core.data.BaseCartesianData', 'glue.core.data.Data'):
        c = ix.cls(cq)
        for name, mem in sorted(c.members.items()):
            f = mem.func
            if f is None or f.cls is not c or 'view' not in f.params or not name.startswith('compute_'):
                continue
            n += 1
            cl = make_classifier({'view'})
            out, env = position_arithmetic(f.node, cl, {'view': frozenset([REL])})
            ctx.ob(R, f.construct, 'no entry of the view is used as an absolute position', not out,
                   detail='%s computes with a bound of the caller\'s view as if it were an absolute position: `%s` - a slice with a negative '
                          'or absent bound (slice(-4, None)) is a legal view, and the statistic is then taken over other elements than the '
                          'view of the data; normalise with slice.indices(n) first' % (f.construct, '`, `'.join(t for _, t in out[:3])),
                   where=where(f, out[0][0]) if out else f.where)
    if n < 2:
        raise AnalysisError('compute_statistic with a view parameter not found on Data / BaseCartesianData')


def rule_h(ctx, ix):
    """Data.compute_histogram orders the limits it is given, so the counts always run from the smaller limit to the larger one.
    The bin edges that the histogram layer state puts next to those counts must run the same way: they are built from the
    *ordered* limits.  Small dataflow: ORD = an ordered pair (sorted(...) / (min, max)), UNORD = the two limits as the user gave
    them, LO / HI = first / second element of an ordered pair, U = an element of an unordered one; one-argument conversions
    (log10, datetime conversion) keep the tag."""
    from ..flow import Flow
    R = 'C10.h'
    ctx.describe(R, 'the bin edges shown with the counts are built from the ordered limits', floor=1)
    c = ix.cls('glue.viewers.histogram.state.HistogramLayerState')
    f = c.resolve_func('update_histogram') if c is not None else None
    if f is None:
        raise AnalysisError('HistogramLayerState.update_histogram vanished')

    def is_limit(e):
        t = unparse(e)
        return t.endswith('hist_x_min') or t.endswith('hist_x_max')

    def classify(e, state):
        if isinstance(e, ast.Name):
            return {t for t in state.get(e.id, ()) if not t.startswith('<')}
        if isinstance(e, ast.Attribute):
            return {'LIM'} if is_limit(e) else set()
        if isinstance(e, ast.Call):
            nm = call_name(e)
            if nm == 'sorted' and e.args and not any(k.arg == 'reverse' for k in e.keywords):
                inner = classify(e.args[0], state)
                return {'ORD'} if inner & {'UNORD', 'ORD', 'REV'} else set()
            if nm in ('min', 'nanmin') and len(e.args) >= 2 and all('LIM' in classify(a, state) or classify(a, state) & {'U', 'LO', 'HI'} for a in e.args):
                return {'LO'}
            if nm in ('max', 'nanmax') and len(e.args) >= 2 and all('LIM' in classify(a, state) or classify(a, state) & {'U', 'LO', 'HI'} for a in e.args):
                return {'HI'}
            if len(e.args) == 1 and not e.keywords:
                return classify(e.args[0], state) - {'LIM'} | ({'U'} if 'LIM' in classify(e.args[0], state) else set())
            return set()
        if isinstance(e, (ast.Tuple, ast.List)) and len(e.elts) == 2:
            a, b = classify(e.elts[0], state), classify(e.elts[1], state)
            if a == {'LO'} and b == {'HI'}:
                return {'ORD'}
            if a == {'HI'} and b == {'LO'}:
                return {'REV'}
            if (a | b) & {'LIM', 'U'}:
                return {'UNORD'}
            return set()
        if isinstance(e, ast.Subscript) and isinstance(e.slice, ast.Constant) and isinstance(e.slice.value, int):
            base = classify(e.value, state)
            out = set()
            if 'ORD' in base:
                out.add('LO' if e.slice.value == 0 else 'HI')
            if 'REV' in base:
                out.add('HI' if e.slice.value == 0 else 'LO')
            if 'UNORD' in base:
                out.add('U')
            return out
        if isinstance(e, ast.IfExp):
            return classify(e.body, state) | classify(e.orelse, state)
        return set()

    def unpack(tags, i, n):
        if n != 2:
            return None
        out = set()
        if 'ORD' in tags:
            out.add('LO' if i == 0 else 'HI')
        if 'REV' in tags:
            out.add('HI' if i == 0 else 'LO')
        if 'UNORD' in tags:
            out.add('U')
        return out or None
    sinks = []

    def on_stmt(st, state):
        exprs = [st.test] if isinstance(st, (ast.If, ast.While)) else ([st.iter] if isinstance(st, ast.For) else [st])
        for e in exprs:
            for x in ast.walk(e):
                if isinstance(x, ast.Call) and call_name(x) in ('linspace', 'logspace', 'geomspace') and len(x.args) >= 2:
                    sinks.append((x, dict(state)))
    fl = Flow(classify, on_stmt=on_stmt, unpack=unpack)
    fl.run(f.node, {})
    if not sinks:
        raise AnalysisError('HistogramLayerState.update_histogram: the construction of the bin edges is not recognised')
    seen = set()
    for x, state in sinks:
        if id(x) in seen:
            continue
        seen.add(id(x))
        a, b = classify(x.args[0], state), classify(x.args[1], state)
        good = a == {'LO'} and b == {'HI'}
        bad = bool((a | b) & {'U', 'LIM'}) or (a == {'HI'} and b == {'LO'})
        ctx.idiom(R, '%s `%s`' % (f.construct, call_name(x)), 'the edges run from the smaller to the larger limit', accepted=good, absent=bad,
                  detail_absent='HistogramLayerState.update_histogram builds the bin edges with `%s` from the limits in the order the user '
                                'gave them (%s / %s), while Data.compute_histogram counts from the smaller limit upwards: with hist_x_min > '
                                'hist_x_max the edges run downwards and the counts upwards, so every count is shown in the mirrored bin'
                                % (norm(x)[:90], sorted(a), sorted(b)),
                  shape='%s: %s / %s' % (norm(x)[:80], sorted(a), sorted(b)), where=where(f, x))


def rule_i(ctx, ix):
    """The NaN-aware sum answers NaN when nothing was summed.  "Nothing" must mean what np.nansum leaves out - NaN, and only NaN:
    an infinite value is summed (the total is +-inf), so it counts."""
    R = 'C10.i'
    ctx.describe(R, 'the emptiness test of the NaN-aware sum counts exactly the values np.nansum sums (not-NaN)', floor=1)
    f = ix.func('glue.utils.array.nansum_with_nan_for_empty')
    vals = f.params[0]
    sums = [c for c in calls_in(f.node) if call_name(c) == 'nansum']
    if len(sums) != 1:
        raise AnalysisError('nansum_with_nan_for_empty: the np.nansum call is no longer recognised')
    counts = [c for c in calls_in(f.node) if call_name(c) in ('sum', 'count_nonzero', 'any') and c is not sums[0] and c.args]
    if len(counts) != 1:
        raise AnalysisError('nansum_with_nan_for_empty: the count of summed values is no longer recognised')
    from ..util import expand_locals
    e = expand_locals(f.node, counts[0].args[0])
    t = unparse(e).replace(' ', '')
    notnan = t in ('~np.isnan(%s)' % vals, 'np.logical_not(np.isnan(%s))' % vals, '%s==%s' % (vals, vals), 'np.isnan(%s)==False' % vals,
                   '~numpy.isnan(%s)' % vals)
    wrong = any(k in t for k in ('isfinite', 'isinf', 'isreal', '>', '<')) and 'isnan' not in t
    ctx.idiom(R, f.construct, 'the values counted are the not-NaN values', accepted=notnan, absent=wrong,
              detail_absent='nansum_with_nan_for_empty counts `%s` to decide whether anything was summed, but np.nansum leaves out NaN '
                            'only: a group whose qualifying values are all +inf (or all -inf) has the total +-inf, which is then '
                            'overwritten by NaN (statistic "sum" with finite=False)' % unparse(e), shape=t, where=where(f, counts[0]))
