"""C10 - statistics and histograms equal their definition regardless of chunking or views (partial)."""
import ast

from ..index import AnalysisError, dotted_chain, norm, unparse, walk_no_nested, body_stmts
from ..util import calls_in, call_name, where, returns_of, kwarg, parent_map, guard_chain
from .. import props
from . import common

props.prop(
    'C10',
    explanation='Static (ast) agreement of the two reducer tables (plain and NaN-aware) with the documented statistic names '
                'and with each other, of the filter flags with the filters they guard, of the keyword forwarding on the chunked '
                'recursion (taken only above 40 000 000 elements, which no test reaches) and into the array-level routine, and '
                'of the chunk write-back.',
    decides='reducer tables; finite/positive/mask filters guarded by their flags; every filter and the statistic forwarded '
            'unchanged on the chunked path and to utils.compute_statistic; chunk result stored at the chunk\'s own index of '
            'the non-reduced axis',
    not_decided='every numerical clause (minimal sub-array, padding, bin edges, log ranges, weights) - this family cannot see '
                'them; e.g. values on interior bin edges falling into the lower bin is a known numeric defect outside its reach',
    assumptions=['numpy reducers compute what their names say'])

PLAIN = {'minimum': {'numpy.min', 'numpy.amin'}, 'maximum': {'numpy.max', 'numpy.amax'}, 'mean': {'numpy.mean'},
         'median': {'numpy.median'}, 'sum': {'numpy.sum'}, 'percentile': {'numpy.percentile'}}
NAN = {'minimum': 'nanmin', 'maximum': 'nanmax', 'mean': 'nanmean', 'median': 'nanmedian', 'sum': 'nansum',
       'percentile': 'nanpercentile'}
ARR = 'glue.utils.array'
FORWARDED = ['subset_state', 'axis', 'finite', 'positive', 'percentile']


def run(ctx):
    ix = ctx.index
    ctx.guard(rule_a, ctx, ix)
    ctx.guard(rule_b, ctx, ix)
    ctx.guard(rule_c, ctx, ix)


def _table(ix, mod, name):
    node = mod.assigns.get(name)
    if not isinstance(node, ast.Dict):
        raise AnalysisError('%s is not a dict literal in glue/utils/array.py' % name)
    out = {}
    for k, v in zip(node.keys, node.values):
        if not (isinstance(k, ast.Constant) and isinstance(k.value, str)):
            raise AnalysisError('%s has a non-literal key' % name)
        out[k.value] = (ix.resolve_expr(mod, v), v)
    return out


def rule_a(ctx, ix):
    R = 'C10.a'
    ctx.describe(R, 'reducer tables agree with the statistic names and with each other; filters guarded by their flags', floor=16)
    mod = ix.module(ARR)
    plain = _table(ix, mod, 'PLAIN_FUNCTIONS')
    nan = _table(ix, mod, 'NAN_FUNCTIONS')
    ctx.ob(R, 'glue.utils.array:PLAIN_FUNCTIONS', 'keys are the documented statistics', set(plain) == set(PLAIN),
           detail='PLAIN_FUNCTIONS has keys %s, documented statistics are %s' % (sorted(plain), sorted(PLAIN)))
    ctx.ob(R, 'glue.utils.array:NAN_FUNCTIONS', 'both tables have the same keys', set(plain) == set(nan),
           detail='the NaN-aware table has keys %s but the plain table %s: a statistic works or fails depending on the filters'
                  % (sorted(nan), sorted(plain)))
    for k, (q, v) in sorted(plain.items()):
        if k in PLAIN:
            ctx.ob(R, 'glue.utils.array:PLAIN_FUNCTIONS[%s]' % k, '%r is computed by %s' % (k, sorted(PLAIN[k])), q in PLAIN[k],
                   detail='statistic %r is mapped to %s in the plain table' % (k, q), where='%s:%d' % (mod.relpath, v.lineno))
    for k, (q, v) in sorted(nan.items()):
        if k not in NAN:
            continue
        ok = q == 'numpy.' + NAN[k]
        if not ok:
            fn = ix.functions.get(q)
            if fn is not None:
                inner = [ix.resolve_expr(fn.module, c.func) for c in calls_in(fn.node)]
                ok = ('numpy.' + NAN[k]) in inner and not any(x and x.startswith('numpy.nan') and x != 'numpy.' + NAN[k]
                                                              and x.replace('numpy.', '') in NAN.values() for x in inner)
        ctx.ob(R, 'glue.utils.array:NAN_FUNCTIONS[%s]' % k, '%r is computed by numpy.%s (or a wrapper that calls it)' % (k, NAN[k]), ok,
               detail='statistic %r is mapped to %s in the NaN-aware table: with filters on (the default) it computes another statistic' % (k, q),
               where='%s:%d' % (mod.relpath, v.lineno))
    f = ix.func(ARR + '.compute_statistic')
    pm = parent_map(f.node)
    for flag, pat, what in (('finite', 'isfinite', 'finite values only'), ('positive', '> 0', 'strictly positive values only'),
                            ('mask is not None', 'mask', 'selected values only')):
        hit = False
        for st in walk_no_nested(f.node):
            if isinstance(st, ast.AugAssign) and isinstance(st.op, ast.BitAnd) and unparse(st.target) == 'keep' and pat in unparse(st.value):
                gs = [unparse(g.test) for g, br in guard_chain(pm, st, f.node) if isinstance(g, ast.If) and br == 'body']
                if gs and gs[0] == flag:
                    hit = True
        ctx.ob(R, f.construct + ' ' + flag, 'the filter "%s" is applied exactly when %s' % (what, flag), hit,
               detail='utils.compute_statistic no longer narrows `keep` with the %s filter under `if %s`' % (what, flag), where=f.where)
    # which table is used
    uses = {}
    for st in walk_no_nested(f.node):
        if isinstance(st, ast.Assign) and unparse(st.targets[0]) == 'function':
            uses[unparse(st.value)] = [unparse(g.test) if br == 'body' else 'else:' + unparse(g.test)
                                       for g, br in guard_chain(pm, st, f.node) if isinstance(g, ast.If)]
    ok = 'NAN_FUNCTIONS[statistic]' in uses and 'PLAIN_FUNCTIONS[statistic]' in uses and \
        not uses['NAN_FUNCTIONS[statistic]'][0].startswith('else:') and uses['PLAIN_FUNCTIONS[statistic]'][0].startswith('else:')
    ctx.ob(R, f.construct + ' table choice', 'the NaN-aware reducer is used whenever values were filtered out', ok,
           detail='utils.compute_statistic no longer selects NAN_FUNCTIONS on the filtered branch and PLAIN_FUNCTIONS otherwise: %s' % uses,
           where=f.where)
    pc = [c for c in calls_in(f.node) if unparse(c.func) == 'function']
    ok = any(len(c.args) == 2 and unparse(c.args[1]) == 'percentile' for c in pc) and all(kwarg(c, 'axis') is not None and
                                                                                         unparse(kwarg(c, 'axis')) == 'axis' for c in pc)
    ctx.ob(R, f.construct + ' call', 'the reducer receives the axis (and the percentile for percentiles)', ok and len(pc) == 2,
           detail='the reducer is not called as function(data[, percentile], axis=axis)', where=f.where)


def rule_b(ctx, ix):
    R = 'C10.b'
    ctx.describe(R, 'every filter is forwarded unchanged on the chunked recursion and to the array-level routine', floor=12)
    data = ix.cls('glue.core.data.Data')
    f = data.resolve_func('compute_statistic')
    if f is None:
        raise AnalysisError('Data.compute_statistic vanished')
    s = f.self_name
    rec = [c for c in calls_in(f.node) if unparse(c.func) == '%s.compute_statistic' % s]
    if len(rec) != 1:
        raise AnalysisError('Data.compute_statistic: chunked recursion not recognised')
    c = rec[0]
    pos = [unparse(a) for a in c.args]
    ctx.ob(R, f.construct + ' recursion', 'statistic and attribute are forwarded unchanged', pos[:2] == f.params[1:3],
           detail='the chunked recursion is called with (%s) instead of (statistic, cid)' % ', '.join(pos), where=where(f, c))
    for p in FORWARDED:
        v = kwarg(c, p)
        ctx.ob(R, f.construct + ' recursion ' + p, 'keyword %s is forwarded unchanged to each chunk' % p, v is not None and unparse(v) == p,
               detail='the chunked recursion of Data.compute_statistic %s: above n_chunk_max elements the %s filter is silently '
                      'ignored (no test uses an array that large)' % ('passes %s=%s' % (p, unparse(v)) if v is not None else 'drops ' + p, p),
               where=where(f, c))
    for p, reason in (('random_subset', 'a random subset cannot be combined with a reduction axis (documented)'),
                      ('n_chunk_max', 'each chunk is below the limit by construction')):
        ctx.exception(R, 'Data.compute_statistic recursion ' + p, reason)
    v = kwarg(c, 'view')
    loops = [n for n in walk_no_nested(f.node) if isinstance(n, ast.For) and 'iterate_chunks' in unparse(n.iter)]
    ok = v is not None and len(loops) == 1 and unparse(v) == unparse(loops[0].target)
    ctx.ob(R, f.construct + ' recursion view', 'each chunk is evaluated with the chunk view of the loop', ok,
           detail='the chunked recursion does not pass view=<chunk view>', where=where(f, c))
    # array-level call
    mod = f.module
    low = [x for x in calls_in(f.node) if isinstance(x.func, ast.Name) and x.func.id == 'compute_statistic']
    if len(low) != 1:
        raise AnalysisError('Data.compute_statistic: call of utils.compute_statistic not recognised')
    x = low[0]
    ok = [unparse(a) for a in x.args][:2] == ['statistic', 'data']
    ctx.ob(R, f.construct + ' array call', 'the statistic name and the extracted values are passed', ok,
           detail='utils.compute_statistic is called with (%s)' % ', '.join(unparse(a) for a in x.args), where=where(f, x))
    for p in ('mask', 'axis', 'finite', 'positive', 'percentile'):
        v = kwarg(x, p)
        ctx.ob(R, f.construct + ' array call ' + p, '%s is forwarded to the array-level routine' % p, v is not None and unparse(v) == p,
               detail='Data.compute_statistic %s when calling utils.compute_statistic' % ('passes %s=%s' % (p, unparse(v)) if v is not None else 'drops ' + p),
               where=where(f, x))
    # the base-class signature and the Data signature agree on the public filters
    base = ix.cls('glue.core.data.BaseCartesianData').resolve_func('compute_statistic')
    ok = base is not None and all(p in f.params for p in base.params)
    ctx.ob(R, f.construct + ' signature', 'Data.compute_statistic accepts every parameter of the abstract method', ok,
           detail='Data.compute_statistic does not accept %s' % [p for p in (base.params if base else []) if p not in f.params], where=f.where)


def rule_c(ctx, ix):
    R = 'C10.c'
    ctx.describe(R, 'the chunk result is stored at the chunk\'s own index along the non-reduced axis', floor=4)
    data = ix.cls('glue.core.data.Data')
    f = data.resolve_func('compute_statistic')
    loops = [n for n in walk_no_nested(f.node) if isinstance(n, ast.For) and 'iterate_chunks' in unparse(n.iter)]
    if len(loops) != 1:
        raise AnalysisError('Data.compute_statistic: chunk loop not recognised')
    lp = loops[0]
    cv = unparse(lp.target)
    vals = [st for st in lp.body if isinstance(st, ast.Assign) and isinstance(st.value, ast.Call) and call_name(st.value) == 'compute_statistic']
    stores = [st for st in lp.body if isinstance(st, ast.Assign) and isinstance(st.targets[0], ast.Subscript)]
    if len(vals) != 1 or len(stores) != 1:
        raise AnalysisError('Data.compute_statistic: chunk loop body not recognised')
    vname = unparse(vals[0].targets[0])
    idx = unparse(stores[0].targets[0].slice).replace(' ', '')
    ok = unparse(stores[0].value) == vname and idx == '%s[axis_index]' % cv
    ctx.ob(R, f.construct + ' write-back', 'result[chunk_view[axis_index]] receives the values of that chunk', ok,
           detail='the chunk loop stores `%s`: the statistic of a chunk lands at another position of the result' % norm(stores[0]),
           where=where(f, stores[0]))
    ai = [st for st in walk_no_nested(f.node) if isinstance(st, ast.Assign) and unparse(st.targets[0]) == 'axis_index']
    txt = unparse(ai[0].value).replace(' ', '') if len(ai) == 1 else ''
    ctx.idiom(R, f.construct + ' axis_index', 'axis_index is the one axis that is not reduced',
              accepted=txt in ('[aforainrange(self.ndim)ifanotinaxis][0]', 'next(aforainrange(self.ndim)ifanotinaxis)'),
              absent=len(ai) != 1 or ('notinaxis' not in txt),
              detail_absent='axis_index is computed as %s: it no longer picks the axis that is not in `axis`' % (txt or None),
              shape=txt, where=f.where)
    res = [st for st in walk_no_nested(f.node) if isinstance(st, ast.Assign) and unparse(st.targets[0]) == unparse(stores[0].targets[0].value)
           and st.lineno < lp.lineno]
    res.sort(key=lambda st: -st.lineno)
    ok = bool(res) and 'shape[axis_index]' in unparse(res[0].value)
    ctx.ob(R, f.construct + ' result shape', 'the result has the length of the non-reduced axis', ok,
           detail='the chunked result is allocated as %s' % (unparse(res[0].value) if res else None), where=f.where)
    chunk = [st for st in walk_no_nested(f.node) if isinstance(st, ast.Assign) and unparse(st.targets[0]).replace(' ', '') == 'chunk_shape[axis_index]']
    ok = 'chunk_shape=chunk_shape' in unparse(lp.iter).replace(' ', '') and len(chunk) == 1 and 'self.shape' in unparse(lp.iter)
    ctx.ob(R, f.construct + ' chunking', 'chunks split only the non-reduced axis of the full shape', ok,
           detail='the chunk loop does not iterate iterate_chunks(self.shape, chunk_shape=...) with only axis_index reduced', where=where(f, lp))
    rets = [r for r in ast.walk(lp) if isinstance(r, ast.Return)]
    after = [st for st in ast.walk(f.node) if isinstance(st, ast.Return) and st.value is not None and
             unparse(st.value) == unparse(stores[0].targets[0].value)]
    ctx.ob(R, f.construct + ' return', 'the assembled result is returned after all chunks', not rets and bool(after),
           detail='the chunk loop returns early or the assembled result is not returned', where=f.where, nontrivial=False)
