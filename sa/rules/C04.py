"""C04 - views of masks and attribute values equal the same view of the full array."""
import ast

from ..index import AnalysisError, dotted_chain, norm, unparse, walk_no_nested, body_stmts
from ..cfg import CFG, ENTRY
from ..flow import Flow
from ..util import calls_in, call_name, where, returns_of, kwarg
from .. import props
from . import common

props.prop(
    'C04',
    explanation='Static (ast, forward dataflow + CFG) decision that no data-access path ignores its view: in every function '
                'of the data-access family that takes a view, each returned value is data-dependent on the view parameter '
                'unless the return is reachable only when the view is None; and that the dimension-reduced wrapper '
                '(IndexedData) translates every identifier and view it forwards to its parent.',
    decides='view dependence of every return of to_mask / get_data / get_mask / compute / __getitem__ / _calculate / evaluate '
            'and the key-join routine; identifier and view translation of every IndexedData method that forwards to the '
            'original dataset; completion of None / Ellipsis / single-entry / short views by IndexedData',
    not_decided='that the view arithmetic is right (combine_slices, slice reversal, pixel broadcast shortcut): numerical',
    assumptions=['calls are dependence-preserving; locals() depends on every local'])
props.also('C04',
           'that IndexedData completes Ellipsis / short / single-entry views and turns a boolean-mask view into index arrays before splicing it into the full-dimensional view; element order of the flatten / reshape pairs around views')

FAMILY_NAMES = {'to_mask', 'get_data', 'get_mask', 'compute', '__getitem__', '_calculate', 'evaluate', 'get_mask_with_key_joins',
                'to_array'}
MODULES = ['glue.core.subset', 'glue.core.data', 'glue.core.component', 'glue.core.component_link', 'glue.core.parse',
           'glue.core.joins', 'glue.core.data_derived', 'glue.core.data_region',
           'glue.viewers.image.pixel_selection_subset_state']
VIEW_PARAMS = ('view', 'key')
MUT = ('append', 'extend', 'insert', 'add', 'update', 'setdefault')


def run(ctx):
    ix = ctx.index
    ctx.guard(rule_a, ctx, ix)
    ctx.guard(rule_b, ctx, ix)
    ctx.guard(rule_c, ctx, ix)
    ctx.guard(rule_d, ctx, ix)
    ctx.guard(rule_e, ctx, ix)
    ctx.guard(rule_f, ctx, ix)
    ctx.guard(rule_g, ctx, ix)
    ctx.guard(rule_h, ctx, ix)


def family(ix):
    out = []
    for mname in MODULES:
        m = ix.module(mname)
        for c in ix.classes.values():
            if c.module is not m:
                continue
            for name, mem in sorted(c.members.items()):
                f = mem.func
                if f is None or name not in FAMILY_NAMES:
                    continue
                vp = [p for p in f.params[1:] if p in VIEW_PARAMS]
                if name == '__getitem__' and not c.is_subclass_of('glue.core.component.Component'):
                    continue
                if vp:
                    out.append((f, vp[0]))
        for f in ix.functions.values():
            if f.module is m and f.name in FAMILY_NAMES:
                vp = [p for p in f.params if p in VIEW_PARAMS]
                if vp:
                    out.append((f, vp[0]))
    return out


def view_flow(f, vp):
    """Flow analysis; returns [(Return node, depends: bool)]."""
    def classify(expr, state):
        for n in ast.walk(expr):
            if isinstance(n, ast.Name) and 'V' in state.get(n.id, ()):
                return {'V'}
            if isinstance(n, ast.Call) and isinstance(n.func, ast.Name) and n.func.id in ('locals', 'vars') and not n.args:
                if any('V' in t for t in state.values()):
                    return {'V'}
        return set()

    def taint(name, tags, state):
        if tags:
            state[name] = frozenset(state.get(name, frozenset()) | tags)

    def on_stmt(st, state):
        # mutating calls on a local container carry the dependence into it
        if isinstance(st, ast.Expr) and isinstance(st.value, ast.Call) and isinstance(st.value.func, ast.Attribute) \
                and st.value.func.attr in MUT:
            base = st.value.func.value
            while isinstance(base, (ast.Subscript, ast.Attribute)):
                base = base.value
            if isinstance(base, ast.Name):
                tags = set()
                for a in st.value.args:
                    tags |= classify(a, state)
                taint(base.id, tags, state)
        if isinstance(st, ast.AugAssign):
            base = st.target
            while isinstance(base, (ast.Subscript, ast.Attribute)):
                base = base.value
            if isinstance(base, ast.Name):
                taint(base.id, classify(st.value, state), state)

    def on_store(target, tags, state, stmt):
        base = target
        while isinstance(base, (ast.Subscript, ast.Attribute)):
            base = base.value
        if isinstance(base, ast.Name):
            t = set(tags)
            if isinstance(target, ast.Subscript):
                t |= classify(target.slice, state)
            taint(base.id, t, state)

    fl = Flow(classify, on_stmt=on_stmt, on_store=on_store)
    fl.run(f.node, {vp: frozenset(['V'])})
    out = []
    for r, state in fl.returns:
        dep = r.value is not None and bool(classify(r.value, state))
        out.append((r, dep))
    return out


def _none_only(f, vp, ret):
    """Is the return reachable only through the 'view is None' side of a test?"""
    cfg = CFG(f.node)
    pruned = set()
    for n in cfg.nodes():
        if cfg.kind[n] != 'if':
            continue
        from .. import cond
        try:
            fm = cond.formula(cfg.stmt[n].test, f.node)
            none = cond.T('is|%s|%s' % tuple(sorted(('None', vp))))
            if cond.equivalent(fm, none) or cond.equivalent(fm, cond.Not(cond.T(vp))):
                pruned.add((n, 'true'))
            elif cond.equivalent(fm, cond.Not(none)) or cond.equivalent(fm, cond.T(vp)):
                pruned.add((n, 'false'))
        except ValueError:
            pass
    rn = cfg.node_for(ret)
    if rn is None:
        return False
    path = cfg.path_avoiding(ENTRY, rn, avoid=(), pruned_edges=pruned)
    return path is None


def rule_a(ctx, ix):
    R = 'C04.a'
    ctx.describe(R, 'every return of the data-access family depends on the view unless reachable only with view None', floor=45)
    fam = family(ix)
    if len(fam) < 25:
        raise AnalysisError('only %d data-access functions with a view parameter found' % len(fam))
    # positive control: the rule must be able to see a violation
    ctrl = ast.parse("def to_mask(self, data, view=None):\n    x = data[self.att]\n    if view is None:\n        return x\n    return x > 0\n").body[0]

    class _F(object):
        node = ctrl
        construct = '<embedded positive example>'
    rets = view_flow(_F, 'view')
    seen_bad = [r for r, dep in rets if not dep and not _none_only(_F, 'view', r)]
    if len(seen_bad) != 1:
        raise AnalysisError('C04.a positive control no longer matches (%d)' % len(seen_bad))
    for f, vp in fam:
        rets = view_flow(f, vp)
        if not rets:
            ctx.ob(R, f.construct, 'no value is returned (abstract / raising)', True, nontrivial=False)
            continue
        for r, dep in rets:
            if r.value is None:
                continue
            ok = dep or _none_only(f, vp, r)
            ctx.ob(R, '%s `%s`' % (f.construct, norm(r)), 'the returned value depends on %s (or is only returned when it is None)' % vp,
                   ok,
                   detail='%s returns `%s`, which does not depend on its %s parameter, on a path where a view was given: the '
                          'caller receives the full-size (or a differently shaped) result instead of the requested view'
                          % (f.construct, norm(r), vp), where=where(f, r))


def rule_c(ctx, ix):
    """Changing the indices of an IndexedData must rebuild everything derived from them (on every path)."""
    R = 'C04.c'
    ctx.describe(R, 'IndexedData.indices: every structure derived from the indices is rebuilt whenever they are assigned', floor=2)
    idx = ix.cls('glue.core.data_derived.IndexedData')
    m = idx.resolve('indices')
    if m is None or m.fset is None:
        raise AnalysisError('IndexedData.indices setter vanished')
    f = m.fset
    s = f.self_name
    # which derived structures are used by the forwarding methods
    used = {}
    for name, mem in idx.members.items():
        g = mem.func
        if g is None or g is f:
            continue
        for n in ast.walk(g.node):
            if isinstance(n, ast.Attribute) and isinstance(n.value, ast.Name) and n.value.id == g.self_name \
                    and n.attr in ('_indices_subset_state', '_original_pixel_cids'):
                used.setdefault(n.attr, set()).add(name)
    if len(used) < 2:
        raise AnalysisError('IndexedData: structures derived from the indices are no longer used as expected (%s)' % sorted(used))
    for fld, users in sorted(used.items()):
        common.must_reach(ctx, R, f,
                          lambda e: isinstance(e, ast.Assign) and any(unparse(t) == '%s._indices' % s for t in e.targets),
                          lambda e, fld=fld: isinstance(e, ast.Assign) and any(unparse(t) == '%s.%s' % (s, fld) for t in e.targets),
                          'after the indices are assigned, %s (used by %s) is rebuilt on every path' % (fld, sorted(users)),
                          '%(func)s assigns the new indices with `%(stmt)s` but can return without rebuilding ' + fld +
                          ' (used by ' + ', '.join(sorted(users)) + '): after the indices change, those methods still describe the '
                          'old slice of the parent')


def rule_d(ctx, ix):
    """A view of a categorical array must use its parent's categories, otherwise its codes (and every selection evaluated on
    codes through a view) disagree with the same view of the full array."""
    R = 'C04.d'
    ctx.describe(R, 'views of categorical arrays inherit the categories of the array they were taken from', floor=2)
    c = ix.cls('glue.utils.array.categorical_ndarray')
    f = c.resolve_func('__array_finalize__')
    if f is None:
        raise AnalysisError('categorical_ndarray.__array_finalize__ vanished')
    s, obj = f.params[0], f.params[1]
    stores = [st for st in walk_no_nested(f.node) if isinstance(st, ast.Assign)
              and unparse(st.targets[0]) in ('%s.categories' % s, '%s._categories' % s)]
    from ..util import guard_chain, parent_map
    pm = parent_map(f.node)
    ok = False
    detail = 'categorical_ndarray.__array_finalize__ no longer hands the parent\'s categories to the view'
    for st in stores:
        tests = [unparse(g.test) for g, br in guard_chain(pm, st, f.node) if isinstance(g, ast.If)]
        forced = unparse(st.value) == '%s.categories' % obj          # the property: computes them if needed
        only_isinstance = all(t.replace(' ', '') == 'isinstance(%s,categorical_ndarray)' % obj for t in tests)
        if forced and only_isinstance:
            ok = True
        else:
            detail = ('a view takes its categories with `%s` under `%s`: when the parent has not computed its categories yet the '
                      'view derives its own from the elements it happens to contain, so data[cid, view].codes differs from '
                      'data[cid].codes[view]' % (norm(st), ' and '.join(tests)))
    ctx.ob(R, f.construct, 'the view receives obj.categories (computed on demand), whenever obj is categorical', ok, detail=detail,
           where=f.where)
    g = c.resolve_func('_update_categories_and_codes')
    calls = [x for x in calls_in(g.node) if call_name(x) == 'unique']
    gs = g.self_name

    def roles_after(stmts):
        """name / field -> 'cat' | 'codes' after the straight-line statements: both halves of ONE unique() result."""
        env = {}

        def role(e):
            if isinstance(e, (ast.Name, ast.Attribute)) and unparse(e) in env:
                return env[unparse(e)]
            if isinstance(e, ast.Call) and isinstance(e.func, ast.Attribute) and e.func.attr in ('astype', 'reshape', 'copy', 'view'):
                return role(e.func.value)
            return None
        for st in stmts:
            if not isinstance(st, ast.Assign) or len(st.targets) != 1:
                continue
            t = st.targets[0]
            if isinstance(t, ast.Tuple) and len(t.elts) == 2 and isinstance(st.value, ast.Call) and call_name(st.value) == 'unique':
                env[unparse(t.elts[0])], env[unparse(t.elts[1])] = 'cat', 'codes'
            elif isinstance(t, (ast.Name, ast.Attribute)):
                env[unparse(t)] = role(st.value)
        return env
    together = False
    for blk in [g.node.body] + [b for n_ in ast.walk(g.node) if isinstance(n_, ast.If) for b in (n_.body, n_.orelse)]:
        env = roles_after(blk)
        if env.get('%s._categories' % gs) == 'cat' and env.get('%s._codes' % gs) == 'codes':
            together = True
    ctx.ob(R, g.construct, 'categories and codes come from one unique() call (or codes are looked up in the given categories)',
           len(calls) == 1 and together and any(call_name(x) == 'index_lookup' for x in calls_in(g.node)),
           detail='categorical_ndarray no longer derives categories and codes together', where=g.where)
    # rank: the lookup helper handles one-dimensional input only (it builds a table with one row per element); a view of an
    # N-d categorical array is N-d
    il = ix.func('glue.utils.array.index_lookup')
    p0 = il.params[0]
    one_d = any(isinstance(x, ast.Call) and unparse(x.func) in ('pd.DataFrame', 'pandas.DataFrame') and
                any(isinstance(n_, ast.Name) and n_.id == p0 for n_ in ast.walk(x)) for x in ast.walk(il.node)) and \
        not any(isinstance(x, ast.Call) and call_name(x) in ('ravel', 'flatten') and p0 in unparse(x) for x in ast.walk(il.node))
    for x in calls_in(g.node):
        if call_name(x) != 'index_lookup':
            continue
        a0 = x.args[0]
        flat = (isinstance(a0, ast.Call) and call_name(a0) in ('ravel', 'flatten')) or \
            (isinstance(a0, ast.Attribute) and a0.attr == 'flat') or \
            (isinstance(a0, ast.Call) and call_name(a0) == 'reshape' and unparse(a0.args[0]) in ('-1', '(-1,)'))
        # the result is brought back to the shape of the view before it is stored (directly or through a local name)
        from ..util import expand_locals
        reshaped = False
        for st in walk_no_nested(g.node):
            if isinstance(st, ast.Assign) and unparse(st.targets[0]) == '%s._codes' % gs:
                v = expand_locals(g.node, st.value)
                for r_ in ast.walk(v):
                    if isinstance(r_, ast.Call) and isinstance(r_.func, ast.Attribute) and r_.func.attr == 'reshape' and \
                            isinstance(r_.func.value, ast.Call) and call_name(r_.func.value) == 'index_lookup':
                        reshaped = True
        if not one_d:
            ctx.ob(R, g.construct + ' rank', 'the lookup helper accepts arrays of any rank', True, nontrivial=False)
            continue
        ctx.idiom(R, g.construct + ' rank', 'the (one-dimensional) lookup helper receives the flattened view and its result is reshaped',
                  accepted=flat and reshaped, absent=unparse(a0) == g.self_name or (flat != reshaped),
                  detail_absent='categorical_ndarray._update_categories_and_codes hands `%s` to index_lookup, which handles one-dimensional '
                                'input only (it builds a table with one row per element): the codes of a view of a 2-d or 3-d categorical '
                                'attribute cannot be computed (ValueError), so values / masks on such views are not those of the full '
                                'array' % unparse(a0), shape=unparse(x), where=where(g, x))


ID_LIKE = {'cid', 'cids', 'weights', 'target_cid'}
VIEW_LIKE = {'view'}


def rule_b(ctx, ix):
    R = 'C04.b'
    ctx.describe(R, 'IndexedData translates every identifier and view it forwards to the original dataset', floor=7)
    idx = ix.cls('glue.core.data_derived.IndexedData')
    base = ix.cls('glue.core.data.BaseCartesianData')
    data = ix.cls('glue.core.data.Data')
    n = 0
    for name, mem in sorted(idx.members.items()):
        f = mem.func
        if f is None:
            continue
        s = f.self_name
        fw = [c for c in calls_in(f.node) if isinstance(c.func, ast.Attribute) and unparse(c.func.value) == '%s._original_data' % s]
        if not fw:
            continue
        tags = _translated_names(f, s)
        for c in fw:
            tname = c.func.attr
            tf = base.resolve_func(tname) or data.resolve_func(tname)
            if tf is None:
                continue
            tparams = tf.params[1:]
            ta = tf.node.args
            kwonly = [a.arg for a in ta.kwonlyargs]
            bound = {}
            star_from = None
            for i, a in enumerate(c.args):
                if isinstance(a, ast.Starred):
                    star_from = i
                    break
                if i < len(tparams):
                    bound[tparams[i]] = a
            starkw = None
            for k in c.keywords:
                if k.arg is None:
                    starkw = k.value
                else:
                    bound[k.arg] = k.value
            for p in tparams + kwonly:
                if p not in ID_LIKE | VIEW_LIKE:
                    continue
                n += 1
                kind = 'identifier' if p in ID_LIKE else 'view'
                helper = '_translate_cid' if p in ID_LIKE else '_to_original_view'
                if p in bound:
                    ok = _is_translated(bound[p], tags, helper, s)
                    ctx.ob(R, '%s -> %s(%s)' % (f.construct, tname, p), 'the %s passed as %s is translated by %s' % (kind, p, helper), ok,
                           detail='%s forwards `%s` as %s of the original dataset\'s %s without translating it through %s: the '
                                  'parent is asked about the wrapper\'s own %s' % (f.construct, unparse(bound[p]), p, tname, helper, kind),
                           where=where(f, c))
                elif star_from is not None and tparams.index(p) >= star_from if p in tparams else False:
                    ctx.ob(R, '%s -> %s(%s)' % (f.construct, tname, p), 'the %s passed as %s is translated by %s' % (kind, p, helper), False,
                           detail='%s forwards its positional arguments unchanged (*%s) to the original dataset\'s %s, whose '
                                  'parameter %s is an %s of the wrapper: it reaches the parent untranslated (IncompatibleAttribute '
                                  'for the wrapper\'s own attributes)' % (f.construct, unparse(c.args[star_from].value), tname, p, kind),
                           where=where(f, c))
                elif starkw is not None:
                    kwname = unparse(starkw)
                    rew = _kw_rewritten(f, kwname, p, tags, helper, s)
                    ctx.ob(R, '%s -> %s(%s)' % (f.construct, tname, p), 'a %s passed as keyword %s is translated by %s' % (kind, p, helper), rew,
                           detail='%s forwards **%s unchanged to the original dataset\'s %s, whose keyword %s is a %s of the wrapper: '
                                  'it is never rewritten through %s' % (f.construct, kwname, tname, p, kind, helper), where=where(f, c))
    if n < 6:
        raise AnalysisError('C04.b: only %d forwarded identifier/view parameters recognised' % n)


def _translated_names(f, s):
    """Local names that hold translated values."""
    out = {}
    for st in walk_no_nested(f.node):
        if isinstance(st, ast.Assign) and len(st.targets) == 1 and isinstance(st.targets[0], ast.Name):
            for helper in ('_translate_cid', '_to_original_view'):
                if _uses_helper(st.value, helper, s):
                    out[st.targets[0].id] = helper
    return out


def _uses_helper(expr, helper, s):
    """expr is helper(x), or a comprehension/conditional whose elements are helper(x) (None passes through)."""
    if isinstance(expr, ast.Call) and unparse(expr.func) == '%s.%s' % (s, helper):
        return True
    if isinstance(expr, (ast.ListComp, ast.GeneratorExp)):
        return _uses_helper(expr.elt, helper, s)
    if isinstance(expr, ast.Call) and isinstance(expr.func, ast.Name) and expr.func.id in ('list', 'tuple') and expr.args:
        return _uses_helper(expr.args[0], helper, s)
    if isinstance(expr, ast.IfExp):
        sides = [expr.body, expr.orelse]
        return all(_uses_helper(x, helper, s) or (isinstance(x, ast.Constant) and x.value is None) for x in sides)
    return False


def _is_translated(expr, tags, helper, s):
    if _uses_helper(expr, helper, s):
        return True
    if isinstance(expr, ast.Name) and tags.get(expr.id) == helper:
        return True
    return False


def _kw_rewritten(f, kwname, p, tags, helper, s):
    for st in walk_no_nested(f.node):
        if isinstance(st, ast.Assign) and isinstance(st.targets[0], ast.Subscript) and unparse(st.targets[0].value) == kwname \
                and isinstance(st.targets[0].slice, ast.Constant) and st.targets[0].slice.value == p:
            if _is_translated(st.value, tags, helper, s):
                return True
    return False


def run_thorough(ctx):
    """Package-wide sweep: the data-access family (same method names) in *every* module of glue/, not only the anchored ones."""
    ix = ctx.index
    R = 'C04.a+'
    ctx.describe(R, 'package-wide: data-access methods with a view parameter return view-dependent values')
    seen = {f.construct for f, _ in family(ix)}
    allf = list(ix.functions.values())
    for c in ix.classes.values():
        for mem in c.members.values():
            if mem.func is not None:
                allf.append(mem.func)
    n = 0
    for f in sorted(allf, key=lambda x: x.construct):
        if f.construct in seen or f.name not in FAMILY_NAMES:
            continue
        vp = [p for p in f.params if p in VIEW_PARAMS]
        if not vp or (f.name == '__getitem__'):
            continue
        seen.add(f.construct)
        n += 1
        for r, dep in view_flow(f, vp[0]):
            if r.value is None:
                continue
            ok = dep or _none_only(f, vp[0], r)
            ctx.ob(R, '%s `%s`' % (f.construct, norm(r)), 'the returned value depends on the view', ok,
                   detail='%s returns `%s` independently of its %s parameter' % (f.construct, norm(r), vp[0]), where=where(f, r))
    ctx.ob(R, 'glue', '%d further data-access functions swept' % n, True, nontrivial=False)


def rule_e(ctx, ix):
    """View entries and IndexedData indices are *indices*: they may be negative (counted from the end).  Code that computes
    with one as if it were an absolute position (x + 1, x - start, x < stop against a normalised bound) is right for every
    non-negative index and wrong for the others."""
    from ..relidx import make_classifier, position_arithmetic, REL
    R = 'C04.e'
    ctx.describe(R, 'caller-supplied indices (view entries, IndexedData.indices) are normalised before any position arithmetic', floor=30)
    fam = family(ix)
    for f, vp in fam:
        cl = make_classifier({vp})
        out, env = position_arithmetic(f.node, cl, {vp: frozenset([REL])})
        ctx.ob(R, f.construct, 'no entry of `%s` is used as an absolute position' % vp, not out,
               detail='%s computes with an entry of its view as if it were an absolute position: `%s` - a negative index (the last '
                      'element, ...) is a legal view entry and selects something else than the same view of the full result; normalise it '
                      'first (range(n)[i], i %% n, slice.indices(n))' % (f.construct, '`, `'.join(t for _, t in out[:3])),
               where=where(f, out[0][0]) if out else f.where)
    idx = ix.cls('glue.core.data_derived.IndexedData')
    if idx is None:
        raise AnalysisError('IndexedData vanished')
    n = 0
    for name, mem in sorted(idx.members.items()):
        for f in _member_funcs(mem):
            if f is None or f.cls is not idx:
                continue
            n += 1
            rel = {'self._indices', 'self.indices'}
            if name == 'indices' or name == '__init__':
                rel |= set(p for p in f.params[1:] if p in ('indices', 'value'))
            cl = make_classifier(rel)
            out, env = position_arithmetic(f.node, cl, {})
            ctx.ob(R, f.construct + ('' if f.name == name else ' (%s)' % f.name), 'the index tuple is passed on, never computed with', not out,
                   detail='%s computes with an entry of the index tuple as if it were an absolute position: `%s` - IndexedData(data, (-1, None)) '
                          'is the last plane of its parent, and this expression selects something else (or nothing) for it'
                          % (f.construct, '`, `'.join(t for _, t in out[:3])), where=where(f, out[0][0]) if out else f.where)
    if n < 10:
        raise AnalysisError('IndexedData: only %d methods found' % n)


def _member_funcs(mem):
    out = []
    for attr in ('func', 'fget', 'fset', 'fdel'):
        f = getattr(mem, attr, None)
        if f is not None and f not in out:
            out.append(f)
    return out


def rule_f(ctx, ix):
    """The pixel-space shortcut of the region selection reads `att.axis` as an axis of the dataset being evaluated.  That is only
    meaningful for the dataset's OWN pixel attributes: a pixel attribute of another (linked) dataset has an axis number too."""
    from ..util import expand_locals, parent_map as _pm, guard_chain
    R = 'C04.f'
    ctx.describe(R, 'the pixel-space shortcut is taken only for the evaluated dataset\'s own pixel attributes', floor=1)
    c = ix.cls('glue.core.subset.RoiSubsetStateNd')
    f = c.resolve_func('to_mask')
    if f is None:
        raise AnalysisError('RoiSubsetStateNd.to_mask vanished')
    data_p = f.params[1]
    pm = _pm(f.node)
    reads = [n for n in ast.walk(f.node) if isinstance(n, ast.Attribute) and n.attr == 'axis' and isinstance(n.ctx, ast.Load)]
    if not reads:
        ctx.ob(R, f.construct, 'no pixel-space shortcut is taken (nothing reads an axis number)', True, nontrivial=False)
        return
    for r in reads:
        tests = [expand_locals(f.node, g.test) for g, br in guard_chain(pm, r, f.node) if isinstance(g, ast.If) and br == 'body']
        own = False
        other = False
        for t in tests:
            for x in ast.walk(t):
                if isinstance(x, ast.Call) and isinstance(x.func, ast.Name) and x.func.id == 'all' and x.args:
                    for cmp_ in ast.walk(x.args[0]):
                        if isinstance(cmp_, ast.Compare) and len(cmp_.ops) == 1 and isinstance(cmp_.ops[0], ast.In) and \
                                unparse(cmp_.comparators[0]) in ('%s.pixel_component_ids' % data_p, '%s._pixel_component_ids' % data_p):
                            own = True
                if isinstance(x, ast.Call) and isinstance(x.func, ast.Name) and x.func.id == 'isinstance' and 'PixelComponentID' in unparse(x):
                    other = True
        ctx.idiom(R, '%s `%s`' % (f.construct, norm(r)), 'the axis number is used only when every attribute is one of data.pixel_component_ids',
                  accepted=own, absent=(not own) and (other or not tests),
                  detail_absent='RoiSubsetStateNd.to_mask uses `%s` as an axis of the dataset it evaluates on without checking that the '
                                'attributes are that dataset\'s own pixel attributes (%s): for a region drawn on the pixel axes of another, '
                                'linked dataset the wrong axes are collapsed and the mask of a view differs from the view of the full mask'
                                % (norm(r), 'it only tests their type' if other else 'no test'),
                  shape=' and '.join(unparse(t) for t in tests), where=where(f, r))


def rule_g(ctx, ix):
    """IndexedData hands every request to its parent with a view that has one entry per dimension of the parent: it takes one
    entry of the caller's view per kept dimension.  The caller's view may be None, Ellipsis, a single slice / integer, or a tuple
    shorter than the number of kept dimensions (all accepted by the parent itself): each of these has to be completed to one
    entry per kept dimension before the entries are taken."""
    from .. import cond
    from ..util import parent_map
    R = 'C04.g'
    ctx.describe(R, 'IndexedData completes the caller\'s view (None, Ellipsis, single entry, short tuple) before taking one entry per kept dimension', floor=4)
    idx = ix.cls('glue.core.data_derived.IndexedData')
    f = idx.resolve_func('_to_original_view')
    if f is None:
        raise AnalysisError('IndexedData._to_original_view vanished')
    v = f.params[1]
    s_ = f.self_name
    takes = [n for n in ast.walk(f.node) if isinstance(n, ast.Subscript) and isinstance(n.ctx, ast.Load) and isinstance(n.value, ast.Name)
             and n.value.id == v and not isinstance(n.slice, (ast.Constant, ast.Slice))]
    if not takes:
        raise AnalysisError('IndexedData._to_original_view: taking one entry of the view per kept dimension is no longer recognised')
    pm = parent_map(f.node)
    assigns = [st for st in walk_no_nested(f.node) if isinstance(st, ast.Assign) and any(isinstance(t, ast.Name) and t.id == v for t in st.targets)]

    def repeat(e):
        """(count expression) when e is `[slice(None)] * N`, `(slice(None),) * N`, `N * [...]` or `[slice(None) for _ in range(N)]`"""
        def is_full_slice(x):
            return isinstance(x, ast.Call) and call_name(x) == 'slice' and x.args and all(isinstance(a, ast.Constant) and a.value is None for a in x.args)
        if isinstance(e, ast.Call) and isinstance(e.func, ast.Name) and e.func.id in ('list', 'tuple') and len(e.args) == 1:
            e = e.args[0]
        if isinstance(e, ast.BinOp) and isinstance(e.op, ast.Mult):
            for seq, cnt in ((e.left, e.right), (e.right, e.left)):
                if isinstance(seq, (ast.List, ast.Tuple)) and len(seq.elts) == 1 and is_full_slice(seq.elts[0]):
                    return cnt
        if isinstance(e, (ast.ListComp, ast.GeneratorExp)) and is_full_slice(e.elt) and len(e.generators) == 1 and \
                isinstance(e.generators[0].iter, ast.Call) and call_name(e.generators[0].iter) == 'range' and len(e.generators[0].iter.args) == 1:
            return e.generators[0].iter.args[0]
        return None

    def full(e):
        c = repeat(e)
        return c is not None and 'ndim' in unparse(c) and 'len(' not in unparse(c)

    def padded(e):
        # <the view> + <full slices for the missing entries>
        for x in ast.walk(e):
            if isinstance(x, ast.BinOp) and isinstance(x.op, ast.Add):
                for a, b in ((x.left, x.right), (x.right, x.left)):
                    c = repeat(b)
                    if c is not None and ('len(%s)' % v) in unparse(c).replace(' ', '') and 'ndim' in unparse(c) and \
                            any(isinstance(n, ast.Name) and n.id == v for n in ast.walk(a)):
                        return True
        return False

    def wrapped(e):
        return isinstance(e, (ast.List, ast.Tuple)) and len(e.elts) == 1 and unparse(e.elts[0]) == v

    def pcs(pred):
        return [cond.path_condition(f.node, st, expand=False) or ('const', True) for st in assigns if pred(st.value)]

    def covered(case, pred):
        try:
            return any(cond.implies(case, pc) for pc in pcs(pred))
        except ValueError:
            return False
    rows = [('None', cond.T('is|None|%s' % v), full, 'view=None'),
            ('Ellipsis', cond.T('is|Ellipsis|%s' % v), full, 'view=Ellipsis (what Data accepts as "everything")')]
    for nm, case, pred, txt in rows:
        ctx.ob(R, '%s %s' % (f.construct, nm), '%s is replaced by one full slice per kept dimension' % nm, covered(case, pred) or
               any(pc == ('const', True) for pc in pcs(padded)),
               detail='IndexedData._to_original_view does not replace %s by a full view: the entry taken per kept dimension is then '
                      '`%s[k]` of an object that cannot be subscripted, and get_data / get_mask / compute_statistic of the indexed dataset '
                      'raise TypeError where the parent dataset answers' % (txt, v), where=f.where)
    short = [pc for pc in pcs(padded)]
    ctx.ob(R, f.construct + ' short', 'a view with fewer entries than kept dimensions is completed with full slices', bool(short),
           detail='IndexedData._to_original_view takes `%s[k]` for every kept dimension without completing a shorter view: '
                  'get_data(cid, view=(slice(0, 1),)) of a 2-d indexed dataset raises IndexError where the parent dataset answers' % v,
           where=f.where)
    # a boolean mask with the shape of the indexed dataset: translated to index arrays (one per kept dimension) first
    def mask_to_indices(e):
        return isinstance(e, ast.Call) and call_name(e) in ('nonzero', 'where', 'argwhere') and e.args and unparse(e.args[0]) == v or \
            isinstance(e, ast.Call) and isinstance(e.func, ast.Attribute) and e.func.attr == 'nonzero' and unparse(e.func.value) == v
    mpcs = pcs(mask_to_indices)
    okm = any(any('bool' in a and v in a for a in cond.atoms(pc)) for pc in mpcs)
    ctx.ob(R, f.construct + ' mask', 'a boolean-mask view is translated to index arrays before one entry is taken per kept dimension', okm,
           detail='IndexedData._to_original_view takes `%s[k]` of a boolean mask - a row of the mask - for every kept dimension: '
                  'get_data(cid, view=mask) of an indexed dataset raises IndexError where the parent dataset answers full[mask]' % v,
           where=f.where)
    single = pcs(wrapped)
    ok = False
    for pc in single:
        ok = ok or any(a.startswith('isinstance(%s,' % v) and 'slice' in a for a in cond.atoms(pc))
    ctx.ob(R, f.construct + ' single', 'a single slice / integer is treated as a one-entry view', ok,
           detail='IndexedData._to_original_view subscripts a view that is a single slice or integer (view=slice(0, 1), view=1): '
                  'TypeError where the parent dataset answers', where=f.where)


def rule_h(ctx, ix):
    """A view of a categorical array shares the CATEGORIES of its parent, never its integer codes: the codes are positional, and a
    view of the same shape can be a permutation (data[cat, (argsort,)]).  And codes are computed in C element order."""
    R = 'C04.h'
    ctx.describe(R, 'views of categorical arrays inherit categories only; codes are recomputed in C order', floor=3)
    c = ix.cls('glue.utils.array.categorical_ndarray')
    f = c.resolve_func('__array_finalize__')
    if f is None:
        raise AnalysisError('categorical_ndarray.__array_finalize__ vanished')
    s_ = f.self_name
    inherited = [st for st in ast.walk(f.node) if isinstance(st, ast.Assign) and any(
        isinstance(t, ast.Attribute) and isinstance(t.value, ast.Name) and t.value.id == s_ and 'code' in t.attr for t in st.targets)
        and not (isinstance(st.value, ast.Constant) and st.value.value is None)]
    ctx.ob(R, f.construct, 'a derived array never takes over the codes of the array it was derived from', not inherited,
           detail='categorical_ndarray.__array_finalize__ copies the cached integer codes of the parent (`%s`): a view with the shape of '
                  'the full array but another element order (a permutation by index arrays) keeps the codes of the unpermuted array, so '
                  'category selections and statistics on that view differ from the same view of the full result'
                  % (norm(inherited[0]) if inherited else ''), where=f.where)
    cats = any(isinstance(st, ast.Assign) and any(isinstance(t, ast.Attribute) and 'categor' in t.attr for t in st.targets) for st in ast.walk(f.node))
    ctx.ob(R, f.construct + ' categories', 'a derived array shares the categories of its parent', cats,
           detail='categorical_ndarray.__array_finalize__ no longer hands the categories on to views', where=f.where, nontrivial=False)
    n = common.check_element_order(ctx, R, ix, ['glue.utils.array'], what='the result is reshaped in C order')
    if n < 2:
        raise AnalysisError('C04.h: only %d flatten / reshape calls in glue.utils.array' % n)
