"""C01 - selections form a faithful Boolean algebra over membership masks.

Decides the tables and shapes that make the algebra come out right, and operand
isolation (see DESIGN.md section 3, C01.a-f).  Leaf masks are not decided here.
"""
import ast

from ..index import AnalysisError, dotted_chain, norm, unparse, walk_no_nested, body_stmts
from ..boolalg import BoolEval, Atom, Inst, SubsetV, Table, atoms, Undecided
from ..flow import Flow
from ..util import returns_of, calls_in, call_name, where, is_self_attr, kwarg, parent_map
from .. import props
from . import common

props.prop(
    'C01',
    explanation='Static (ast) decision of the structural clauses of the selection algebra: operator tables, '
                'composite evaluation shape, edit-mode truth tables (by finite abstract evaluation of the real '
                'code over Boolean atoms, resolved through the class model), operand isolation (copy on '
                'construction, class-preserving and field-covering copy, no in-place write to shared masks), '
                'key-join fallback shape and memo-key completeness.',
    decides='that and/or/xor/not, the n-ary or and the six edit modes compute the named Boolean function of '
            'their operands\' masks, forward (data, view) unchanged, never mutate operands or shared masks, '
            'and that memoisation keys on all arguments; that looking at a combined selection (attributes) never extends a '
            'collection borrowed from an operand, and that re-assigning any field of a selection flushes every memoised mask',
    not_decided='that the masks of elementary selections are right (C04/C09), result shapes, selections '
                'defined outside the package',
    assumptions=['numpy &,|,^,~ on boolean masks are elementwise', 'SubsetState subclasses outside glue/ are not seen'])
props.also('C01',
           'that the edit-mode dispatcher applies the mode to every edited subset unconditionally; that the many-way or keeps a list of its own (copy, original and caller never share it); that the memo key takes the arguments unconverted (a list view and a tuple view never share an entry)')

SUBSET = 'glue.core.subset'
EXPECT = {'AND': lambda a, b: a.AND(b), 'OR': lambda a, b: a.OR(b), 'XOR': lambda a, b: a.XOR(b)}
CLASS_OP = {'AndState': 'AND', 'OrState': 'OR', 'XorState': 'XOR'}
DUNDER_OP = {'__and__': 'AND', '__or__': 'OR', '__xor__': 'XOR'}
CMP = {'__gt__': 'gt', '__ge__': 'ge', '__lt__': 'lt', '__le__': 'le', '__eq__': 'eq', '__ne__': 'ne'}


def run(ctx):
    ix = ctx.index
    ctx.guard(rule_a, ctx, ix)
    ctx.guard(rule_b, ctx, ix)
    ctx.guard(rule_b2, ctx, ix)
    ctx.guard(rule_c, ctx, ix)
    ctx.guard(rule_d, ctx, ix)
    ctx.guard(rule_e, ctx, ix)
    ctx.guard(rule_f, ctx, ix)
    ctx.guard(rule_g, ctx, ix)
    ctx.guard(rule_h, ctx, ix)
    ctx.guard(rule_i, ctx, ix)
    ctx.guard(rule_j, ctx, ix)


def _ev(ix):
    return BoolEval(ix)


def _two(ix):
    a, b = atoms(2)
    return Atom(a, 'A'), Atom(b, 'B')


def _tab(ev, v):
    if isinstance(v, SubsetV):
        v = v.state
    return ev.table_of(v)


# ---------------------------------------------------------------------------------------
def rule_a(ctx, ix):
    R = 'C01.a'
    ctx.describe(R, 'operator tables: class <-> operator <-> dunder <-> symbol', floor=30)
    base = ix.cls(SUBSET + '.SubsetState')
    subset_cls = ix.cls(SUBSET + '.Subset')
    group_cls = ix.cls('glue.core.subset_group.SubsetGroup')

    # (1) composite classes compute the function their name says
    for cname, op in sorted(CLASS_OP.items()):
        cls = ix.cls('%s.%s' % (SUBSET, cname))
        ev = _ev(ix)
        A, B = _two(ix)
        inst = ev.instantiate(cls, [A, B], {}, cls.resolve_func('to_mask'))
        t = ev.table_of(inst)
        want = EXPECT[op](A.table, B.table)
        ctx.ob(R, cls.construct, 'mask of %s(a, b) is a %s b' % (cname, op), t == want,
               detail='%s(a, b) evaluates to truth table %r, expected %r (%s); chain: %s'
                      % (cname, t, want, op, ' / '.join(ev.trace[-6:])), where=cls.where)
    cls = ix.cls(SUBSET + '.InvertState')
    ev = _ev(ix)
    A, B = _two(ix)
    inst = ev.instantiate(cls, [A], {}, cls.resolve_func('to_mask'))
    t = ev.table_of(inst)
    ctx.ob(R, cls.construct, 'mask of InvertState(a) is not a', t == A.table.NOT(),
           detail='InvertState(a) evaluates to %r, expected %r' % (t, A.table.NOT()), where=cls.where)

    # (2) the operators on states build the matching composite
    for dunder, op in sorted(DUNDER_OP.items()):
        ev = _ev(ix)
        A, B = _two(ix)
        f = base.resolve_func(dunder)
        if f is None:
            raise AnalysisError('SubsetState.%s vanished' % dunder)
        res = ev._dunder(A, dunder, [B], f)
        t = _tab(ev, res)
        want = EXPECT[op](A.table, B.table)
        ctx.ob(R, f.construct, 'a %s b on states selects a %s b' % (dunder, op), t == want,
               detail='state %s evaluates to %r, expected %r; chain: %s' % (dunder, t, want, ' / '.join(ev.trace[-6:])),
               where=f.where)
    ev = _ev(ix)
    A, B = _two(ix)
    f = base.resolve_func('__invert__')
    if f is None:
        raise AnalysisError('SubsetState.__invert__ vanished')
    t = _tab(ev, ev._dunder(A, '__invert__', [], f))
    ctx.ob(R, f.construct, '~a on states selects not a', t == A.table.NOT(),
           detail='state __invert__ evaluates to %r, expected %r' % (t, A.table.NOT()), where=f.where)
    # overriding operators in subclasses are evaluated too
    for c in base.subclasses(strict=True):
        for dunder in list(DUNDER_OP) + ['__invert__']:
            if dunder in c.members:
                raise AnalysisError('%s overrides %s: not modelled' % (c.qualname, dunder))

    # (3) Subset and SubsetGroup operators
    for owner, label in ((subset_cls, 'Subset'), (group_cls, 'SubsetGroup')):
        for dunder, op in sorted(DUNDER_OP.items()):
            ev = _ev(ix)
            A, B = _two(ix)
            f = owner.resolve_func(dunder)
            if f is None:
                raise AnalysisError('%s.%s vanished' % (label, dunder))
            s1, s2 = SubsetV(A, owner), SubsetV(B, owner)
            res = ev._dunder_subset(s1, dunder, [s2], f)
            t = _tab(ev, res)
            want = EXPECT[op](A.table, B.table)
            ctx.ob(R, f.construct, '%s %s combines the two states with %s' % (label, dunder, op), t == want,
                   detail='%s.%s evaluates to %r, expected %r; chain: %s'
                          % (label, dunder, t, want, ' / '.join(ev.trace[-6:])), where=f.where)
        ev = _ev(ix)
        A, B = _two(ix)
        f = owner.resolve_func('__invert__')
        if f is None:
            raise AnalysisError('%s.__invert__ vanished' % label)
        t = _tab(ev, ev._dunder_subset(SubsetV(A, owner), '__invert__', [], f))
        ctx.ob(R, f.construct, '%s ~ inverts the state' % label, t == A.table.NOT(),
               detail='%s.__invert__ evaluates to %r, expected %r' % (label, t, A.table.NOT()), where=f.where)

    # (4) comparison dunders build InequalitySubsetState(self, other, operator.<same>)
    for cq, names in (('glue.core.component_id.ComponentID', ['__gt__', '__ge__', '__lt__', '__le__', '__eq__', '__ne__']),
                      ('glue.core.component_link.ComponentLink', ['__gt__', '__ge__', '__lt__', '__le__'])):
        cls = ix.cls(cq)
        for d in names:
            common.check_operator_dunder(ctx, R, cls, d, 'glue.core.subset.InequalitySubsetState', CMP[d],
                                         reflected=False)

    # (5) InequalitySubsetState applies operator(left, right) in that order
    ineq = ix.cls(SUBSET + '.InequalitySubsetState')
    f = ineq.resolve_func('to_mask')
    common.check_binary_apply(ctx, R, ineq, f, op_field='_operator', left_field='_left', right_field='_right')

    # (6) OPSYM / SYMOP
    mod = ix.module(SUBSET)
    opsym = mod.assigns.get('OPSYM')
    symop = mod.assigns.get('SYMOP')
    if not isinstance(opsym, ast.Dict) or symop is None:
        raise AnalysisError('OPSYM/SYMOP tables not found as literals in glue/core/subset.py')
    table = {}
    want_sym = {'operator.ge': '>=', 'operator.gt': '>', 'operator.le': '<=', 'operator.lt': '<',
                'operator.and_': '&', 'operator.or_': '|', 'operator.xor': '^', 'operator.eq': '==',
                'operator.ne': '!='}
    for k, v in zip(opsym.keys, opsym.values):
        q = ix.resolve_expr(mod, k)
        if q is None or not isinstance(v, ast.Constant):
            raise AnalysisError('OPSYM entry %s is not a plain operator -> string row' % unparse(k))
        table[q] = v.value
        if q in want_sym:
            ctx.ob(R, 'glue.core.subset:OPSYM[%s]' % q, 'symbol of %s is %s' % (q, want_sym[q]), v.value == want_sym[q],
                   detail='OPSYM maps %s to %r, expected %r (a saved comparison would be restored as another operator)'
                          % (q, v.value, want_sym[q]), where='%s:%d' % (mod.relpath, k.lineno))
    ctx.ob(R, 'glue.core.subset:OPSYM', 'OPSYM is injective', len(set(table.values())) == len(table),
           detail='two operators share a symbol: %r' % table, where='%s:%d' % (mod.relpath, opsym.lineno))
    inv_ok = _is_inverse_of(symop, 'OPSYM')
    ctx.ob(R, 'glue.core.subset:SYMOP', 'SYMOP is the inverse of OPSYM', inv_ok,
           detail='SYMOP is not built as the inverse of OPSYM: %s' % norm(symop),
           where='%s:%d' % (mod.relpath, symop.lineno))
    valid = mod.assigns.get('VALID_INEQUALTIY_OPS')
    if not isinstance(valid, (ast.List, ast.Tuple)):
        raise AnalysisError('VALID_INEQUALTIY_OPS not found as a literal list')
    for e in valid.elts:
        q = ix.resolve_expr(mod, e)
        ctx.ob(R, 'glue.core.subset:VALID_INEQUALTIY_OPS[%s]' % q, 'every valid comparison has a symbol', q in table,
               detail='%s is accepted by InequalitySubsetState but has no OPSYM row: it is saved as None and cannot be loaded' % q,
               where='%s:%d' % (mod.relpath, e.lineno))


def _is_inverse_of(node, name):
    # dict((v, k) for k, v in OPSYM.items())  /  {v: k for k, v in OPSYM.items()}
    comp = None
    if isinstance(node, ast.Call) and isinstance(node.func, ast.Name) and node.func.id == 'dict' and len(node.args) == 1:
        comp = node.args[0]
        if isinstance(comp, (ast.GeneratorExp, ast.ListComp)) and isinstance(comp.elt, ast.Tuple) and len(comp.elt.elts) == 2:
            k, v = comp.elt.elts
        else:
            return False
    elif isinstance(node, ast.DictComp):
        comp = node
        k, v = node.key, node.value
    else:
        return False
    if len(comp.generators) != 1 or comp.generators[0].ifs:
        return False
    g = comp.generators[0]
    if not (isinstance(g.iter, ast.Call) and isinstance(g.iter.func, ast.Attribute) and g.iter.func.attr == 'items'
            and isinstance(g.iter.func.value, ast.Name) and g.iter.func.value.id == name):
        return False
    if not (isinstance(g.target, ast.Tuple) and len(g.target.elts) == 2 and all(isinstance(x, ast.Name) for x in g.target.elts)):
        return False
    tk, tv = g.target.elts
    return isinstance(k, ast.Name) and isinstance(v, ast.Name) and k.id == tv.id and v.id == tk.id


# ---------------------------------------------------------------------------------------
def rule_b(ctx, ix):
    R = 'C01.b'
    ctx.describe(R, 'composite evaluation shape: children evaluated with the same (data, view); n-ary or folds all', floor=6)
    a, b, c = atoms(3)
    A, B, C = Atom(a, 'A'), Atom(b, 'B'), Atom(c, 'C')
    ev = _ev(ix)
    cls = ix.cls(SUBSET + '.MultiOrState')
    f = cls.resolve_func('to_mask')
    inst = ev.instantiate(cls, [[A, B, C]], {}, f)
    t = ev.table_of(inst)
    want = a.OR(b).OR(c)
    ctx.ob(R, cls.construct, 'MultiOrState([a, b, c]) selects a | b | c', t == want,
           detail='MultiOrState([a,b,c]) evaluates to %r, expected %r (some element does not contribute, or another operator is applied)'
                  % (t, want), where=f.where)
    inst1 = ev.instantiate(cls, [[A]], {}, f)
    t1 = ev.table_of(inst1)
    ctx.ob(R, cls.construct, 'MultiOrState([a]) selects a', t1 == a,
           detail='MultiOrState([a]) evaluates to %r, expected %r' % (t1, a), where=f.where)
    # argument forwarding, collected while evaluating every composite kind
    for cname in ('AndState', 'OrState', 'XorState', 'InvertState'):
        k = ix.cls('%s.%s' % (SUBSET, cname))
        args = [A, B] if cname != 'InvertState' else [A]
        ev.table_of(ev.instantiate(k, args, {}, k.resolve_func('to_mask')))
    seen = set()
    for construct, ok, text in ev.forward_checks:
        if (construct, text) in seen:
            continue
        seen.add((construct, text))
        ctx.ob(R, construct, 'child mask requested with the same (data, view): %s' % text, ok,
               detail='child mask is not requested with exactly the caller\'s (data, view): %s' % text)


def rule_b2(ctx, ix):
    """A composite evaluates only its own operands: every to_mask() it calls is on state1 / state2 / an element of states."""
    R = 'C01.b'
    from ..flow import Flow
    for cname in ('CompositeSubsetState', 'InvertState', 'MultiOrState'):
        c = ix.cls('%s.%s' % (SUBSET, cname))
        m = c.members.get('to_mask')
        if m is None or m.func is None:
            continue
        f = m.func
        s = f.self_name

        def classify(expr, state, s=s):
            tags = set()
            for n in ast.walk(expr):
                if isinstance(n, ast.Attribute) and isinstance(n.value, ast.Name) and n.value.id == s and n.attr in ('state1', 'state2', 'states'):
                    tags.add('operand')
                elif isinstance(n, ast.Name) and n.id in state:
                    tags |= state[n.id]
            if isinstance(expr, ast.Call) and ix.resolve_class(f.module, expr.func) is not None:
                return {'constructed'}
            return tags
        sites = []

        def on_stmt(st, state):
            exprs = [st]
            if isinstance(st, (ast.If, ast.While)):
                exprs = [st.test]
            elif isinstance(st, ast.For):
                exprs = [st.iter]
            for e in exprs:
                local = dict(state)
                for n in ast.walk(e):
                    if isinstance(n, (ast.ListComp, ast.GeneratorExp, ast.SetComp)):
                        for g in n.generators:
                            tg = frozenset(classify(g.iter, local))
                            for nm in ast.walk(g.target):
                                if isinstance(nm, ast.Name):
                                    local[nm.id] = tg
                for n in ast.walk(e):
                    if isinstance(n, ast.Call) and isinstance(n.func, ast.Attribute) and n.func.attr == 'to_mask':
                        sites.append((n, classify(n.func.value, local)))
        Flow(classify, on_stmt=on_stmt).run(f.node, {})
        seen = set()
        for call, tags in sites:
            if id(call) in seen:
                continue
            seen.add(id(call))
            ctx.ob(R, f.construct, 'the mask requested by `%s` is that of an operand of the composite' % norm(call)[:60],
                   {t for t in tags if not t.startswith('<')} == {'operand'},
                   detail='%s evaluates `%s`, whose receiver is %s rather than one of the composite\'s own operands: the composite '
                          'no longer combines the masks of its parts (e.g. a comparison re-evaluated with the opposite operator instead '
                          'of negating its mask treats NaN differently)' % (f.construct, norm(call), sorted(tags) or 'unknown'),
                   where=where(f, call))


# ---------------------------------------------------------------------------------------
MODES = {
    'NewMode': lambda n, o: n,
    'ReplaceMode': lambda n, o: n,
    'AndMode': lambda n, o: n.AND(o),
    'OrMode': lambda n, o: n.OR(o),
    'XorMode': lambda n, o: n.XOR(o),
    'AndNotMode': lambda n, o: o.AND(n.NOT()),
}


def mode_edits_in_place(f):
    """Statements of an edit-mode function that write into the selection object the edited subset currently holds
    (``edit_subset.subset_state`` or a local alias of it): attribute / item stores and in-place list calls on its fields."""
    p = f.params
    old_aliases = {'%s.subset_state' % p[0]}
    for st in walk_no_nested(f.node):
        if isinstance(st, ast.Assign) and len(st.targets) == 1 and isinstance(st.targets[0], ast.Name) and unparse(st.value) in old_aliases:
            old_aliases.add(st.targets[0].id)
    edits = []
    for st in walk_no_nested(f.node):
        tg = st.targets if isinstance(st, ast.Assign) else ([st.target] if isinstance(st, ast.AugAssign) else [])
        for t_ in tg:
            if isinstance(t_, (ast.Attribute, ast.Subscript)) and unparse(t_.value) in old_aliases:
                edits.append(st)
        if isinstance(st, ast.Expr) and isinstance(st.value, ast.Call) and isinstance(st.value.func, ast.Attribute) and \
                isinstance(st.value.func.value, ast.Attribute) and unparse(st.value.func.value.value) in old_aliases and \
                st.value.func.attr in ('append', 'extend', 'insert', 'remove', 'pop', 'clear', 'update'):
            edits.append(st)
    return edits


def rule_c(ctx, ix):
    R = 'C01.c'
    ctx.describe(R, 'edit modes: truth table of the state stored into the edited subset', floor=8)
    grouped = ix.cls('glue.core.subset.Subset')
    for name, want_f in sorted(MODES.items()):
        f = ix.func('glue.core.edit_subset_mode.' + name)
        ev = _ev(ix)
        n, o = atoms(2)
        N, O = Atom(n, 'new'), Atom(o, 'old')
        es = SubsetV(O, grouped)
        p = f.params
        if len(p) != 2:
            raise AnalysisError('%s: unexpected signature' % f.construct)
        edits = mode_edits_in_place(f)
        if edits:
            ctx.ob(R, f.construct, '%s does not edit the current selection object in place' % name, False,
                   detail='%s writes into the selection object the subset currently holds (`%s`) instead of building a new state: the '
                          'snapshot taken for undo, the other members of the group and any composite built from that state hold the '
                          'same object and change with it' % (name, norm(edits[0])), where=where(f, edits[0]))
            continue
        ev.call_function(f, {p[0]: es, p[1]: N})
        t = _tab(ev, es)
        want = want_f(n, o)
        ctx.ob(R, f.construct, '%s stores the documented combination of new and current state' % name, t == want,
               detail='%s leaves the edited subset with truth table %r over (new, old), expected %r; chain: %s'
                      % (name, t, want, ' / '.join(ev.trace[-8:])), where=f.where)
    # _combine_data: new group gets a copy of the new state; otherwise the mode is applied to every edited subset
    esm = ix.cls('glue.core.edit_subset_mode.EditSubsetMode')
    f = esm.resolve_func('_combine_data')
    if f is None:
        raise AnalysisError('EditSubsetMode._combine_data vanished')
    newcalls = [c for c in calls_in(f.node) if call_name(c) == 'new_subset_group']
    ok = False
    detail = 'no call of new_subset_group in _combine_data'
    for c in newcalls:
        v = kwarg(c, 'subset_state')
        if v is None and len(c.args) >= 2:
            v = c.args[1]
        if v is None:
            detail = 'new_subset_group is called without the new state'
            continue
        ev = _ev(ix)
        n, o = atoms(2)
        try:
            val = ev.eval(v, {f.params[1]: Atom(n, 'new'), f.params[0]: SubsetV(None, None)}, f)
            ok = ev.table_of(val) == n
            copied = isinstance(v, ast.Call) and isinstance(v.func, ast.Attribute) and v.func.attr == 'copy'
            if ok and not copied:
                ok = False
                detail = 'the new group receives the caller\'s state object itself, not a copy: %s' % unparse(v)
            elif not ok:
                detail = 'new group state evaluates to %r, expected the new state %r' % (ev.table_of(val), n)
        except Undecided as exc:
            raise AnalysisError(str(exc))
    ctx.ob(R, f.construct, 'a newly created group receives a copy of the new state', ok, detail=detail, where=f.where)
    # the loop over all edited subsets
    loops = [n for n in walk_no_nested(f.node) if isinstance(n, ast.For)]
    ok = False
    detail = 'no loop applying the mode to the edited subsets'
    for lp in loops:
        tgt = lp.target.id if isinstance(lp.target, ast.Name) else None
        for c in calls_in(lp):
            if isinstance(c.func, ast.Name) and len(c.args) == 2 and isinstance(c.args[0], ast.Name) and c.args[0].id == tgt \
                    and isinstance(c.args[1], ast.Name) and c.args[1].id == f.params[1]:
                modevar = c.func.id
                it_ok = _iter_is_whole_edit_subset(lp.iter, f)
                mode_ok = _mode_var_ok(f, modevar)
                # applied unconditionally, and nothing else is applied to (subset, new state)
                from ..util import guard_chain as _gc
                _pm = parent_map(f.node)
                cond = [g for g, br in _gc(_pm, c, lp) if isinstance(g, (ast.If, ast.Try))]
                others = [x for x in calls_in(lp) if x is not c and len(x.args) == 2 and unparse(x.args[0]) == tgt
                          and unparse(x.args[1]) == f.params[1]]
                ok = it_ok and mode_ok and not cond and not others
                if not it_ok:
                    detail = 'the loop does not run over the whole edit-subset list: %s' % unparse(lp.iter)
                elif cond or others:
                    detail = ('the selected mode is applied only under a condition (%s) / another mode is applied instead (%s): for '
                              'some edited subsets the stored state is not the documented combination'
                              % ([unparse(g.test) for g in cond if isinstance(g, ast.If)], [unparse(x.func) for x in others]))
                elif not mode_ok:
                    detail = 'the applied callable is not `override_mode or self.mode`'
    ctx.ob(R, f.construct, 'the mode is applied to every edited subset with the new state', ok, detail=detail, where=f.where)


def _iter_is_whole_edit_subset(it, f):
    # as_list(subs) / subs / self._edit_subset / self.edit_subset  with subs = self._edit_subset
    if isinstance(it, ast.Call) and call_name(it) in ('as_list', 'list', 'tuple') and len(it.args) == 1:
        it = it.args[0]
    if isinstance(it, ast.Name):
        defs = [st for st in walk_no_nested(f.node) if isinstance(st, ast.Assign)
                and any(isinstance(t, ast.Name) and t.id == it.id for t in st.targets)]
        if len(defs) != 1:
            return False
        it = defs[0].value
    return isinstance(it, ast.Attribute) and isinstance(it.value, ast.Name) and it.value.id == f.self_name \
        and it.attr in ('_edit_subset', 'edit_subset')


def _mode_var_ok(f, modevar):
    defs = [st for st in walk_no_nested(f.node) if isinstance(st, ast.Assign)
            and any(isinstance(t, ast.Name) and t.id == modevar for t in st.targets)]
    if len(defs) != 1:
        return False
    v = defs[0].value
    txt = unparse(v).replace(' ', '')
    s = f.self_name
    return txt in ('override_modeor%s.mode' % s, 'override_modeor%s._mode' % s,
                   '%s.modeifoverride_modeisNoneelseoverride_mode' % s,
                   'override_modeifoverride_modeisnotNoneelse%s.mode' % s,
                   'override_modeifoverride_modeelse%s.mode' % s)


# ---------------------------------------------------------------------------------------
def rule_d(ctx, ix):
    R1, R2, R3, R4 = 'C01.d(i)', 'C01.d(ii)', 'C01.d(iii)', 'C01.d(iv)'
    ctx.describe(R1, 'composite constructors store copies of their operands', floor=2)
    ctx.describe(R2, 'copy() of every concrete selection class builds that class', floor=20)
    ctx.describe(R3, 'copy() carries every field the mask depends on', floor=15)
    ctx.describe(R4, 'in-place array writes only on fresh arrays (never on memoised masks / component storage)', floor=20)
    base = ix.cls(SUBSET + '.SubsetState')
    comp = ix.cls(SUBSET + '.CompositeSubsetState')

    # (i) ---------------------------------------------------------------------------
    f = comp.resolve_func('__init__')
    if f is None:
        raise AnalysisError('CompositeSubsetState.__init__ vanished')
    common.check_ctor_copies(ctx, R1, comp, f, params=f.params[1:3])
    # the many-way or does not copy its parts (performance), but the LIST of parts is its own: copy() hands self.states to the
    # constructor, so a constructor that keeps the list it is given makes the copy, the original and the caller's list one object
    mo = ix.cls(SUBSET + '.MultiOrState')
    g = mo.resolve_func('__init__')
    if g is None:
        raise AnalysisError('MultiOrState.__init__ vanished')
    p_ = g.params[1]
    kept = [st for st in walk_no_nested(g.node) if isinstance(st, ast.Assign) and any(
        isinstance(t, ast.Attribute) and isinstance(t.value, ast.Name) and t.value.id == g.self_name for t in st.targets)
        and any(isinstance(n_, ast.Name) and n_.id == p_ for n_ in ast.walk(st.value))]
    if not kept:
        raise AnalysisError('MultiOrState.__init__: the store of the parts is no longer recognised')
    for st in kept:
        v = st.value
        fresh = (isinstance(v, ast.Call) and isinstance(v.func, ast.Name) and v.func.id in ('list', 'tuple', 'sorted')) or \
            isinstance(v, (ast.ListComp, ast.List, ast.Tuple)) or \
            (isinstance(v, ast.Subscript) and isinstance(v.slice, ast.Slice)) or \
            (isinstance(v, ast.Call) and isinstance(v.func, ast.Attribute) and v.func.attr == 'copy')
        ctx.ob(R1, g.construct, 'the many-way or keeps a list of parts of its own', fresh,
               detail='MultiOrState.__init__ keeps the list object it is given (`%s`), and copy() passes self.states: a copy and the '
                      'original share one list, so adding a part to the copy (an edit mode that keeps repeated "or" selections flat) '
                      'changes the selection that was saved for undo - and the caller\'s list stays connected to the state' % norm(st),
               where=where(g, st))

    # (ii) --------------------------------------------------------------------------
    for c in base.subclasses():
        m = c.resolve('copy')
        if m is None or m.func is None:
            raise AnalysisError('%s has no copy()' % c.qualname)
        fn = m.func
        ok, detail = common.copy_builds_class(ix, c, fn)
        if c is base:
            ok = True   # the base state is the empty selection; SubsetState() is its faithful copy
        ctx.ob(R2, c.construct + '.copy', 'copy() returns an instance of %s' % c.name, ok,
               detail=detail, where=where(fn))

    # (iii) -------------------------------------------------------------------------
    from ..fieldflow import FieldFlow
    ff = FieldFlow(ix)
    for c in base.subclasses():
        if c is base:
            continue
        m = c.resolve('copy')
        ok2, _ = common.copy_builds_class(ix, c, m.func)
        if not ok2:
            continue     # already reported by (ii); no constructor flow to follow
        res = ff.copy_coverage(c, behaviour=['to_mask'])
        if res.unmodelled:
            ctx.unmodelled(R3, c.construct, res.unmodelled)
            continue
        cross = _ctor_cross_stores(c, res.pairs)
        ctx.ob(R3, c.construct + '.copy flow', 'copy() hands every field to the same field of the copy', not cross,
               detail='copy() of %s passes each field to the constructor, which can store %s: the constructor re-orders / normalises '
                      'its arguments, so the copy of a selection whose fields were edited after construction (every operand of a '
                      'composite is copied) evaluates differently from the original'
                      % (c.name, '; '.join('the argument read from %s into %s' % (a, b) for a, b in cross[:3])), where=where(m.func))
        missing = sorted(res.behaviour - res.carried)
        ctx.ob(R3, c.construct + '.copy', 'fields read by to_mask %s are carried by copy()' % sorted(res.behaviour),
               not missing,
               detail='copy() of %s does not carry field(s) %s that to_mask reads (a copied selection - every operand of '
                      'a composite is copied - evaluates differently)' % (c.name, missing), where=where(m.func))

    # (iv) --------------------------------------------------------------------------
    common.check_inplace_fresh(ctx, R4, ix, [
        'glue.core.subset', 'glue.core.joins', 'glue.core.fixed_resolution_buffer', 'glue.core.data',
        'glue.core.data_derived', 'glue.core.roi'],
        extra_funcs=['glue.utils.array.compute_statistic'])


# ---------------------------------------------------------------------------------------
def _ctor_cross_stores(cls, pairs):
    """[(source fields, wrong field)]: the constructor of ``cls`` can store the parameter that copy() fills from field f
    *directly* into another field g which copy() fills from g itself (a swap / re-ordering of arguments).  Only direct stores
    (`self.g = p`, possibly after `p, q = q, p`) count - a field merely computed from several parameters is not a cross flow."""
    from ..flow import Flow
    init = cls.resolve_func('__init__')
    if init is None or not pairs:
        return []
    s = init.self_name
    params = init.params[1:]
    stores = {}

    def classify(e, state):
        if isinstance(e, ast.Name):
            return {t for t in state.get(e.id, ()) if t.startswith('p:')}
        return set()

    def on_store(target, tags, state, stmt):
        if isinstance(target, ast.Attribute) and isinstance(target.value, ast.Name) and target.value.id == s:
            stores.setdefault(target.attr, set()).update(t[2:] for t in tags if t.startswith('p:'))
    fl = Flow(classify, on_store=on_store)
    fl.run(init.node, {p: frozenset(['p:' + p]) for p in params})
    own = {}
    for p, sb, db in pairs:
        for g in sb & db:
            own[g] = p.lstrip('*')
    out = []
    for p, sb, db in pairs:
        p = p.lstrip('*')
        for g, ps in sorted(stores.items()):
            if p in ps and g not in sb and g in own and own[g] != p and (sb & db):
                out.append((sorted(sb), g))
    return out


def rule_e(ctx, ix):
    R = 'C01.e'
    ctx.describe(R, 'Data.get_mask falls back to key joins only on IncompatibleAttribute, forwarding (state, view)', floor=3)
    data = ix.cls('glue.core.data.Data')
    f = data.resolve_func('get_mask')
    if f is None:
        raise AnalysisError('Data.get_mask vanished')
    tries = [n for n in walk_no_nested(f.node) if isinstance(n, ast.Try)]
    if len(tries) != 1:
        raise AnalysisError('Data.get_mask: expected exactly one try block')
    t = tries[0]
    p = f.params
    ss, view = p[1], (p[2] if len(p) > 2 else 'view')
    prim = [c for st in t.body for c in calls_in(st) if call_name(c) == 'to_mask']
    ok = False
    for c in prim:
        v = kwarg(c, 'view') or (c.args[1] if len(c.args) > 1 else None)
        ok = (isinstance(c.func.value, ast.Name) and c.func.value.id == ss and c.args
              and isinstance(c.args[0], ast.Name) and c.args[0].id == p[0]
              and isinstance(v, ast.Name) and v.id == view)
    ctx.ob(R, f.construct, 'primary path evaluates subset_state.to_mask(self, view)', ok,
           detail='get_mask does not evaluate the given state on itself with the given view', where=f.where)
    hs = t.handlers
    types = []
    for h in hs:
        if h.type is None:
            types.append('<bare>')
        elif isinstance(h.type, ast.Tuple):
            types += [ix.resolve_expr(f.module, e) for e in h.type.elts]
        else:
            types.append(ix.resolve_expr(f.module, h.type))
    ctx.ob(R, f.construct, 'the fallback handler catches exactly IncompatibleAttribute',
           types == ['glue.core.exceptions.IncompatibleAttribute'],
           detail='get_mask falls back to key joins on %s (an unrelated error inside a selection would silently become '
                  'a join lookup, or an incompatible selection would not fall back)' % types, where=f.where)
    ok = False
    for h in hs:
        for c in calls_in(h):
            if call_name(c) == 'get_mask_with_key_joins':
                names = [unparse(a) for a in c.args] + ['%s=%s' % (k.arg, unparse(k.value)) for k in c.keywords]
                v = kwarg(c, 'view') or (c.args[3] if len(c.args) > 3 else None)
                ok = (len(c.args) >= 3 and unparse(c.args[0]) == p[0] and unparse(c.args[2]) == ss
                      and unparse(c.args[1]) in ('%s._key_joins' % p[0],)
                      and isinstance(v, ast.Name) and v.id == view)
    ctx.ob(R, f.construct, 'the fallback forwards the same (state, view) to the key-join routine', ok,
           detail='the key-join fallback is not called with (self, self._key_joins, subset_state, view=view)', where=f.where)


# ---------------------------------------------------------------------------------------
def rule_f(ctx, ix):
    R = 'C01.f'
    ctx.describe(R, 'memoize: key covers args and kwargs; stored value is func(*args, **kwargs) of the same call', floor=4)
    f = ix.func('glue.core.decorators.memoize')
    wrappers = [n for n in f.node.body if isinstance(n, ast.FunctionDef)]
    if len(wrappers) != 1:
        raise AnalysisError('memoize: expected one inner wrapper function')
    w = wrappers[0]
    a = w.args
    if a.vararg is None or a.kwarg is None or a.args:
        raise AnalysisError('memoize wrapper signature is not (*args, **kwargs)')
    va, kw = a.vararg.arg, a.kwarg.arg
    # key = _make_key(args, kwargs) or inline expression depending on both
    # the cache is the dict registered for clear_all_caches; the key is whatever it is subscripted with
    regs = [c for c in calls_in(f.node) if call_name(c) == 'append' and '_MEMOIZE_CACHES' in unparse(c.func) and c.args
            and isinstance(c.args[0], ast.Name)]
    if len(regs) != 1:
        raise AnalysisError('memoize: the cache is not registered exactly once for clear_all_caches')
    memo = regs[0].args[0].id
    subs = [n for n in ast.walk(w) if isinstance(n, ast.Subscript) and isinstance(n.value, ast.Name) and n.value.id == memo]
    keys = {unparse(n.slice) for n in subs}
    if len(keys) != 1 or not all(isinstance(n.slice, ast.Name) for n in subs):
        raise AnalysisError('memoize: the cache is subscripted with %s (expected one key name)' % sorted(keys))
    key = keys.pop()
    keydefs = [st for st in ast.walk(w) if isinstance(st, ast.Assign) and len(st.targets) == 1
               and isinstance(st.targets[0], ast.Name) and st.targets[0].id == key]
    if not keydefs:
        raise AnalysisError('memoize: no assignment to the cache key `%s`' % key)
    for kd in keydefs:
        deps = _key_deps(ix, f.module, kd.value, va, kw)
        ctx.ob(R, f.construct, 'cache key depends on positional and keyword arguments', deps == {va, kw},
               detail='memo key %s depends only on %s: calls differing in the other argument kind share a cache entry '
                      '(to_mask(data, view=v1) would answer for view=v2)' % (unparse(kd.value), sorted(deps)),
               where='%s:%d' % (f.module.relpath, kd.lineno))
    # ... and is injective in them: the arguments become part of the key as they are
    for kd in keydefs:
        exprs = [kd.value]
        if isinstance(kd.value, ast.Call) and isinstance(kd.value.func, ast.Name):
            helper = ix.functions.get(ix.resolve_expr(f.module, kd.value.func))
            if helper is not None:
                exprs = [r.value for r in returns_of(helper) if r.value is not None]
        converted, unknown = [], []
        for e in exprs:
            for n in ast.walk(e):
                if isinstance(n, (ast.GeneratorExp, ast.ListComp, ast.SetComp, ast.DictComp)):
                    elts = [n.key, n.value] if isinstance(n, ast.DictComp) else [n.elt]
                    converted += [c for el in elts for c in ast.walk(el) if isinstance(c, ast.Call)]
                elif isinstance(n, ast.Call) and call_name(n) not in ('frozenset', 'tuple', 'sorted', 'items', 'dict'):
                    inside = any(n in list(ast.walk(el)) for m in ast.walk(e) if isinstance(m, (ast.GeneratorExp, ast.ListComp, ast.SetComp))
                                 for el in [m.elt])
                    if not inside:
                        unknown.append(n)
        ctx.idiom(R, f.construct + ' key', 'the arguments enter the key unconverted', accepted=not converted and not unknown, absent=bool(converted),
                  detail_absent='the memo key converts each argument with `%s` before using it: arguments that differ but convert to the same '
                                'value share a cache entry (a list view [0, 1] - fancy indexing - and the tuple view (0, 1) - one element - '
                                'select different elements, and the second call is answered with the mask of the first)'
                                % (unparse(converted[0]) if converted else ''),
                  shape='; '.join(unparse(u) for u in unknown)[:200], where='%s:%d' % (f.module.relpath, kd.lineno))
    # every store memo[key] = X: X is func(*args, **kwargs)
    stores = [st for st in ast.walk(w) if isinstance(st, ast.Assign) and isinstance(st.targets[0], ast.Subscript)
              and isinstance(st.targets[0].value, ast.Name) and st.targets[0].value.id == memo]
    if not stores:
        raise AnalysisError('memoize: no store into the cache')
    pm = parent_map(w)
    for st in stores:
        key_ok = isinstance(st.targets[0].slice, ast.Name) and st.targets[0].slice.id == key
        val = st.value
        ok = key_ok and _is_full_call(val, f.params[0], va, kw)
        if key_ok and isinstance(val, ast.Name):
            # the definition of the stored name that reaches the store: the nearest preceding one in the same block, else the only one
            blk = pm.get(id(st))
            seq = []
            for fld in ('body', 'orelse', 'finalbody'):
                if st in (getattr(blk, fld, None) or []):
                    seq = getattr(blk, fld)
            prev = [s for s in seq[:seq.index(st)] if isinstance(s, ast.Assign) and isinstance(s.targets[0], ast.Name)
                    and s.targets[0].id == val.id] if seq else []
            rd = prev[-1:] or [s for s in ast.walk(w) if isinstance(s, ast.Assign) and isinstance(s.targets[0], ast.Name)
                               and s.targets[0].id == val.id]
            ok = len(rd) == 1 and _is_full_call(rd[0].value, f.params[0], va, kw)
        ctx.ob(R, f.construct, 'value cached under key is func(*args, **kwargs)', ok,
               detail='memo store %s does not cache the result of func(*args, **kwargs) under key' % norm(st),
               where='%s:%d' % (f.module.relpath, st.lineno))
    # every return is memo[key], the fresh result, or an uncached full call
    for r in [n for n in ast.walk(w) if isinstance(n, ast.Return)]:
        v = r.value
        ok = False
        def cached(x):
            if isinstance(x, ast.Call) and isinstance(x.func, ast.Attribute) and x.func.attr == 'get' and isinstance(x.func.value, ast.Name) \
                    and x.func.value.id == memo and x.args and isinstance(x.args[0], ast.Name) and x.args[0].id == key:
                return True         # memo.get(key, <sentinel>): the same read
            return isinstance(x, ast.Subscript) and isinstance(x.value, ast.Name) and x.value.id == memo \
                and isinstance(x.slice, ast.Name) and x.slice.id == key
        if cached(v) or _is_full_call(v, f.params[0], va, kw):
            ok = True
        elif isinstance(v, ast.Name):
            rd = [s for s in ast.walk(w) if isinstance(s, ast.Assign) and isinstance(s.targets[0], ast.Name)
                  and s.targets[0].id == v.id]

            def sentinel_replaced(s):
                # `name = <sentinel>` is fine when `if name is <sentinel>: name = func(*args, **kwargs)` follows
                if not isinstance(s.value, (ast.Name, ast.Constant)):
                    return False
                for i in ast.walk(w):
                    if isinstance(i, ast.If) and unparse(i.test).replace(' ', '') == '%sis%s' % (v.id, unparse(s.value)) and \
                            any(isinstance(b, ast.Assign) and unparse(b.targets[0]) == v.id and _is_full_call(b.value, f.params[0], va, kw)
                                for b in i.body):
                        return True
                return False
            ok = bool(rd) and all(cached(s.value) or _is_full_call(s.value, f.params[0], va, kw) or sentinel_replaced(s) for s in rd)
        ctx.ob(R, f.construct, 'wrapper returns memo[key] or func(*args, **kwargs)', ok,
               detail='memoize wrapper returns %s' % norm(r), where='%s:%d' % (f.module.relpath, r.lineno))


def _is_full_call(v, fname, va, kw):
    if not (isinstance(v, ast.Call) and isinstance(v.func, ast.Name) and v.func.id == fname):
        return False
    st = [a for a in v.args if isinstance(a, ast.Starred) and isinstance(a.value, ast.Name) and a.value.id == va]
    kws = [k for k in v.keywords if k.arg is None and isinstance(k.value, ast.Name) and k.value.id == kw]
    return len(st) == 1 and len(kws) == 1 and len(v.args) == 1 and len(v.keywords) == 1


def _key_deps(ix, module, expr, va, kw):
    """Which of (args, kwargs) the key expression depends on; follows one helper call."""
    deps = set()
    if isinstance(expr, ast.Call) and isinstance(expr.func, ast.Name):
        q = ix.resolve_expr(module, expr.func)
        helper = ix.functions.get(q)
        if helper is not None:
            # map helper params to actual args, then see which params its returns depend on
            pmap = {}
            for p, a in zip(helper.params, expr.args):
                pmap[p] = {n.id for n in ast.walk(a) if isinstance(n, ast.Name)} & {va, kw}
            for k in expr.keywords:
                if k.arg:
                    pmap[k.arg] = {n.id for n in ast.walk(k.value) if isinstance(n, ast.Name)} & {va, kw}
            for r in returns_of(helper):
                if r.value is None:
                    continue
                for n in ast.walk(r.value):
                    if isinstance(n, ast.Name) and n.id in pmap:
                        deps |= pmap[n.id]
            return deps
    for n in ast.walk(expr):
        if isinstance(n, ast.Name) and n.id in (va, kw):
            deps.add(n.id)
    return deps


def run_thorough(ctx):
    """Package-wide sweep of the fresh-before-mutate rule (every module under glue/core, glue/utils and the viewers)."""
    ix = ctx.index
    R = 'C01.d(iv)+'
    ctx.describe(R, 'package-wide: in-place array writes only on fresh arrays')
    mods = sorted(m for m in ix.modules if m.startswith(('glue.core', 'glue.utils'))
                  and not m.startswith('glue.core.data_factories') and not m.startswith('glue.core.data_exporters'))
    done = {'glue.core.subset', 'glue.core.joins', 'glue.core.fixed_resolution_buffer', 'glue.core.data',
            'glue.core.data_derived', 'glue.core.roi'}
    from . import common as _c
    _c.check_inplace_fresh(ctx, R, ix, [m for m in mods if m not in done], exceptions={})


def rule_g(ctx, ix):
    """Where a selection is handed from one subset to another it is copied (the two subsets must not share one state)."""
    R = 'C01.g'
    ctx.describe(R, 'hand-over of a selection between subsets copies it', floor=3)
    rows = [('glue.core.subset.Subset', 'paste'), ('glue.core.subset_group.SubsetGroup', 'paste'),
            ('glue.core.data.BaseData', 'new_subset')]
    for cq, meth in rows:
        c = ix.cls(cq)
        f = c.resolve_func(meth)
        if f is None:
            raise AnalysisError('%s.%s vanished' % (cq, meth))
        src = f.params[1]
        stores = [st for st in walk_no_nested(f.node) if isinstance(st, ast.Assign)
                  and unparse(st.targets[0]).endswith('.subset_state')]
        if not stores:
            raise AnalysisError('%s: no store of a subset state' % f.construct)
        for st in stores:
            v = st.value
            if isinstance(v, ast.Name):
                defs = [d for d in walk_no_nested(f.node) if isinstance(d, ast.Assign) and unparse(d.targets[0]) == v.id]
                v = defs[-1].value if defs else v
            from_src = any(isinstance(n, ast.Name) and n.id == src for n in ast.walk(v))
            if not from_src:
                continue
            copied = isinstance(v, ast.Call) and isinstance(v.func, ast.Attribute) and v.func.attr in ('copy', 'deepcopy')
            ctx.ob(R, f.construct, 'the state taken from the other subset is copied', copied,
                   detail='%s stores `%s` - the other subset\'s state object itself: the two subsets share one state, so editing '
                          'one (move_to, an edit mode applied to one of them) alters the other' % (f.construct, unparse(v)),
                   where=where(f, st))


MUTATORS = ('append', 'extend', 'insert', 'remove', 'pop', 'sort', 'reverse', 'clear', 'update', 'add', 'discard', 'setdefault', 'popitem')
FRESH_WRAPPERS = ('tuple', 'list', 'sorted', 'set', 'frozenset', 'dict', 'OrderedDict', 'copy', 'deepcopy')


def _stored_collections(ix, classes):
    """{property name: [(class, field)]} for the properties of the given classes that hand out a stored collection itself:
    the getter returns `self.<field>` as it is (no tuple(...) / copy around it) and the class uses that field as a collection
    (iterates it, takes its length, subscripts it, compares it with a list)."""
    out = {}
    examined = 0
    for c in classes:
        fields_used_as_collection = set()
        getters = {}
        for name, m in c.members.items():
            if m.kind == 'property' and m.fget is not None and m.fget.cls is c:
                examined += 1
                rets = [r.value for r in returns_of(m.fget) if r.value is not None]
                s_ = m.fget.self_name
                if rets and all(isinstance(v, ast.Attribute) and isinstance(v.value, ast.Name) and v.value.id == s_ for v in rets):
                    getters[name] = {v.attr for v in rets}
        if not getters:
            continue
        alias = {}          # property / field name -> field
        for p_, fs in getters.items():
            for f_ in fs:
                alias[p_] = f_
                alias[f_] = f_
        for name, m in c.members.items():
            for f in (m.func, m.fget, m.fset):
                if f is None or f.cls is not c:
                    continue
                s_ = f.self_name

                def fld(e, s_=s_):
                    return alias.get(e.attr) if isinstance(e, ast.Attribute) and isinstance(e.value, ast.Name) and e.value.id == s_ else None
                for n in ast.walk(f.node):
                    cands = []
                    if isinstance(n, (ast.For, ast.comprehension)):
                        cands.append(n.iter)
                    elif isinstance(n, ast.Call) and isinstance(n.func, ast.Name) and n.func.id in ('len', 'zip', 'enumerate', 'sorted', 'list', 'tuple', 'set'):
                        cands += list(n.args)
                    elif isinstance(n, ast.Subscript):
                        cands.append(n.value)
                    elif isinstance(n, ast.ListComp):
                        pass
                    for e in cands:
                        k = fld(e)
                        if k:
                            fields_used_as_collection.add(k)
        for p_, fs in getters.items():
            for f_ in fs:
                if f_ in fields_used_as_collection:
                    out.setdefault(p_, []).append((c.qualname, f_))
    return out, examined


def _borrowed_mutations(fnode, mutable_props):
    """[(statement, name, what it was read from)] - a local bound to `<object>.<P>` (P hands out a stored collection) that is
    then extended / changed in place: the change lands in the object the value was read from."""
    bound = {}
    for st in walk_no_nested(fnode):
        if isinstance(st, ast.Assign) and len(st.targets) == 1 and isinstance(st.targets[0], ast.Name):
            v = st.value
            if isinstance(v, ast.Attribute) and v.attr in mutable_props:
                bound.setdefault(st.targets[0].id, []).append(v)
    hits = []
    if not bound:
        return hits
    for st in walk_no_nested(fnode):
        if isinstance(st, ast.AugAssign) and isinstance(st.target, ast.Name) and st.target.id in bound and \
                isinstance(st.op, (ast.Add, ast.BitOr, ast.BitAnd, ast.Mult, ast.Sub, ast.BitXor)):
            hits.append((st, st.target.id, bound[st.target.id][0]))
        elif isinstance(st, ast.Expr) and isinstance(st.value, ast.Call) and isinstance(st.value.func, ast.Attribute) and \
                st.value.func.attr in MUTATORS and isinstance(st.value.func.value, ast.Name) and st.value.func.value.id in bound:
            hits.append((st, st.value.func.value.id, bound[st.value.func.value.id][0]))
        elif isinstance(st, (ast.Assign, ast.Delete)):
            for t in (st.targets if isinstance(st, (ast.Assign, ast.Delete)) else []):
                if isinstance(t, ast.Subscript) and isinstance(t.value, ast.Name) and t.value.id in bound:
                    hits.append((st, t.value.id, bound[t.value.id][0]))
    return hits


def rule_h(ctx, ix):
    """Looking at a combined selection (its attributes, its parts) does not change the operands: a collection read from an
    operand through a property that hands out the stored object itself is never extended or edited in place."""
    R = 'C01.h'
    ctx.describe(R, 'collections read from an operand (attributes, cids, states ...) are not extended or edited in place', floor=1)
    base = ix.cls(SUBSET + '.SubsetState')
    classes = [c for c in base.subclasses() if c.module.name.startswith('glue.')]
    props_, examined = _stored_collections(ix, classes)
    if examined < 20:
        raise AnalysisError('C01.h: only %d properties of selection classes examined' % examined)
    # the detector must recognise the pattern it is looking for (kept so that an empty result is not a vacuous pass)
    probe = ast.parse('def attributes(self):\n    att = self.state1.attributes\n    att += self.state2.attributes\n    return tuple(att)\n').body[0]
    if not _borrowed_mutations(probe, {'attributes'}):
        raise AnalysisError('C01.h: the detector no longer recognises its reference example')
    n = 0
    for mname in ('glue.core.subset', 'glue.core.edit_subset_mode', 'glue.core.subset_group'):
        m = ix.module(mname)
        views = common.function_views(ix)
        owner = {id(fn): cn.name for cn in ast.walk(m.tree) if isinstance(cn, ast.ClassDef) for fn in cn.body
                 if isinstance(fn, (ast.FunctionDef, ast.AsyncFunctionDef))}
        for raw in ast.walk(m.tree):
            if not isinstance(raw, (ast.FunctionDef, ast.AsyncFunctionDef)):
                continue
            node = views(raw)
            fq = '%s%s' % (owner[id(raw)] + '.' if id(raw) in owner else '', raw.name)
            if node is None:
                continue
            n += 1
            for st, name, src in _borrowed_mutations(node, set(props_)):
                who = ', '.join('%s.%s' % (cq.rsplit('.', 1)[-1], f_) for cq, f_ in props_[src.attr][:3])
                ctx.ob(R, '%s:%s `%s`' % (mname, fq, norm(st)), 'no in-place change of a collection read from another object', False,
                       detail='%s.%s binds `%s = %s` and then changes it in place with `%s`: `.%s` can be the stored collection itself '
                              '(%s is returned as it is), so looking at the combined selection extends the list of its operand - for a '
                              'mask selection made by `subset.subset_state = <array>` that list is the dataset\'s own '
                              'pixel_component_ids' % (mname, fq, name, unparse(src), norm(st), src.attr, who),
                       where='%s:%d' % (m.relpath, getattr(st, '_orig_lineno', st.lineno)))
    ctx.ob(R, 'selection modules', 'every function of the selection modules was scanned for in-place changes of borrowed collections '
           '(%d functions; properties that hand out a stored collection: %s)' % (n, ', '.join(sorted(props_)) or 'none'), n >= 100,
           detail='only %d functions scanned' % n)


def rule_i(ctx, ix):
    """The masks of a selection are memoised per (state, data, view) - also the masks of the selections it is a part of.  When a
    field of a selection is re-assigned, every cache has to be dropped: the flush in SubsetState.__setattr__ may depend on
    whether the attribute already exists and on nothing else (the edited state's own kind says nothing about the composites
    that contain it), and move_to(), which edits the region object behind the state, flushes too."""
    from .. import cond
    R = 'C01.i'
    ctx.describe(R, 're-assigning a field of a selection drops every memoised mask, whatever kind of selection is edited', floor=3)
    base = ix.cls(SUBSET + '.SubsetState')
    f = base.resolve_func('__setattr__')
    if f is None:
        raise AnalysisError('SubsetState.__setattr__ vanished')
    name_p = f.params[1]
    pm = parent_map(f.node)

    def stmt_of(c):
        st = c
        while st is not None and not isinstance(st, ast.stmt):
            st = pm.get(id(st))
        return st
    flushes = [c for c in calls_in(f.node) if call_name(c) == 'clear_all_caches']
    ctx.ob(R, f.construct, 'the setter flushes the mask caches', bool(flushes),
           detail='SubsetState.__setattr__ no longer calls clear_all_caches(): a selection that was evaluated, then edited, keeps '
                  'answering with the mask of its old definition', where=f.where)
    exists = cond.T('in|%s|%s.__dict__' % (name_p, f.self_name))
    for c in flushes:
        st = stmt_of(c)
        pc = cond.path_condition(f.node, st, expand=True) or ('const', True)
        try:
            ok = cond.implies(exists, pc)        # flushed whenever the attribute exists already (or always)
        except ValueError:
            ok = False
        ctx.ob(R, f.construct + ' guard', 'the flush runs whenever an existing attribute is re-assigned', ok,
               detail='SubsetState.__setattr__ flushes the caches only under `%s`: re-assigning a field of a selection of another kind '
                      '(a range, a region, a mask - whose own to_mask is not memoised) leaves the memoised masks of the combined '
                      'selections that contain it in place, and they keep answering with the old definition' % (pc,),
               where=where(f, st))
    # the store itself happens on every path
    ok = False
    for c in calls_in(f.node):
        if call_name(c) == '__setattr__':
            pc = cond.path_condition(f.node, stmt_of(c), expand=True)
            ok = ok or pc in (None, ('const', True))
    ctx.ob(R, f.construct + ' store', 'the attribute is stored on every path', ok,
           detail='SubsetState.__setattr__ does not store the attribute unconditionally', where=f.where)
    # no subclass replaces the setter without going through it
    for c in base.subclasses(strict=True):
        m = c.members.get('__setattr__')
        if m is None or m.func is None:
            continue
        sup = any(isinstance(x, ast.Call) and call_name(x) == '__setattr__' and 'super' in unparse(x.func) for x in ast.walk(m.func.node))
        fl = any(call_name(x) == 'clear_all_caches' for x in calls_in(m.func.node))
        ctx.ob(R, m.func.construct, 'an overriding setter still flushes (through the base setter or itself)', sup or fl,
               detail='%s overrides __setattr__ without calling the base setter or clear_all_caches()' % m.func.construct, where=m.func.where)
    # move_to edits the region behind the state without assigning a field: it has to flush itself
    for c in base.subclasses():
        m = c.members.get('move_to')
        if m is None or m.func is None or m.func.cls is not c:
            continue
        g = m.func
        assigns_field = any(isinstance(x, (ast.Assign, ast.AugAssign)) and any(
            isinstance(t, ast.Attribute) and isinstance(t.value, ast.Name) and t.value.id == g.self_name
            for t in (x.targets if isinstance(x, ast.Assign) else [x.target])) for x in ast.walk(g.node))
        flush = any(call_name(x) == 'clear_all_caches' for x in calls_in(g.node))
        delegating = any(call_name(x) == 'move_to' and unparse(x.func).startswith(g.self_name + '.state') for x in calls_in(g.node))
        # nothing of the selection is touched: no call on anything reached through self
        trivial = not any(isinstance(x, ast.Call) and isinstance(x.func, ast.Attribute) and unparse(x.func).startswith(g.self_name + '.')
                          for x in ast.walk(g.node))
        ctx.ob(R, g.construct, 'move_to re-assigns a field (flushing through the setter), flushes itself, or only delegates to its parts',
               assigns_field or flush or trivial or delegating,
               detail='%s changes the selection without re-assigning a field and without clear_all_caches(): masks memoised before the '
                      'move are served afterwards' % g.construct, where=g.where)


def rule_j(ctx, ix):
    """The edit mode is applied to EVERY subset being edited: the loop of the dispatcher hands each of them to the mode function
    without looking at the subset first (what `x ^ x` or `x & ~x` is, is for the mode to compute, not for the dispatcher to skip)."""
    from .. import cond
    R = 'C01.j'
    ctx.describe(R, 'the edit-mode dispatcher applies the mode to every edited subset unconditionally', floor=1)
    c = ix.cls('glue.core.edit_subset_mode.EditSubsetMode')
    f = c.resolve_func('_combine_data')
    if f is None:
        raise AnalysisError('EditSubsetMode._combine_data vanished')
    pm = parent_map(f.node)
    # the variable holding the mode: `mode = override_mode or self.mode`
    calls = []
    for st in walk_no_nested(f.node):
        if isinstance(st, ast.Expr) and isinstance(st.value, ast.Call) and isinstance(st.value.func, ast.Name) and len(st.value.args) == 2 \
                and st.value.func.id not in ('as_list', 'list', 'print'):
            lp = pm.get(id(st))
            while lp is not None and not isinstance(lp, (ast.For, ast.While)):
                lp = pm.get(id(lp))
            if isinstance(lp, ast.For) and unparse(st.value.args[0]) in [n.id for n in ast.walk(lp.target) if isinstance(n, ast.Name)]:
                calls.append((st, lp))
    if not calls:
        raise AnalysisError('EditSubsetMode._combine_data: applying the mode to each edited subset is no longer recognised')
    for st, lp in calls:
        pc = cond.path_condition(f.node, st, expand=False) or ('const', True)      # relative to the loop body
        ctx.ob(R, f.construct, 'inside the loop over the edited subsets the mode is applied without a test on the subset', pc == ('const', True),
               detail='EditSubsetMode._combine_data applies the mode only under `%s`: a subset that is skipped keeps its selection although '
                      'the operation may change it (xor or and-not of a selection with itself is empty) - the result is no longer the '
                      'Boolean operation applied to the masks of the parts' % (pc,), where=where(f, st))
        src = unparse(lp.iter)
        whole = not any(isinstance(x, (ast.GeneratorExp, ast.ListComp)) and any(g.ifs for g in x.generators) for x in ast.walk(lp.iter)) and \
            'filter(' not in src and not any(isinstance(x, ast.Subscript) and isinstance(x.slice, ast.Slice) for x in ast.walk(lp.iter))
        ctx.ob(R, f.construct + ' subsets', 'the loop runs over all edited subsets', whole,
               detail='EditSubsetMode._combine_data iterates `%s`, a filtered part of the edited subsets' % src, where=where(f, lp))
