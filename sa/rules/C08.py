"""C08 - region containment is geometrically exact and equivariant under move/rotate/copy (partial)."""
import ast

from ..index import AnalysisError, dotted_chain, norm, unparse, walk_no_nested, body_stmts
from ..effects import EffectAnalyzer
from ..fieldflow import base_field
from ..flow import Flow
from ..serial import Registry
from ..util import calls_in, call_name, where, returns_of
from .. import props
from ..util import expand_locals, parent_map
from . import common
from . import C02

props.prop(
    'C08',
    explanation='Static (ast) decision of the structural clauses behind move/copy/save equivariance of regions: move_to '
                'writes exactly the fields the reported centre is computed from, with the x displacement going to x-fields and '
                'the y displacement to y-fields (dataflow, no naming convention); copy/save/restore carry every field that '
                'contains() reads; the chunked 3-d projection writes each chunk back to the slices it was read from.',
    decides='move/centre field consistency for every region class, field coverage of copy/saver/loader w.r.t. contains(), '
            'chunk read/write pairing in contains3d',
    not_decided='that contains() answers the geometric question (comparisons, rotation numerics, polygon discretisation, '
                'tolerance at the boundary)',
    assumptions=['copy.copy copies every instance field'])
props.also('C08',
           'that on the general-angle branch the pre-selection half-extent uses both radii; that the polygon helpers are scale-free (shared with C09.g); that move / rotate never write into a container a shallow copy shares; that the period of every angle shortcut is a symmetry of the shape (quarter-turn tests only behind the half-turn test; polygons: whole turns)')

ROI = 'glue.core.roi.Roi'


def run(ctx):
    ix = ctx.index
    ctx.guard(rule_a, ctx, ix)
    ctx.guard(rule_b, ctx, ix)
    ctx.guard(rule_c, ctx, ix)
    ctx.guard(rule_d, ctx, ix)
    ctx.guard(rule_e, ctx, ix)
    ctx.guard(rule_f, ctx, ix)
    ctx.guard(rule_g, ctx, ix)
    ctx.guard(rule_h, ctx, ix)
    ctx.guard(rule_j, ctx, ix)
    ctx.guard(rule_k, ctx, ix)
    # a region's containment test must not depend on the absolute size of the numbers: the scale-free rule of the polygon helpers
    from ..report import BorrowedCtx
    from .C09 import rule_g as _scale_free
    ctx.guard(_scale_free, BorrowedCtx(ctx, {'C09.g': 'C08.i'}), ix)


def _concrete(f):
    """A method that does more than raise NotImplementedError."""
    if f is None:
        return False
    body = body_stmts(f.node)
    return not (len(body) == 1 and isinstance(body[0], ast.Raise))


def rule_a(ctx, ix):
    R = 'C08.a'
    ctx.describe(R, 'move_to writes the fields center() reads; x goes to x-fields and y to y-fields', floor=12)
    roi = ix.cls(ROI)
    ea = EffectAnalyzer(ix)
    n = 0
    for c in roi.subclasses(strict=True):
        mv, ce = c.resolve_func('move_to'), c.resolve_func('center')
        if not _concrete(mv) or not _concrete(ce):
            continue
        n += 1
        # delegation (Projected3dROI): forwards both coordinates in order
        deleg = [x for x in calls_in(mv.node) if call_name(x) == 'move_to' and isinstance(x.func.value, ast.Attribute)]
        if deleg:
            ok = [unparse(a) for a in deleg[0].args] == mv.params[1:]
            cdel = any(call_name(x) == 'center' and unparse(x.func.value) == unparse(deleg[0].func.value) for x in calls_in(ce.node))
            ctx.ob(R, mv.construct, 'move_to delegates both coordinates, in order, to the region center() delegates to', ok and cdel,
                   detail='%s does not forward (x, y) in order to the same inner region that center() reports' % mv.construct, where=mv.where)
            continue
        w = {base_field(x) for x in ea.func_effects(c, mv).writes}
        r = {base_field(x) for x in ea.func_effects(c, ce).reads}
        ctx.ob(R, mv.construct, 'move_to writes exactly the fields center() is computed from (%s)' % sorted(r), w == r,
               detail='%s.move_to writes %s but center() is computed from %s: %s' % (
                   c.name, sorted(w), sorted(r),
                   'moving leaves field(s) %s behind, so the reported centre (and the contained set) is not translated by the '
                   'displacement' % sorted(r - w) if r - w else 'move_to also changes %s' % sorted(w - r)), where=mv.where)
        # axis separation
        rets = [x for x in returns_of(ce) if isinstance(x.value, ast.Tuple) and len(x.value.elts) == 2]
        if len(mv.params) != 3 or len(rets) != len(returns_of(ce)) or not rets:
            continue
        selfname = ce.self_name

        def reads_of(expr):
            out = set()
            for nn in ast.walk(expr):
                if isinstance(nn, ast.Attribute) and isinstance(nn.value, ast.Name) and nn.value.id == selfname:
                    m = c.resolve(nn.attr)
                    if m is not None and m.func is not None:
                        out |= {base_field(z) for z in ea.func_effects(c, m.func).reads}
                    elif m is not None and m.kind == 'property' and m.fget is not None:
                        out |= {base_field(z) for z in ea.func_effects(c, m.fget).reads}
                    else:
                        out.add(nn.attr)
            return out
        fx, fy = set(), set()
        for rt in rets:
            fx |= reads_of(rt.value.elts[0])
            fy |= reads_of(rt.value.elts[1])
        if fx & fy or not fx or not fy:
            ctx.exception(R, c.construct, 'centre is not separable per axis (x and y of the centre share fields %s): only the '
                                          'write-set equality is checked' % sorted(fx & fy))
            continue
        px, py = mv.params[1], mv.params[2]
        ms = mv.self_name

        def classify(expr, state):
            tags = set()
            for nn in ast.walk(expr):
                if isinstance(nn, ast.Name) and nn.id in state:
                    tags |= state[nn.id]
            return tags
        stores = []

        def on_stmt(st, state):
            tgt = None
            if isinstance(st, ast.AugAssign):
                tgt = st.target
            if tgt is not None and isinstance(tgt, ast.Attribute) and isinstance(tgt.value, ast.Name) and tgt.value.id == ms:
                stores.append((tgt.attr, classify(st.value, state), st))

        def on_store(target, tags, state, st):
            if isinstance(target, ast.Attribute) and isinstance(target.value, ast.Name) and target.value.id == ms:
                stores.append((target.attr, set(tags), st))
        fl = Flow(classify, on_stmt=on_stmt, on_store=on_store)
        fl.run(mv.node, {px: frozenset(['X']), py: frozenset(['Y'])})
        for fld, tags, st in stores:
            tags = {t for t in tags if t in ('X', 'Y')}
            if fld in fx:
                ok = tags == {'X'}
                want = 'x'
            elif fld in fy:
                ok = tags == {'Y'}
                want = 'y'
            else:
                continue
            ctx.ob(R, '%s `%s`' % (mv.construct, norm(st)), '%s (an %s-field of the centre) is moved by the %s displacement only' % (fld, want, want),
                   ok,
                   detail='%s updates %s, which the %s coordinate of the centre is computed from, with a value that depends on %s: '
                          'the region is displaced along the wrong axis' % (mv.construct, fld, want,
                                                                            sorted(tags) or 'neither coordinate'), where=where(mv, st))
    if n < 8:
        raise AnalysisError('only %d region classes with concrete move_to/center found' % n)


def rule_b(ctx, ix):
    reg = Registry(ix)
    classes = C02.rule_b(ctx, ix, reg, R='C08.b(class)', floor=10, only_root=ROI)
    C02.rule_c(ctx, ix, reg, classes, R1='C08.b(i)', R2='C08.b(ii)', floors=(20, 8))
    R = 'C08.b(copy)'
    ctx.describe(R, 'Roi.copy copies every field', floor=1)
    roi = ix.cls(ROI)
    for c in roi.subclasses():
        m = c.resolve('copy')
        if m is None or m.func is None:
            raise AnalysisError('%s has no copy()' % c.qualname)
        rets = returns_of(m.func)
        ok = len(rets) == 1 and rets[0].value is not None and unparse(rets[0].value) in ('copy.copy(self)', 'copy.deepcopy(self)')
        if m.owner is not roi or not ok:
            ctx.ob(R, c.construct + '.copy', 'copy() is copy.copy(self) (all fields)', ok,
                   detail='%s.copy is %s - not a whole-object copy; fields read by contains() may be lost' % (c.name, norm(rets[0]) if rets else None),
                   where=where(m.func))
    f = roi.resolve_func('copy')
    rets = returns_of(f)
    ctx.ob(R, f.construct, 'Roi.copy is copy.copy(self)', len(rets) == 1 and unparse(rets[0].value) in ('copy.copy(self)', 'copy.deepcopy(self)'),
           detail='Roi.copy is no longer a whole-object copy', where=f.where)


def rule_c(ctx, ix):
    R = 'C08.c'
    ctx.describe(R, 'contains3d writes every chunk back to the slices it was read from', floor=4)
    c = ix.cls('glue.core.roi.Projected3dROI')
    f = c.resolve_func('contains3d')
    if f is None:
        raise AnalysisError('Projected3dROI.contains3d vanished')
    loops = [n for n in walk_no_nested(f.node) if isinstance(n, ast.For) and 'iterate_chunks' in unparse(n.iter)]
    if len(loops) != 1:
        raise AnalysisError('contains3d: chunk loop not recognised')
    lp = loops[0]
    var = unparse(lp.target)
    params = f.params[1:4]
    reads = [n for n in ast.walk(lp) if isinstance(n, ast.Subscript) and isinstance(n.ctx, ast.Load)
             and isinstance(n.value, ast.Name) and n.value.id in params]
    ok = {n.value.id for n in reads} == set(params) and all(unparse(n.slice) == var for n in reads)
    ctx.ob(R, f.construct, 'x, y and z are all read with the chunk slices', ok,
           detail='contains3d does not read all three coordinates with the loop\'s chunk slices: %s' % [unparse(n) for n in reads], where=where(f, lp))
    stores = [st for st in lp.body if isinstance(st, ast.Assign) and isinstance(st.targets[0], ast.Subscript)]
    from ..util import expand_locals as _xl
    ok = len(stores) == 1 and var in (unparse(stores[0].targets[0].slice), unparse(_xl(f.node, stores[0].targets[0].slice)))
    ctx.ob(R, f.construct, 'the chunk result is stored, unconditionally, at the same slices', ok,
           detail='contains3d does not store each chunk\'s result at mask[%s] inside the loop' % var, where=where(f, lp))
    mask = unparse(stores[0].targets[0].value) if stores else None
    alloc = [st for st in body_stmts(f.node) if isinstance(st, ast.Assign) and unparse(st.targets[0]) == mask]
    ok = bool(alloc) and '.shape' in unparse(alloc[0].value) and any(unparse(r.value) == mask for r in returns_of(f))
    ctx.ob(R, f.construct, 'the mask has the input shape and is what is returned', ok,
           detail='contains3d does not return the full-shape mask it filled', where=f.where)
    ok = unparse(lp.iter).startswith('iterate_chunks(%s.shape' % params[0])
    ctx.ob(R, f.construct, 'chunks cover the shape of the input', ok,
           detail='contains3d iterates chunks of %s rather than of the input shape' % unparse(lp.iter), where=where(f, lp))
    # the projected point is tested against the 2-d region
    calls = [x for x in calls_in(lp) if call_name(x) == 'contains' and 'roi_2d' in unparse(x.func)]
    ctx.ob(R, f.construct, 'membership is decided by the 2-d region on the projected coordinates', len(calls) == 1 and len(calls[0].args) == 2,
           detail='contains3d does not ask the 2-d region about the projected (x, y)', where=where(f, lp), nontrivial=False)


def rule_d(ctx, ix):
    """Containment answers are put back at the position of the point they belong to: flattening and un-flattening use one element order."""
    R = 'C08.d'
    ctx.describe(R, 'flatten / reshape pairs of the containment routines use the same (C) element order', floor=2)
    n = 0
    for mq in ('glue.utils.geometry', 'glue.core.roi'):
        mod = ix.module(mq)
        for node in ast.walk(mod.tree):
            if not isinstance(node, ast.Call) or not isinstance(node.func, ast.Attribute):
                continue
            if node.func.attr not in ('ravel', 'flatten', 'reshape', 'asfortranarray') and unparse(node.func) != 'np.reshape':
                continue
            n += 1
            order = [k.value for k in node.keywords if k.arg == 'order']
            pos = node.args[0] if node.func.attr in ('ravel', 'flatten') and node.args else None
            o = order[0] if order else pos
            ok = o is None or (isinstance(o, ast.Constant) and o.value == 'C')
            ok = ok and node.func.attr != 'asfortranarray'
            ctx.ob(R, '%s `%s`' % (mq, unparse(node)[:60]), 'flattening and reshaping use C order', ok,
                   detail='`%s` in %s flattens / reshapes in an element order other than C while the results are put back with a C-order '
                          'reshape: for non-contiguous input the answers land at the positions of other points' % (unparse(node)[:80], mq),
                   where='%s:%d' % (mod.relpath, node.lineno))
    f = ix.func('glue.utils.geometry.points_inside_poly')
    flat = [st for st in walk_no_nested(f.node) if isinstance(st, ast.Assign) and isinstance(st.value, ast.Attribute) and st.value.attr == 'flat']
    rs = [c for c in calls_in(f.node) if call_name(c) == 'reshape']
    ctx.ob(R, f.construct, 'the points are flattened and the answers reshaped back', (len(flat) == 2 or n > 0) and len(rs) >= 1,
           detail='points_inside_poly no longer reshapes its answers back to the shape of the points', where=f.where)


XY_EXCEPTIONS = {
    'np.array([self.xmin, self.xmax, self.xmax, self.xmin, self.xmin]) | np.array([self.ymin, self.ymin, self.ymax, self.ymax, self.ymin])':
        'the four corners in order: x alternates min,max,max,min while y alternates min,min,max,max',
    'np.array([-1, 1, 1, -1, -1]) * self.width() / 2 | np.array([-1, -1, 1, 1, -1]) * self.height() / 2':
        'the four corners in order (signs of the half-width / half-height)',
}


def rule_e(ctx, ix):
    """Sibling cross-check: whatever a region does with its x-coordinates it does with its y-coordinates."""
    R = 'C08.e'
    ctx.describe(R, 'paired x / y expressions of the region classes agree up to the renaming x -> y', floor=50)
    common.check_xy_symmetry(ctx, R, ix.module('glue.core.roi'), XY_EXCEPTIONS, floor=50)
    common.check_xy_symmetry(ctx, R, ix.module('glue.utils.geometry'), {}, floor=4)


NONNEG_FIELDS = ('radius_x', 'radius_y', 'radius', 'inner_radius', 'outer_radius')


def _nonneg(e, env, depth=0):
    """Sign domain {nonneg, unknown}: is the expression >= 0 for all values of its variables (radii are lengths)?"""
    if depth > 6:
        return False
    if isinstance(e, ast.Constant):
        return isinstance(e.value, (int, float)) and e.value >= 0
    if isinstance(e, ast.Attribute):
        return e.attr in NONNEG_FIELDS
    if isinstance(e, ast.Name):
        v = env.get(e.id)
        if isinstance(v, list):     # every definition that can reach the use (one per branch)
            return bool(v) and all(x is not None and _nonneg(x, env, depth + 1) for x in v)
        return v is not None and _nonneg(v, env, depth + 1)
    if isinstance(e, ast.Call):
        fn = unparse(e.func)
        if fn in ('abs', 'np.abs', 'np.fabs', 'np.hypot', 'np.sqrt', 'math.hypot', 'math.sqrt', 'np.absolute'):
            return True
        if fn in ('max', 'np.maximum', 'min', 'np.minimum') and e.args:
            return all(_nonneg(a, env, depth + 1) for a in e.args) if fn in ('min', 'np.minimum') else any(_nonneg(a, env, depth + 1) for a in e.args)
        return False
    if isinstance(e, ast.BinOp) and isinstance(e.op, (ast.Add, ast.Mult, ast.Div)):
        return _nonneg(e.left, env, depth + 1) and _nonneg(e.right, env, depth + 1)
    if isinstance(e, ast.BinOp) and isinstance(e.op, ast.Pow):
        return isinstance(e.right, ast.Constant) and e.right.value == 2 or _nonneg(e.left, env, depth + 1)
    return False


def _definitions(fnode):
    """{local: [every expression it is bound to]} (None for a binding that is not a plain expression: loop target, augmented
    assignment, unpacking of a call): `a, b = x, y` and `a = b = x` bind element-wise."""
    env = {}

    def bind(t, v):
        if isinstance(t, ast.Name):
            env.setdefault(t.id, []).append(v)
        elif isinstance(t, (ast.Tuple, ast.List)):
            if isinstance(v, (ast.Tuple, ast.List)) and len(v.elts) == len(t.elts):
                for a, b in zip(t.elts, v.elts):
                    bind(a, b)
            else:
                for a in t.elts:
                    bind(a, None)
    for st in walk_no_nested(fnode):
        if isinstance(st, ast.Assign):
            for t in st.targets:
                bind(t, st.value)
        elif isinstance(st, (ast.AugAssign, ast.AnnAssign)):
            bind(st.target, None if isinstance(st, ast.AugAssign) else st.value)
        elif isinstance(st, (ast.For, ast.comprehension)):
            bind(st.target, None)
        elif isinstance(st, ast.NamedExpr):
            bind(st.target, st.value)
        elif isinstance(st, ast.withitem) and st.optional_vars is not None:
            bind(st.optional_vars, None)
    return env


def rule_f(ctx, ix):
    """The pre-selection box of a region is an interval [centre - d, centre + d] with d >= 0 (never inverted)."""
    R = 'C08.f'
    ctx.describe(R, 'pre-selection boxes: every interval is centre -/+ a half-extent that is non-negative for every parameter value', floor=2)
    n = 0
    for cq, c in sorted(ix.classes.items()):
        if not cq.startswith('glue.core.roi.'):
            continue
        m = c.members.get('bounds')
        f = m.func if m is not None else None
        if f is None:
            continue
        env = _definitions(f.node)
        for r in returns_of(f):
            if not isinstance(r.value, (ast.List, ast.Tuple)):
                continue
            for iv in r.value.elts:
                if not (isinstance(iv, (ast.List, ast.Tuple)) and len(iv.elts) == 2):
                    continue
                lo, hi = iv.elts
                if not (isinstance(lo, ast.BinOp) and isinstance(lo.op, ast.Sub) and isinstance(hi, ast.BinOp) and isinstance(hi.op, ast.Add)
                        and unparse(lo.left) == unparse(hi.left) and unparse(lo.right) == unparse(hi.right)):
                    ctx.idiom(R, '%s `%s`' % (f.construct, unparse(iv)[:60]), 'the interval is centre -/+ half-extent', accepted=False, absent=False,
                              detail_absent='', shape=unparse(iv), where=where(f, r))
                    continue
                n += 1
                d = lo.right
                ctx.ob(R, '%s `%s`' % (f.construct, unparse(iv)[:70]), 'the half-extent is non-negative whatever the parameters (angle) are',
                       _nonneg(d, env),
                       detail='%s returns the interval `%s` whose half-extent `%s` = `%s` can be negative (the sign of a cosine / sine, a '
                              'difference): the box is then inverted or too small, the pre-selection drops points that lie inside the region '
                              'and contains() answers False for them' % (f.construct, unparse(iv), unparse(d),
                                                                        ' | '.join(unparse(x) if x is not None else '?' for x in env[d.id]) if isinstance(d, ast.Name) and d.id in env else unparse(d)),
                       where=where(f, r))
    if n < 2:     # one interval per axis, however many return statements the cases are spread over
        raise AnalysisError('C08.f: only %d pre-selection intervals recognised' % n)
    # at an angle that is not a multiple of a quarter turn both semi-axes contribute to the extent along each coordinate axis: a
    # half-extent chosen on that (general) branch has to be computed from both radii (their maximum, the diagonal, ...)
    from .. import cond as _c
    c = ix.cls('glue.core.roi.EllipticalROI')
    f = c.resolve_func('bounds')
    if f is None:
        raise AnalysisError('EllipticalROI.bounds vanished')
    s_ = f.self_name

    def general(pc):
        """the branch taken when every angle test failed"""
        th = [a for a in _c.atoms(pc) if 'theta' in a]
        if not th:
            return False
        try:
            return all(_c.implies(pc, _c.Not(_c.T(a))) for a in th)
        except ValueError:
            return False

    def radii(e, env, depth=0):
        out = set()
        for x in ast.walk(e):
            if isinstance(x, ast.Attribute) and x.attr in ('radius_x', 'radius_y'):
                out.add(x.attr)
            if isinstance(x, ast.Name) and depth < 4 and isinstance(env.get(x.id), list) and len(env[x.id]) == 1 and env[x.id][0] is not None:
                out |= radii(env[x.id][0], env, depth + 1)
        return out
    env = _definitions(f.node)
    ngen = 0
    # (a) intervals returned on the general branch, (b) half-extent locals bound on the general branch
    for r in returns_of(f):
        pc = _c.path_condition(f.node, r, expand=True) or ('const', True)
        if not general(pc) or not isinstance(r.value, (ast.List, ast.Tuple)):
            continue
        for iv in r.value.elts:
            if isinstance(iv, (ast.List, ast.Tuple)) and len(iv.elts) == 2 and isinstance(iv.elts[0], ast.BinOp):
                ngen += 1
                got = radii(iv.elts[0].right, env)
                ctx.ob(R, '%s general `%s`' % (f.construct, unparse(iv)[:50]), 'at a general angle the half-extent is computed from both radii',
                       got == {'radius_x', 'radius_y'},
                       detail='EllipticalROI.bounds uses `%s` as half-extent at an angle that is not a multiple of a quarter turn: it depends on '
                              '%s only, so for an ellipse whose other radius is the larger one the box is too small and points inside the '
                              'ellipse are dropped by the pre-selection' % (unparse(iv.elts[0].right), sorted(got) or 'neither radius'), where=where(f, r))
    for st in walk_no_nested(f.node):
        if isinstance(st, ast.Assign):
            pc = _c.path_condition(f.node, st, expand=True) or ('const', True)
            if not general(pc):
                continue
            names = [t.id for t in st.targets if isinstance(t, ast.Name)] + [x.id for t in st.targets if isinstance(t, ast.Tuple) for x in t.elts if isinstance(x, ast.Name)]
            used = [nm for nm in names if any(isinstance(r.value, (ast.List, ast.Tuple)) and nm in [y.id for y in ast.walk(r.value) if isinstance(y, ast.Name)]
                                              for r in returns_of(f))]
            if not used:
                continue
            ngen += 1
            got = radii(st.value, env)
            ctx.ob(R, '%s general `%s`' % (f.construct, norm(st)[:50]), 'at a general angle the half-extent is computed from both radii',
                   got == {'radius_x', 'radius_y'},
                   detail='EllipticalROI.bounds sets the half-extent with `%s` at an angle that is not a multiple of a quarter turn: it depends '
                          'on %s only, so for an ellipse whose other radius is the larger one the box is too small and points inside the ellipse '
                          'are dropped by the pre-selection' % (norm(st), sorted(got) or 'neither radius'), where=where(f, st))
    if ngen < 1:
        raise AnalysisError('EllipticalROI.bounds: the general-angle branch is no longer recognised')


def rule_g(ctx, ix):
    """The axis-aligned shortcuts of the rotated shapes are chosen by testing the rotation angle modulo a period.  The tests are
    siblings (same interface slot in rectangle, ellipse, their bounds and rotate): an angle a rounding error away from a multiple
    of the period must be treated alike by all of them, otherwise contains(), bounds() and to_polygon() of one shape disagree."""
    import collections
    import copy
    R = 'C08.g'
    ctx.describe(R, 'the angle-modulo-period tests that select the axis-aligned shortcuts agree with each other up to the period', floor=6)
    mod = ix.module('glue.core.roi')
    forms = collections.defaultdict(list)

    class Norm(ast.NodeTransformer):
        def visit_BinOp(self, n):
            if isinstance(n.op, ast.Mod):
                return ast.BinOp(left=ast.Name(id='ANGLE', ctx=ast.Load()), op=ast.Mod(), right=ast.Name(id='PERIOD', ctx=ast.Load()))
            return self.generic_visit(n)
    for fn in [n for n in ast.walk(mod.tree) if isinstance(n, ast.FunctionDef)]:
        from ..util import expand_locals
        for t0 in [x.test for x in ast.walk(fn) if isinstance(x, (ast.If, ast.IfExp, ast.While))]:
            # `q = theta % period; if isclose(q, 0)`: the test is read with the local spelled out
            t = expand_locals(fn, t0)
            if t is not t0:
                for x_ in ast.walk(t):
                    if not hasattr(x_, 'lineno') and isinstance(x_, (ast.expr, ast.stmt)):
                        x_.lineno = t0.lineno
                    elif hasattr(x_, 'lineno'):
                        x_.lineno = t0.lineno
            for c in ast.walk(t):
                # the comparison around `angle % period`: a call (np.isclose(...)) or a compare, with anything chained on it (.any())
                if isinstance(c, (ast.Call, ast.Compare)) and any(isinstance(b, ast.BinOp) and isinstance(b.op, ast.Mod) and
                                                                 ('theta' in unparse(b.left)) for b in ast.walk(c)):
                    outer = c
                    # take the outermost call/compare of the test that still contains the modulo, below boolean operators
                    forms[unparse(Norm().visit(copy.deepcopy(outer)))].append((fn, c))
    # keep the outermost form per site
    sites = {}
    for txt, lst in forms.items():
        for fn, c in lst:
            key = (fn.name, c.lineno)
            if key not in sites or len(txt) > len(sites[key][0]):
                sites[key] = (txt, fn, c)
    by_form = collections.defaultdict(list)
    for txt, fn, c in sites.values():
        by_form[txt].append((fn, c))
    if not sites:
        raise AnalysisError('glue.core.roi: no angle-modulo-period tests found')
    major = max(by_form, key=lambda k: len(by_form[k]))
    for txt, lst in sorted(by_form.items()):
        for fn, c in lst:
            ctx.ob(R, 'glue.core.roi:%s `%s`' % (fn.name, norm(c)[:70]), 'the test has the form its siblings have: %s' % major, txt == major,
                   detail='`%s` in %s tests the rotation angle as `%s`, while the %d sibling tests of this module use `%s`: an angle a '
                          'rounding error away from a multiple of the period takes the axis-aligned shortcut in one place and the general '
                          'path (or the other shortcut, with width and height exchanged) in another' % (norm(c), fn.name, txt, len(by_form[major]), major),
                   where='%s:%d' % (mod.relpath, c.lineno))


def rule_h(ctx, ix):
    """Projected regions work in homogeneous coordinates: the screen position is (x/w, y/w).  The 2-d region must be asked about
    the divided coordinates on every path - a path that skips the divide is right only for w == 1."""
    from ..flow import Flow
    R = 'C08.h'
    ctx.describe(R, 'the projected region tests the homogeneous coordinates after the divide by w', floor=1)
    c = ix.cls('glue.core.roi.Projected3dROI')
    f = c.resolve_func('contains3d')
    if f is None:
        raise AnalysisError('Projected3dROI.contains3d vanished')

    def classify(e, state):
        if isinstance(e, ast.Name):
            return {t for t in state.get(e.id, ()) if not t.startswith('<')}
        if isinstance(e, ast.Call) and call_name(e) in ('tensordot', 'dot', 'matmul', 'einsum') and 'projection_matrix' in unparse(e):
            return {'H'}
        if isinstance(e, ast.BinOp) and isinstance(e.op, ast.MatMult) and 'projection_matrix' in unparse(e):
            return {'H'}
        if isinstance(e, ast.BinOp) and isinstance(e.op, (ast.Div,)):
            l, r = classify(e.left, state), classify(e.right, state)
            if l & {'H', 'Hxy'} and r & {'H', 'Hw'}:
                return {'D'}
            return l
        if isinstance(e, ast.Subscript):
            base = classify(e.value, state)
            if 'H' in base:
                sl = unparse(e.slice).replace(' ', '')
                return {'Hw'} if sl in ('3', '-1') else {'Hxy'}
            return base
        if isinstance(e, (ast.Tuple, ast.List)):
            out = set()
            for x in e.elts:
                out |= classify(x, state)
            return out
        if isinstance(e, ast.IfExp):
            return classify(e.body, state) | classify(e.orelse, state)
        if isinstance(e, ast.Call) and len(e.args) == 1 and call_name(e) in ('asarray', 'array', 'ascontiguousarray', 'copy'):
            return classify(e.args[0], state)
        return set()

    def unpack(tags, i, n):
        return set(tags)
    sinks = []

    def on_stmt(st, state):
        exprs = [st.test] if isinstance(st, (ast.If, ast.While)) else ([st.iter] if isinstance(st, ast.For) else [st])
        for e in exprs:
            for x in ast.walk(e):
                if isinstance(x, ast.Call) and call_name(x) == 'contains' and 'roi_2d' in unparse(x.func):
                    sinks.append((x, dict(state)))
    Flow(classify, on_stmt=on_stmt, unpack=unpack).run(f.node, {})
    if not sinks:
        raise AnalysisError('Projected3dROI.contains3d: the call of the 2-d region is not recognised')
    for x, state in sinks:
        tags = set()
        for a in x.args:
            tags |= classify(a, state)
        undiv = bool(tags & {'H', 'Hxy'})
        # a guard that looks at the whole last row (including its last element) could be a correct w == 1 test: not decided here
        whole_row = any(('[3, 3]' in unparse(t.test) or '[3]' in unparse(t.test) or '[-1]' in unparse(t.test) or '[3, :]' in unparse(t.test))
                        for t in ast.walk(f.node) if isinstance(t, (ast.If, ast.IfExp)))
        ctx.idiom(R, f.construct, 'the 2-d region is asked about (x/w, y/w) on every path', accepted=tags == {'D'},
                  absent=undiv and not whole_row,
                  detail_absent='Projected3dROI.contains3d hands the homogeneous coordinates to the 2-d region without dividing by w on some '
                                'path: for a projection matrix whose last row is (0, 0, 0, w) with w != 1 (a scaled orthographic matrix, '
                                'zoom kept in w) other points are selected than the region contains on screen',
                  shape='%s <- %s' % (norm(x), sorted(tags)), where=where(f, x))


MUTATORS = {'append', 'extend', 'insert', 'pop', 'remove', 'sort', 'reverse', 'clear', 'fill', 'put', 'itemset', 'resize', 'update', 'setdefault'}
TRANSFORMS = ('move_to', 'rotate_to', 'rotate_by')


def rule_j(ctx, ix):
    """Roi.copy() is a shallow copy: a copy and its original hold the same vertex lists.  That is sound as long as the
    transformations replace a region's containers and never write into them."""
    R = 'C08.j'
    ctx.describe(R, 'move / rotate re-bind the fields of a region; they never write into a container a shallow copy shares', floor=10)
    roi = ix.cls(ROI)
    rets = returns_of(roi.resolve_func('copy'))
    if len(rets) == 1 and unparse(rets[0].value) == 'copy.deepcopy(self)':
        ctx.ob(R, 'Roi.copy', 'copy() is a deep copy: nothing is shared', True)
        return
    seen = set()
    for c in roi.subclasses():
        for name in TRANSFORMS:
            f = c.resolve_func(name)
            if f is None or id(f.node) in seen or not _concrete(f):
                continue
            seen.add(id(f.node))
            me = f.self_name
            alias = {}
            for st in walk_no_nested(f.node):
                if isinstance(st, ast.Assign) and len(st.targets) == 1 and isinstance(st.targets[0], ast.Name) \
                        and isinstance(st.value, ast.Attribute) and isinstance(st.value.value, ast.Name) and st.value.value.id == me:
                    alias[st.targets[0].id] = st.value.attr

            def field_of(e):
                while isinstance(e, ast.Subscript):
                    e = e.value
                if isinstance(e, ast.Attribute) and isinstance(e.value, ast.Name) and e.value.id == me:
                    return e.attr
                if isinstance(e, ast.Name) and e.id in alias:
                    return alias[e.id]
                return None
            bad = []
            for st in walk_no_nested(f.node):
                tg = []
                if isinstance(st, ast.Assign):
                    tg = [t for T in st.targets for t in (T.elts if isinstance(T, (ast.Tuple, ast.List)) else [T])]
                elif isinstance(st, (ast.AugAssign, ast.AnnAssign)):
                    tg = [st.target]
                elif isinstance(st, ast.Delete):
                    tg = list(st.targets)
                for t in tg:
                    if isinstance(t, ast.Starred):
                        t = t.value
                    if isinstance(t, ast.Subscript) and field_of(t) is not None:
                        bad.append((st, field_of(t)))
                if isinstance(st, ast.Call):
                    if isinstance(st.func, ast.Attribute) and st.func.attr in MUTATORS and field_of(st.func.value) is not None:
                        bad.append((st, field_of(st.func.value)))
                    for k in st.keywords:
                        if k.arg == 'out' and field_of(k.value) is not None:
                            bad.append((st, field_of(k.value)))
            ctx.ob(R, f.construct, 'no in-place write into a field of the region', not bad,
                   detail='%s writes into the container held in field %s in place (`%s`): Roi.copy() is a shallow copy, so the copy and '
                          'the original hold that same container - transforming one of them moves the other as well, and a copy no '
                          'longer contains the points it was made with' % (f.construct, sorted({b[1] for b in bad}), norm(bad[0][0]) if bad else ''),
                   where=where(f, bad[0][0]) if bad else f.where)


# which rotations map the shape onto itself: a rectangle and an ellipse are symmetric under a half turn, a polygon under whole turns only
SYMMETRY = {
    'RectangularROI': 'pi',
    'EllipticalROI': 'pi',
    'PolygonalROI': '2pi',
}
PERIODS = {'np.pi': 'pi', 'np.pi / 2': 'pi/2', '2 * np.pi': '2pi', 'np.pi * 2': '2pi', '2.0 * np.pi': '2pi', 'np.pi / 2.0': 'pi/2',
           '0.5 * np.pi': 'pi/2', 'np.pi * 0.5': 'pi/2'}
ORDER = {'pi/2': 1, 'pi': 2, '2pi': 4}


def rule_k(ctx, ix):
    """A shortcut chosen by `angle % period ~ 0` treats all multiples of the period alike.  That is right only when the period is a
    symmetry of the shape (rectangle, ellipse: half turns; polygon: whole turns).  A quarter-turn test is right only as the second
    test of a chain whose first test took the half turns away (what remains is `angle = pi/2 mod pi`: the axes exchanged)."""
    R = 'C08.k'
    ctx.describe(R, 'the period of every angle test is a symmetry of the shape (quarter-turn tests only behind the half-turn test)', floor=8)
    mod = ix.module('glue.core.roi')
    for cn in [c for c in mod.tree.body if isinstance(c, ast.ClassDef)]:
        for fn in [n for n in cn.body if isinstance(n, ast.FunctionDef)]:
            pm = parent_map(fn)
            for iff in [x for x in ast.walk(fn) if isinstance(x, (ast.If, ast.IfExp))]:
                t = expand_locals(fn, iff.test)
                mods = [b for b in ast.walk(t) if isinstance(b, ast.BinOp) and isinstance(b.op, ast.Mod) and 'theta' in unparse(b.left)]
                for b in mods:
                    per = PERIODS.get(unparse(b.right))
                    sym = SYMMETRY.get(cn.name)
                    construct = 'glue.core.roi:%s.%s `%s`' % (cn.name, fn.name, norm(b))
                    if per is None or sym is None:
                        ctx.idiom(R, construct, 'period recognised', accepted=False, absent=False, detail_absent='',
                                  shape='period `%s` in class %s' % (unparse(b.right), cn.name))
                        continue
                    if ORDER[per] >= ORDER[sym]:
                        ctx.ob(R, construct, 'the period (%s) is a symmetry of a %s' % (per, cn.name), True)
                        continue
                    # a shorter period: only on paths on which the test with the symmetry period (same angle) has failed - as its `elif`,
                    # or after it returned
                    from .. import cond
                    behind = False
                    if isinstance(iff, ast.If):
                        pc = cond.path_condition(fn, iff, expand=False) or ('const', True)
                        for other in [x for x in ast.walk(fn) if isinstance(x, ast.If) and x is not iff]:
                            if any(isinstance(b2, ast.BinOp) and isinstance(b2.op, ast.Mod) and unparse(b2.left) == unparse(b.left)
                                   and PERIODS.get(unparse(b2.right)) == sym for b2 in ast.walk(expand_locals(fn, other.test))):
                                if cond.implies(pc, cond.Not(cond.formula(other.test, fn))):
                                    behind = True
                    ctx.ob(R, construct, 'a test with period %s stands behind the test with the symmetry period %s' % (per, sym), behind,
                           detail='%s.%s takes a shortcut for every angle that is a multiple of %s (`%s`), but a %s is mapped onto itself '
                                  'only by multiples of %s: at the other multiples (%s) the shortcut leaves out a rotation that changes '
                                  'the region, so the contained set / polygon is that of the unrotated shape'
                                  % (cn.name, fn.name, per, norm(iff.test), cn.name, sym,
                                     'theta = pi/2, 3pi/2' if per == 'pi/2' else 'theta = pi, 3pi'),
                           where='%s:%d' % (mod.relpath, iff.lineno))
