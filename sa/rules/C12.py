"""C12 - every serialisation protocol version ever registered still loads what it saved."""
import ast
import json

from ..index import AnalysisError, dotted_chain, norm, unparse, walk_no_nested, body_stmts
from ..serial import Registry
from ..util import calls_in, call_name, where, returns_of
from .. import props
from .C02 import key_agreement

props.prop(
    'C12',
    explanation='Static (ast) reading of the saver/loader registries (decorator call sites with literal versions), '
                'of VersionedDict\'s guards, of the version stamp/default literals, per-version key agreement '
                'through the helper chains (_save_data_5 -> _save_data_4 -> ...), and of the rename table file.',
    decides='that every registered (type, version) has both a saver and a loader, versions are 1..n, never '
            'overwritten and the newest is used on save, the stamp written and the reader\'s default agree, each '
            'version\'s loader reads only keys that version\'s saver writes (and drops none), and the rename table is '
            'acyclic, resolvable inside this package and captures no class this package still defines and writes; that a field set '
            'by several loader versions comes out in the layout of the newest; the quantifier of the external-link '
            'classification of old DataCollection records',
    not_decided='semantic drift of a key whose name is unchanged; objects generated at run time',
    assumptions=['registrations are made by the decorators at import time, in source order'])
props.also('C12',
           'that registry.disable restores the value it saved; the loaded layout of fields read by several loader versions (tuple vs single identifier); that the version-1 upgrade hands label, style and state to the new group unchanged; that what a version\'s saver stored whole under one reference is not wrapped again by that version\'s loader')

SAVER_ONLY = {'glue.core.session.Session': 'repopulated by the application on load (saver writes {})'}
STATE = 'glue.core.state'


def run(ctx):
    ix = ctx.index
    reg = Registry(ix)
    if reg.problems:
        for p in reg.problems:
            ctx.ob('C12.a', 'registry', 'registration is well formed', False, detail=p)
    ctx.guard(rule_a, ctx, ix, reg)
    ctx.guard(rule_b, ctx, ix, reg)
    ctx.guard(rule_c, ctx, ix, reg)
    ctx.guard(rule_d, ctx, ix, reg)
    ctx.guard(rule_e, ctx, ix, reg)
    ctx.guard(rule_g, ctx, ix)
    ctx.guard(rule_h, ctx, ix, reg)
    ctx.guard(rule_i, ctx, ix)
    ctx.guard(rule_j, ctx, ix)
    # every registered loader version must still load: back-references are resolved after the object is published
    from ..report import BorrowedCtx
    from .C02 import rule_f as _backrefs
    ctx.guard(_backrefs, BorrowedCtx(ctx, {'C02.f': 'C12.f'}), ix)


def rule_a(ctx, ix, reg):
    R = 'C12.a'
    ctx.describe(R, 'registries: saver versions = loader versions, consecutive from 1, write-once, newest on lookup', floor=70)
    types = sorted(set(reg.savers) | set(reg.loaders))
    for t in types:
        sv = sorted(reg.savers.get(t, {}))
        lv = sorted(reg.loaders.get(t, {}))
        if t in SAVER_ONLY and not lv:
            ctx.exception(R, t, SAVER_ONLY[t])
        else:
            ctx.ob(R, 'registry:%s' % t, 'saver versions %s = loader versions' % sv, sv == lv,
                   detail='type %s has saver versions %s but loader versions %s: a record written in a version without '
                          'loader cannot be read back (or a loader exists for a format nothing writes)' % (t, sv, lv))
        for kind, vs in (('saver', sv), ('loader', lv)):
            if not vs:
                continue
            ctx.ob(R, 'registry:%s' % t, '%s versions are 1..n' % kind, vs == list(range(1, len(vs) + 1)),
                   detail='%s versions of %s are %s, not consecutive from 1' % (kind, t, vs))
    # registration order ascending per (kind, type) - VersionedDict raises at import otherwise
    last = {}
    for kind, t, v, f in reg.order:
        k = (kind, t)
        ok = v == last.get(k, 0) + 1
        ctx.ob(R, 'registry:%s' % t, '%s version %d is registered after version %d' % (kind, v, v - 1), ok,
               detail='%s version %d of %s is registered at %s before version %d' % (kind, v, t, f.where, v - 1),
               where=f.where, nontrivial=False)
        last[k] = max(v, last.get(k, 0))
    # VersionedDict guards
    vd = ix.cls(STATE + '.VersionedDict')
    f = vd.resolve_func('__setitem__')
    if f is None:
        raise AnalysisError('VersionedDict.__setitem__ vanished')
    from ..util import expand_locals
    # local aliases (versions = self._data[item]; previous = version - 1) are read through
    stores = [st for st in walk_no_nested(f.node) if isinstance(st, ast.Assign)
              and isinstance(st.targets[0], ast.Subscript) and '_data' in unparse(expand_locals(f.node, st.targets[0]))]
    if len(stores) != 1:
        raise AnalysisError('VersionedDict.__setitem__: expected exactly one store into _data')
    store = stores[0]
    guards = [(n, expand_locals(f.node, n.test)) for n in walk_no_nested(f.node) if isinstance(n, ast.If) and n.lineno < store.lineno
              and any(isinstance(b, ast.Raise) for b in n.body)]
    skip = [g for g, t in guards if ('- 1' in unparse(t) or '-1' in unparse(t)) and 'not in' in unparse(t)]
    over = [g for g, t in guards if isinstance(t, ast.Compare) and isinstance(t.ops[0], ast.In)
            and 'version' in unparse(t.left)]
    ctx.ob(R, f.construct, 'skipping a version raises before the store', bool(skip),
           detail='VersionedDict.__setitem__ no longer refuses to register version n before n-1', where=f.where)
    ctx.ob(R, f.construct, 'overwriting a version raises before the store', bool(over),
           detail='VersionedDict.__setitem__ no longer refuses to overwrite a registered version', where=f.where)
    for name in ('__getitem__', 'get_version'):
        g = vd.resolve_func(name)
        if g is None:
            raise AnalysisError('VersionedDict.%s vanished' % name)
        rets = [r for r in returns_of(g) if r.value is not None]
        from ..util import expand_locals
        latest = [r for r in rets if 'max(' in unparse(expand_locals(g.node, r.value))]
        bad = [r for r in rets if 'min(' in unparse(expand_locals(g.node, r.value))]
        ctx.ob(R, g.construct, 'the default lookup returns the highest version', bool(latest) and not bad,
               detail='VersionedDict.%s does not return the max() version by default' % name, where=g.where)


def rule_b(ctx, ix, reg):
    R = 'C12.b'
    ctx.describe(R, 'save uses the newest version; the stamp written and the default read agree', floor=4)
    ser = ix.cls(STATE + '.GlueSerializer')
    f = ser.resolve_func('_dispatch')
    rets = [r for r in returns_of(f) if r.value is not None and 'dispatch' in unparse(r.value)]
    ok = bool(rets) and all(isinstance(r.value, ast.Subscript) and not isinstance(r.value.slice, ast.Tuple) for r in rets)
    ctx.ob(R, f.construct, 'the saver is taken with dispatch[typ] (highest version)', ok,
           detail='GlueSerializer._dispatch does not select the saver through dispatch[typ] (the newest version): %s'
                  % [unparse(r.value) for r in rets], where=f.where)
    do = ser.resolve_func('do')
    stamps = [st for st in walk_no_nested(do.node) if isinstance(st, ast.Assign)
              and isinstance(st.targets[0], ast.Subscript) and isinstance(st.targets[0].slice, ast.Constant)
              and st.targets[0].slice.value == '_protocol']
    if len(stamps) != 1:
        raise AnalysisError('GlueSerializer.do: expected exactly one _protocol stamp')
    from ..util import parent_map, enclosing
    pm = parent_map(do.node)
    guard = enclosing(pm, stamps[0], (ast.If,))
    thr = None
    if guard is not None and isinstance(guard.test, ast.Compare) and len(guard.test.ops) == 1 \
            and isinstance(guard.test.comparators[0], ast.Constant):
        c = guard.test.comparators[0].value
        op = guard.test.ops[0]
        if isinstance(op, ast.Gt):
            thr = c
        elif isinstance(op, ast.GtE):
            thr = c - 1
        elif isinstance(op, ast.NotEq):
            thr = c
    # the version by its role: what the saver dispatch returned next to the function
    vnames = set()
    for st in walk_no_nested(do.node):
        if isinstance(st, ast.Assign) and isinstance(st.targets[0], ast.Tuple) and len(st.targets[0].elts) == 2 and \
                isinstance(st.value, ast.Call) and call_name(st.value) == '_dispatch' and isinstance(st.targets[0].elts[1], ast.Name):
            vnames.add(st.targets[0].elts[1].id)
    stamped_val_ok = unparse(stamps[0].value) in vnames
    if guard is not None and isinstance(guard.test, ast.Compare) and unparse(guard.test.left) not in vnames:
        thr = None
    un = ix.cls(STATE + '.GlueUnSerializer')
    g = un.resolve_func('_dispatch')
    # the dispatch and the helpers of the class it hands the record to (one level)
    parts = [g]
    for c in calls_in(g.node, nested=True):
        if isinstance(c.func, ast.Attribute) and unparse(c.func.value) == g.self_name and any(unparse(a) == g.params[1] for a in c.args):
            h = un.resolve_func(c.func.attr)
            if h is not None and h not in parts:
                parts.append(h)

    class _Parts(object):
        node = ast.Module(body=[p_.node for p_ in parts], type_ignores=[])
    # a memo in front of the dispatch: what it hands back must be keyed by the record's version as well as by its type
    for p_ in parts:
        for sub in ast.walk(p_.node):
            if isinstance(sub, ast.Subscript) and isinstance(sub.ctx, ast.Load) and isinstance(sub.value, ast.Attribute) and \
                    unparse(sub.value.value) in (p_.self_name, 'cls', un.name) and sub.value.attr not in ('dispatch',) and \
                    "['_type']" in unparse(sub.slice).replace('"', "'"):
                keyed = '_protocol' in unparse(sub.slice) or 'version' in unparse(sub.slice)
                ctx.ob(R, '%s `%s`' % (p_.construct, norm(sub)), 'a loader looked up in a memo is keyed by (type, protocol version)', keyed,
                       detail='%s looks the loader up in `%s`, keyed by the record type only: after a record of one protocol version was '
                              'loaded, every record of that type - whatever version it was written in - is read by that version\'s '
                              'loader (an old session opened after a new one loses or mis-reads fields)' % (p_.construct, norm(sub)),
                       where=where(p_, sub))
    gets = [c for p_ in parts for c in calls_in(p_.node) if call_name(c) == 'get' and c.args and isinstance(c.args[0], ast.Constant)
            and c.args[0].value == '_protocol']
    if len(gets) != 1:
        raise AnalysisError('GlueUnSerializer._dispatch: expected one rec.get("_protocol", default)')
    dflt = gets[0].args[1].value if len(gets[0].args) > 1 and isinstance(gets[0].args[1], ast.Constant) else None
    ctx.ob(R, do.construct, 'the version stamp is written iff version > 1 and carries the version used', thr == 1 and stamped_val_ok,
           detail='_protocol is stamped under `%s` with value %s; expected `version > 1` and the dispatch version'
                  % (unparse(guard.test) if guard is not None else '<unconditional>', unparse(stamps[0].value)), where=do.where)
    ctx.ob(R, g.construct, 'an unstamped record is read as version 1', dflt == 1 and thr == 1,
           detail='records without _protocol are read as version %r while the writer omits the stamp for versions <= %r'
                  % (dflt, thr), where=g.where)
    # the loader is fetched for exactly that version
    vers = [c for p_ in parts for c in calls_in(p_.node) if call_name(c) == 'get_version']
    # ... the version read from the record (rec.get('_protocol', 1)), through a local or directly
    from ..util import expand_locals as _xl
    ok = bool(vers) and all(len(c.args) >= 2 and "'_protocol'" in unparse(_xl(p0.node, c.args[1])).replace('"', "'") for c in vers for p0 in parts
                            if any(c is x for x in ast.walk(p0.node)))
    ctx.ob(R, g.construct, 'the loader of the record\'s own version is used', ok,
           detail='GlueUnSerializer._dispatch does not fetch the loader with get_version(type, version)', where=g.where)


def rule_c(ctx, ix, reg):
    R = 'C12.c'
    ctx.describe(R, 'per-version writer/reader key agreement through helper chains', floor=60)
    for t in sorted(set(reg.savers) & set(reg.loaders)):
        objcls = ix.classes.get(t)
        for v in sorted(set(reg.savers[t]) & set(reg.loaders[t])):
            s, l = reg.savers[t][v], reg.loaders[t][v]
            sinfo = reg.saver_info(s, objcls)
            linfo = reg.loader_info(l, objcls)
            if sinfo.raises and not sinfo.keys:
                continue
            label = '%s v%d: %s <-> %s' % (t.rpartition('.')[2], v, s.name, l.name)
            key_agreement(ctx, R, label, t, s, l, sinfo, linfo, reg)


def rule_d(ctx, ix, reg):
    R = 'C12.d'
    ctx.describe(R, 'rename table: parses, acyclic, in-package targets resolve, no live class captured', floor=150)
    rel = 'glue/core/state_path_patches.txt'
    txt = ix.read_text(rel)
    table = {}
    for i, line in enumerate(txt.splitlines(), 1):
        if not line.strip():
            continue
        parts = line.strip().split(' -> ')
        ctx.ob(R, '%s:line %d' % (rel, i), 'row has the form "old -> new"', len(parts) == 2,
               detail='row %r cannot be split into before/after: importing glue.core.state fails' % line,
               where='%s:%d' % (rel, i), nontrivial=False)
        if len(parts) != 2:
            continue
        a, b = parts[0].strip(), parts[1].strip()
        table[a] = (b, i)
    # the reader really follows the table to a fixed point
    f = ix.func(STATE + '.lookup_class_with_patches')
    loops = [n for n in walk_no_nested(f.node) if isinstance(n, ast.While)]
    ok = len(loops) == 1 and 'in PATH_PATCHES' in unparse(loops[0].test)
    ctx.ob(R, f.construct, 'lookup follows the table until the name is no longer a key', ok,
           detail='lookup_class_with_patches no longer follows PATH_PATCHES to a fixed point', where=f.where)
    for a, (b, line) in sorted(table.items()):
        seen = [a]
        cur = b
        cyc = False
        while cur in table:
            if cur in seen:
                cyc = True
                break
            seen.append(cur)
            cur = table[cur][0]
        ctx.ob(R, '%s:%s' % (rel.rpartition('/')[2], a), 'redirection chain terminates', not cyc,
               detail='rename row %s is on a cycle %s: lookup_class_with_patches never returns'
                      % (a, ' -> '.join(seen + [cur])), where='%s:%d' % (rel, line))
        if cyc:
            continue
        final = cur
        if final.startswith('glue.'):
            ok = _resolves(ix, final)
            ctx.ob(R, '%s:%s' % (rel.rpartition('/')[2], a), 'final target %s is defined in this package' % final, ok,
                   detail='rename row %s ends at %s, which names nothing in this package: every session that mentions '
                          'the old name fails to load' % (a, final), where='%s:%d' % (rel, line))
        # a live, written class must not be captured
        c = ix.classes.get(ix.canonical(a))
        if c is not None and c.qualname == a:
            kind, sf, sv, via = reg.saver_for(c)
            captured = sf is not None
            if captured and _abstract_by_external_abc(c):
                ctx.exception(R, a, 'abstract base (ABCMeta + abstract transform methods inherited from an external ABC): '
                                    'no instance exists, so nothing is ever written under this name')
                continue
            ctx.ob(R, '%s:%s' % (rel.rpartition('/')[2], a), 'the old name is not a class this package still defines and saves',
                   not captured,
                   detail='rename row captures %s, a class this package still defines and saves (through %s): what is written '
                          'under that name is redirected to %s on load' % (a, sf.construct if sf else None, final),
                   where='%s:%d' % (rel, line))


def _abstract_by_external_abc(c):
    """ABCMeta metaclass, an external base, and the two transform methods left undefined."""
    meta = [k for k in c.node.keywords if k.arg == 'metaclass' and 'ABCMeta' in unparse(k.value)]
    if not meta or not c.external_bases:
        return False
    return not any(n in c.members for n in ('pixel_to_world_values', 'world_to_pixel_values'))


def _resolves(ix, dotted):
    q = ix.canonical(dotted)
    if q in ix.classes or q in ix.functions or q in ix.modules:
        return True
    mod, _, name = q.rpartition('.')
    m = ix.modules.get(mod)
    if m is not None and (name in m.defs or name in m.imports):
        return True
    return False


# ---------------------------------------------------------------------------------------
def _module_func(ix, caller, call):
    """The module-level function a plain-name call refers to (same module), or None."""
    if isinstance(call.func, ast.Name):
        return ix.functions.get('%s.%s' % (caller.module.name, call.func.id))
    return None


def _saved_expr(ix, func, key, depth=0):
    """(expression stored under ``key``, function that stores it) following the saver through the savers it builds on."""
    from ..util import dict_literal_keys
    for n in ast.walk(func.node):
        d = dict_literal_keys(n) if isinstance(n, (ast.Dict, ast.Call)) else None
        if d and key in d:
            return d[key], func
        if isinstance(n, ast.Assign) and isinstance(n.targets[0], ast.Subscript) and isinstance(n.targets[0].slice, ast.Constant) \
                and n.targets[0].slice.value == key:
            return n.value, func
    if depth < 6:
        for c in calls_in(func.node):
            g = _module_func(ix, func, c)
            if g is not None and g is not func and len(c.args) >= 2:
                r = _saved_expr(ix, g, key, depth + 1)
                if r is not None:
                    return r
    return None


def _shape(e, owner, depth=0):
    """Layout of a saved value: I = a reference handed out by context.id, D = a nested record made by context.do, V = a plain
    value, [..] = a fixed sequence, ['*', s] = any number of s."""
    if depth > 6 or e is None:
        return 'V'
    if isinstance(e, ast.Call):
        nm = call_name(e)
        if isinstance(e.func, ast.Attribute) and nm == 'id' and unparse(e.func.value) == 'context':
            return 'I'
        if isinstance(e.func, ast.Attribute) and nm == 'do' and unparse(e.func.value) == 'context':
            return 'D'
        if isinstance(e.func, ast.Name) and nm in ('list', 'tuple', 'sorted') and len(e.args) == 1:
            return _shape(e.args[0], owner, depth + 1)
        if isinstance(e.func, ast.Name) and nm == 'map' and len(e.args) == 2:
            f0 = e.args[0]
            inner = 'I' if unparse(f0) == 'context.id' else ('D' if unparse(f0) == 'context.do' else 'V')
            return ['*', inner]
        if isinstance(e.func, ast.Name):
            # a helper defined inside the saver: the layout of what it returns
            for d in ast.walk(owner.node):
                if isinstance(d, ast.FunctionDef) and d.name == e.func.id and d is not owner.node:
                    rets = [r for r in ast.walk(d) if isinstance(r, ast.Return) and r.value is not None]
                    if len(rets) == 1:
                        return _shape(rets[0].value, owner, depth + 1)
        return 'V'
    if isinstance(e, (ast.List, ast.Tuple)):
        return [_shape(x, owner, depth + 1) for x in e.elts]
    if isinstance(e, (ast.ListComp, ast.GeneratorExp, ast.SetComp)):
        return ['*', _shape(e.elt, owner, depth + 1)]
    if isinstance(e, ast.IfExp):
        a, b = _shape(e.body, owner, depth + 1), _shape(e.orelse, owner, depth + 1)
        return a if a == b else ['|', a, b]
    return 'V'


def _reader(ix, func, rec, key, depth=0):
    """The loader function that reads rec[key]: ``func`` itself, or the loader it hands the record to."""
    for n in ast.walk(func.node):
        if isinstance(n, ast.Subscript) and isinstance(n.value, ast.Name) and n.value.id == rec and isinstance(n.slice, ast.Constant) \
                and n.slice.value == key:
            return func
        if isinstance(n, ast.Call) and call_name(n) == 'get' and isinstance(n.func, ast.Attribute) and unparse(n.func.value) == rec \
                and n.args and isinstance(n.args[0], ast.Constant) and n.args[0].value == key:
            return func
    if depth < 6:
        for c in calls_in(func.node, nested=True):
            g = _module_func(ix, func, c)
            if g is not None and g is not func and c.args and unparse(c.args[0]) == rec and g.params:
                r = _reader(ix, g, g.params[0], key, depth + 1)
                if r is not None:
                    return r
    return None


def rule_e(ctx, ix, reg):
    """A loader may leave the reading of a key to the loader of another version only when both versions store that key in the
    same layout.  (C12.c compares the key NAMES of each version; a version-3 loader that hands its record to the version-4
    loader reads the right names and the wrong layout.)"""
    R = 'C12.e'
    ctx.describe(R, 'a key that is read by the loader of another version is stored in the same layout by both versions', floor=20)
    n = 0
    for t in sorted(set(reg.savers) & set(reg.loaders)):
        vers = sorted(set(reg.savers[t]) & set(reg.loaders[t]))
        if len(vers) < 2:
            continue
        by_func = {id(reg.loaders[t][v].raw_node): v for v in sorted(reg.loaders[t])}
        for v in vers:
            sv, ld = reg.savers[t][v], reg.loaders[t][v]
            if ld.cls is not None or sv.cls is not None or not ld.params:
                continue          # method pairs (__gluestate__) have one version
            keys = set()
            objcls = ix.classes.get(t)
            try:
                keys = set(reg.saver_info(sv, objcls).keys)
            except Exception:
                continue
            for k in sorted(keys):
                rd = _reader(ix, ld, ld.params[0], k)
                if rd is None or rd is ld:
                    continue
                m = by_func.get(id(rd.raw_node))
                if m is None or m == v or m not in reg.savers[t]:
                    continue
                n += 1
                a, b = _saved_expr(ix, sv, k), _saved_expr(ix, reg.savers[t][m], k)
                if a is None or b is None:
                    ctx.unmodelled(R, '%s v%d %r' % (t.rpartition('.')[2], v, k), 'the stored expression is not found in the saver chain')
                    continue
                sa_, sb_ = _shape(a[0], a[1]), _shape(b[0], b[1])
                ctx.ob(R, '%s v%d key %r read by the v%d loader' % (t.rpartition('.')[2], v, k, m),
                       'version %d and version %d store %r in the same layout' % (v, m, k), sa_ == sb_,
                       detail='the version-%d loader of %s (%s) leaves key %r to %s, the loader of version %d, but the two versions store it '
                              'differently (v%d: %s, v%d: %s): a record written in format %d is read with the layout of format %d'
                              % (v, t.rpartition('.')[2], ld.name, k, rd.name, m, v, sa_, m, sb_, v, m), where=ld.where)
    if n < 20:
        raise AnalysisError('C12.e: only %d inherited key readings found' % n)


def _quantified(fnode, st):
    """Under which quantified condition over a collection does statement ``st`` run?  ('exists' | 'forall', element variable,
    collection text, predicate formula) or None.  Recognised: the search loop (`for e in C: if P: S; break`), and `if any(P for e
    in C)` / `if all(...)` / their negations (also through a single-assignment local)."""
    from .. import cond
    from ..util import parent_map, expand_locals
    pm = parent_map(fnode)
    cur, child = pm.get(id(st)), st
    while cur is not None and cur is not fnode:
        if isinstance(cur, ast.If):
            in_body = any(child is x for x in cur.body)
            t = expand_locals(fnode, cur.test)
            neg = False
            while isinstance(t, ast.UnaryOp) and isinstance(t.op, ast.Not):
                t, neg = t.operand, not neg
            if isinstance(t, ast.Call) and isinstance(t.func, ast.Name) and t.func.id in ('any', 'all') and len(t.args) == 1 and \
                    isinstance(t.args[0], (ast.GeneratorExp, ast.ListComp)) and len(t.args[0].generators) == 1 and not t.args[0].generators[0].ifs:
                g = t.args[0].generators[0]
                q = 'exists' if t.func.id == 'any' else 'forall'
                p = cond.formula(t.args[0].elt)
                if neg != (not in_body):        # the statement runs when the quantified test is false
                    q = 'forall' if q == 'exists' else 'exists'
                    p = cond.Not(p)
                return q, unparse(g.target), unparse(g.iter), p
            # a flag set by a search loop just before: `for e in C: if P: flag = True; break  else: flag = False; if flag: S`
            if isinstance(t, ast.Name):
                blk = pm.get(id(cur))
                for fld in ('body', 'orelse', 'finalbody'):
                    seq = getattr(blk, fld, None)
                    if isinstance(seq, list) and cur in seq and seq.index(cur) > 0 and isinstance(seq[seq.index(cur) - 1], ast.For):
                        lp2 = seq[seq.index(cur) - 1]
                        sets = [x for x in ast.walk(lp2) if isinstance(x, ast.Assign) and len(x.targets) == 1 and
                                isinstance(x.targets[0], ast.Name) and x.targets[0].id == t.id and isinstance(x.value, ast.Constant)]
                        set_else = [x for x in sets if any(x is y for y in lp2.orelse)]
                        set_body = [x for x in sets if x not in set_else]
                        if len(set_else) == 1 and len(set_body) == 1 and isinstance(set_body[0].value.value, bool) and \
                                set_body[0].value.value != set_else[0].value.value:
                            g_if = pm.get(id(set_body[0]))
                            if isinstance(g_if, ast.If) and any(isinstance(y, ast.Break) for y in g_if.body) and not g_if.orelse:
                                found_val = set_body[0].value.value          # the flag when an element satisfied the test
                                p = cond.formula(g_if.test)
                                flag_needed = (not neg) if in_body else neg  # the flag value under which the statement runs
                                if flag_needed == found_val:
                                    return 'exists', unparse(lp2.target), unparse(lp2.iter), p
                                return 'forall', unparse(lp2.target), unparse(lp2.iter), cond.Not(p)
            # the search loop: for e in C: if P: S; break   (S in the body of the if)
            loop = pm.get(id(cur))
            if isinstance(loop, ast.For) and in_body and any(isinstance(x, ast.Break) for x in cur.body) and not cur.orelse:
                return 'exists', unparse(loop.target), unparse(loop.iter), cond.formula(cur.test)
        if isinstance(cur, ast.For) and any(child is x for x in cur.orelse):
            # the else of a search loop: no element satisfied the test that breaks
            for x in cur.body:
                if isinstance(x, ast.If) and any(isinstance(y, ast.Break) for y in x.body) and not x.orelse:
                    return 'forall', unparse(cur.target), unparse(cur.iter), cond.Not(cond.formula(x.test))
        child, cur = cur, pm.get(id(cur))
    return None


def rule_g(ctx, ix):
    """The loaders of the DataCollection protocols 1-3 split the saved links into links between datasets (installed on the
    collection) and links inside one dataset (which the dataset re-creates itself): a link is between datasets as soon as ANY
    of its inputs lives in another dataset than its output."""
    from .. import cond
    R = 'C12.g'
    ctx.describe(R, 'old DataCollection records: a link with any input from another dataset is restored as a link between datasets', floor=2)
    f = ix.func('glue.core.state._load_data_collection')
    ext = [c for c in calls_in(f.node) if call_name(c) == 'set_links' and c.args and isinstance(c.args[0], ast.Name)]
    if len(ext) != 1:
        raise AnalysisError('_load_data_collection: the links handed to set_links are not recognised')
    name = ext[0].args[0].id
    adds = [st for st in ast.walk(f.node) if isinstance(st, ast.Expr) and isinstance(st.value, ast.Call) and call_name(st.value) == 'append'
            and unparse(st.value.func.value) == name]
    if not adds:
        raise AnalysisError('_load_data_collection: nothing is appended to `%s`' % name)
    for st in adds:
        q = _quantified(f.node, st)
        if q is None:
            raise AnalysisError('_load_data_collection: the condition under which `%s` runs is not recognised' % norm(st))
        quant, var, coll, pred = q
        # the predicate, oriented: `<input>.parent is <the output's dataset>`
        same = [a for a in cond.atoms(pred) if a.startswith('is|') and '.parent' in a]
        ok = False
        if len(same) == 1 and 'get_from_ids' in coll:
            try:
                differs = cond.equivalent(pred, cond.Not(cond.T(same[0])))
                ok = quant == 'exists' and differs
            except ValueError:
                ok = False
        ctx.ob(R, f.construct + ' `%s`' % norm(st), 'a link is installed on the collection when some input belongs to another dataset than its output', ok,
               detail='_load_data_collection treats a link as a link between datasets when `%s %s in %s: %s`: a link computed from inputs of '
                      'several datasets, one of which is the dataset of the output, is taken for an internal one, is not installed and '
                      'disappears from the restored collection (records of protocols 1-3)' % (quant, var, coll, pred), where=where(f, st))
    ctx.ob(R, f.construct, 'the links between datasets are installed on the collection', True)


def _loaded_shape(e, owner, depth=0, scope=None):
    """Layout of a value a loader builds: O = an object restored by context.object, V = a plain value, [..] = a fixed sequence,
    ['*', s] = any number of s, {'k': s, 'v': s} = a mapping, ['|', a, b] = one of two layouts, U = unknown element."""
    if depth > 20 or e is None:
        return 'V'
    if isinstance(e, ast.Name) and scope is not None:
        defs = [st for st in ast.walk(scope) if isinstance(st, ast.Assign) and len(st.targets) == 1 and isinstance(st.targets[0], ast.Name)
                and st.targets[0].id == e.id]
        if len(defs) == 1:
            return _loaded_shape(defs[0].value, owner, depth + 1, scope)
        if len(defs) == 2:
            # `x = <loaded>; if not isinstance(x, tuple): x = (x,)`: a sequence of whatever was stored, or the wrapped single value
            pm_ = {id(c_): p_ for p_ in ast.walk(scope) for c_ in ast.iter_child_nodes(p_)}
            first, second = sorted(defs, key=lambda d_: d_.lineno)
            par = pm_.get(id(second))
            if isinstance(par, ast.If) and second in par.body and not par.orelse and isinstance(pm_.get(id(first)), (ast.FunctionDef, ast.Module)):
                t = par.test
                neg = isinstance(t, ast.UnaryOp) and isinstance(t.op, ast.Not)
                t = t.operand if neg else t
                if neg and isinstance(t, ast.Call) and call_name(t) == 'isinstance' and len(t.args) == 2 and unparse(t.args[0]) == e.id \
                        and any(n_ in unparse(t.args[1]) for n_ in ('tuple', 'list')):
                    base = _loaded_shape(first.value, owner, depth + 1, scope)
                    v2 = second.value
                    if isinstance(v2, (ast.Tuple, ast.List)) and all(isinstance(x_, ast.Name) and x_.id == e.id for x_ in v2.elts):
                        b = [base for _ in v2.elts]
                        a = ['*', 'U']
                        return a if a == b else ['|', a, b]
            return '?'
        if len(defs) > 2:
            return '?'
        return 'V'
    if isinstance(e, ast.IfExp):
        t = e.test
        # `x if isinstance(x, tuple) else (x,)`: in the first arm x is a sequence (of whatever was stored)
        if isinstance(t, ast.Call) and call_name(t) == 'isinstance' and len(t.args) == 2 and unparse(t.args[0]) == unparse(e.body) and \
                any(n_ in unparse(t.args[1]) for n_ in ('tuple', 'list')):
            a = ['*', 'U']
        else:
            a = _loaded_shape(e.body, owner, depth + 1, scope)
        b = _loaded_shape(e.orelse, owner, depth + 1, scope)
        return a if a == b else ['|', a, b]
    if isinstance(e, ast.Call):
        nm = call_name(e)
        if isinstance(e.func, ast.Attribute) and nm == 'object' and unparse(e.func.value) == 'context':
            return 'O'
        if isinstance(e.func, ast.Name) and nm in ('list', 'tuple', 'sorted', 'set', 'frozenset') and len(e.args) == 1:
            return _loaded_shape(e.args[0], owner, depth + 1, scope)
        if isinstance(e.func, ast.Name) and nm in ('dict', 'OrderedDict') and len(e.args) == 1:
            inner = _loaded_shape(e.args[0], owner, depth + 1, scope)
            if isinstance(inner, list) and len(inner) == 2 and inner[0] == '*' and isinstance(inner[1], list) and len(inner[1]) == 2:
                return {'k': inner[1][0], 'v': inner[1][1]}
            return 'V'
        if isinstance(e.func, ast.Name) and nm == 'map' and len(e.args) == 2:
            return ['*', 'O' if unparse(e.args[0]) == 'context.object' else 'V']
        if isinstance(e.func, ast.Name):
            for d in ast.walk(owner.node):
                if isinstance(d, ast.FunctionDef) and d.name == e.func.id and d is not owner.node:
                    rets = [r for r in ast.walk(d) if isinstance(r, ast.Return) and r.value is not None]
                    if len(rets) == 1:
                        return _loaded_shape(rets[0].value, owner, depth + 1, d)
            # a module-level helper of the loaders (what it returns, read in its own scope)
            ix_ = getattr(owner, 'index', None)
            mod_ = getattr(owner, 'module', None)
            g = ix_.functions.get('%s.%s' % (mod_.name, e.func.id)) if ix_ is not None and mod_ is not None else None
            if g is not None and g.raw_node is not getattr(owner, 'raw_node', None):
                rets = [r for r in ast.walk(g.raw_node) if isinstance(r, ast.Return) and r.value is not None]
                if len(rets) == 1:
                    return _loaded_shape(rets[0].value, owner, depth + 1, g.raw_node)
        return 'V'
    if isinstance(e, (ast.List, ast.Tuple)):
        return [_loaded_shape(x, owner, depth + 1, scope) for x in e.elts]
    if isinstance(e, (ast.ListComp, ast.GeneratorExp, ast.SetComp)):
        return ['*', _loaded_shape(e.elt, owner, depth + 1, scope)]
    if isinstance(e, ast.DictComp):
        return {'k': _loaded_shape(e.key, owner, depth + 1, scope), 'v': _loaded_shape(e.value, owner, depth + 1, scope)}
    return 'V'


def _instance_of(a, b):
    """Is layout ``a`` a special case of layout ``b``?  (a fixed sequence of s is a case of "any number of s")"""
    if a == b or a == 'U':
        return True
    if isinstance(a, list) and len(a) == 3 and a[0] == '|':
        return _instance_of(a[1], b) and _instance_of(a[2], b)
    if isinstance(b, list) and len(b) == 2 and b[0] == '*':
        if isinstance(a, list) and not (len(a) == 2 and a[0] == '*'):
            return all(_instance_of(x, b[1]) for x in a)
        if isinstance(a, list) and len(a) == 2 and a[0] == '*':
            return _instance_of(a[1], b[1])
        return False
    if isinstance(a, list) and isinstance(b, list) and len(a) == len(b):
        return all(_instance_of(x, y) for x, y in zip(a, b))
    if isinstance(a, dict) and isinstance(b, dict):
        return _instance_of(a['k'], b['k']) and _instance_of(a['v'], b['v'])
    return False


def rule_h(ctx, ix, reg):
    """The loaders of all versions build the same object: a field that several versions set directly has to come out in the layout
    the newest version (and the rest of the package) uses - an old version that stored less (one identifier where there is now a
    tuple of them) converts while loading."""
    R = 'C12.h'
    ctx.describe(R, 'a field set by the loaders of several versions has the layout of the newest version in each of them', floor=2)
    n = 0
    for t in sorted(reg.loaders):
        vers = sorted(reg.loaders[t])
        if len(vers) < 2:
            continue
        stores = {}
        for v in vers:
            ld = reg.loaders[t][v]
            if ld.cls is not None:
                continue
            # the object being restored: what the loader yields / returns (whatever the local is called)
            objs = {x.value.id for x in ast.walk(ld.node) if isinstance(x, (ast.Yield, ast.Return)) and isinstance(x.value, ast.Name)}
            for st in ast.walk(ld.node):
                if isinstance(st, ast.Assign) and len(st.targets) == 1 and isinstance(st.targets[0], ast.Attribute) and \
                        isinstance(st.targets[0].value, ast.Name) and st.targets[0].value.id in objs:
                    stores.setdefault(st.targets[0].attr, {})[v] = (st, ld)
        for fld, byv in sorted(stores.items()):
            if len(byv) < 2:
                continue
            newest = max(byv)
            ref = _loaded_shape(byv[newest][0].value, byv[newest][1])
            if ref == 'V':
                continue
            for v in sorted(byv):
                if v == newest:
                    continue
                n += 1
                st, ld = byv[v]
                sh = _loaded_shape(st.value, ld)
                if '?' in json.dumps(sh):
                    raise AnalysisError('C12.h: %s builds .%s from a local with several definitions in a form the layout reader does not know' % (ld.name, fld))
                ctx.ob(R, '%s v%d .%s' % (t.rpartition('.')[2], v, fld), 'the version-%d loader builds %s in the layout of version %d' % (v, fld, newest),
                       _instance_of(sh, ref),
                       detail='%s (version %d of %s) sets .%s to %s, the version-%d loader to %s: what a version-%d record restores to '
                              'is not what the rest of the package expects there (for _key_joins: a bare identifier where the join code '
                              'takes the length of a tuple of identifiers - the restored join raises on first use)'
                              % (ld.name, v, t.rpartition('.')[2], fld, sh, newest, ref, v), where=where(ld, st))
            # a version whose own saver stored a whole sequence under one reference (context.id(v) of something the newest saver
            # iterates) gets that sequence back from context.object: its loader must not wrap it unconditionally
            svs = reg.savers.get(t, {})
            with_rows = [v_ for v_ in sorted(svs) if _record_rows(svs[v_], fld)[0] is not None]
            for v in sorted(byv):
                if v not in with_rows or v == with_rows[-1]:
                    continue
                whole = _whole_sequence_positions(svs[v], svs[with_rows[-1]], fld)
                if not whole:
                    continue
                st, ld = byv[v]
                comps = [c for c in ast.walk(st.value) if isinstance(c, (ast.GeneratorExp, ast.ListComp, ast.DictComp, ast.SetComp))
                         and fld in unparse(c.generators[0].iter)]
                if not comps:
                    raise AnalysisError('C12.h: %s no longer reads %s in a comprehension over the record' % (ld.name, fld))
                tg = _flat_names(comps[0].generators[0].target)
                for i in sorted(whole):
                    if i >= len(tg):
                        continue
                    name = tg[i]
                    for c in [c for c in ast.walk(comps[0]) if isinstance(c, ast.Call) and any(isinstance(a, ast.Name) and a.id == name for a in c.args)]:
                        if call_name(c) == 'object':
                            continue
                        sh = _loaded_shape(c, ld)
                        if '?' in json.dumps(sh):
                            raise AnalysisError('C12.h: %s restores %s through a local with several definitions in a form the layout reader does not know' % (ld.name, fld))
                        n += 1
                        ctx.ob(R, '%s v%d .%s[%d]' % (t.rpartition('.')[2], v, fld, i),
                               'what the version-%d saver stored as a whole sequence is not wrapped again by the version-%d loader' % (v, v),
                               sh == 'O' or '*' in json.dumps(sh),
                               detail='%s restores entry %d of %s as %s, a fixed-length wrapper around context.object(...): the version-%d '
                                      'saver stores the whole tuple of identifiers under one reference, so the loader gets the tuple back and '
                                      'wraps it a second time - the restored join holds a tuple inside a tuple'
                                      % (ld.name, i, fld, sh, v), where=where(ld, c))
    if n < 2:
        raise AnalysisError('C12.h: only %d fields set by several loader versions found' % n)


def _flat_names(t):
    if isinstance(t, ast.Name):
        return [t.id]
    out = []
    for e in getattr(t, 'elts', []):
        out += _flat_names(e)
    return out


def _record_rows(saver, fld):
    """(element expressions of one saved row, loop variables by position) for `result[fld] = [[e0, e1, ..] for <targets> in ...]`."""
    for st in ast.walk(saver.node):
        if isinstance(st, ast.Assign) and isinstance(st.targets[0], ast.Subscript) and isinstance(st.targets[0].slice, ast.Constant) \
                and st.targets[0].slice.value == fld:
            for c in ast.walk(st.value):
                if isinstance(c, (ast.ListComp, ast.GeneratorExp)) and isinstance(c.elt, (ast.List, ast.Tuple)):
                    return list(c.elt.elts), _flat_names(c.generators[0].target)
    return None, None


def _whole_sequence_positions(saver, newest, fld):
    rows, names = _record_rows(saver, fld)
    nrows, nnames = _record_rows(newest, fld)
    if rows is None or nrows is None or len(rows) != len(nrows):
        return set()
    out = set()
    for i, (e, ne) in enumerate(zip(rows, nrows)):
        if not (isinstance(e, ast.Call) and call_name(e) == 'id' and len(e.args) == 1 and isinstance(e.args[0], ast.Name) and e.args[0].id in names):
            continue
        # the newest saver iterates the value at this position: a comprehension over it, or a local helper that has one over its parameter
        iterates = False
        for c in ast.walk(ne):
            if isinstance(c, (ast.GeneratorExp, ast.ListComp)) and isinstance(c.generators[0].iter, ast.Name) and c.generators[0].iter.id in nnames:
                iterates = True
        if isinstance(ne, ast.Call) and isinstance(ne.func, ast.Name) and len(ne.args) == 1 and isinstance(ne.args[0], ast.Name) and ne.args[0].id in nnames:
            for d in ast.walk(newest.node):
                if isinstance(d, ast.FunctionDef) and d.name == ne.func.id and d.args.args:
                    p0 = d.args.args[0].arg
                    iterates = iterates or any(isinstance(c, (ast.GeneratorExp, ast.ListComp, ast.For)) and isinstance(
                        (c.generators[0].iter if not isinstance(c, ast.For) else c.iter), ast.Name) and
                        (c.generators[0].iter if not isinstance(c, ast.For) else c.iter).id == p0 for c in ast.walk(d))
        if iterates:
            out.add(i)
    return out


def rule_i(ctx, ix):
    """GlueUnSerializer.object runs with label disambiguation switched off (registry.disable) and is recursive: the decorator has
    to put back the value it found, not "on" - otherwise the first nested object() that returns switches disambiguation back
    on in the middle of the outer load, and labels read after that are silently renamed (sub -> sub_01)."""
    R = 'C12.i'
    ctx.describe(R, 'the decorator that switches label disambiguation off around a (recursive) load restores the value it found', floor=2)
    f = ix.func('glue.core.registry.disable')
    inner = [n for n in f.node.body if isinstance(n, ast.FunctionDef)]
    if len(inner) != 1:
        raise AnalysisError('registry.disable: wrapper not recognised')
    w = inner[0]
    tries = [t for t in ast.walk(w) if isinstance(t, ast.Try) and t.finalbody]
    if len(tries) != 1:
        raise AnalysisError('registry.disable: try/finally not recognised')
    fin = [st for x in tries[0].finalbody for st in ast.walk(x) if isinstance(st, ast.Assign) and isinstance(st.targets[0], ast.Attribute)]
    pre = [st for st in ast.walk(w) if isinstance(st, ast.Assign) and isinstance(st.targets[0], ast.Attribute) and st not in fin]
    if not fin or not pre:
        raise AnalysisError('registry.disable: set / restore of the flag not recognised')
    flag = unparse(pre[0].targets[0])
    saved = {st.targets[0].id for st in ast.walk(w) if isinstance(st, ast.Assign) and isinstance(st.targets[0], ast.Name)
             and unparse(st.value) == flag and st.lineno < pre[0].lineno}
    ctx.ob(R, f.construct + ' save', 'the value of the flag is read before it is set', bool(saved),
           detail='registry.disable no longer saves the previous value of %s' % flag, where=f.where)
    ok = all(unparse(st.targets[0]) == flag and isinstance(st.value, ast.Name) and st.value.id in saved for st in fin)
    ctx.ob(R, f.construct + ' restore', 'the finally clause puts back the saved value', ok,
           detail='registry.disable sets %s to `%s` on exit instead of the value it found: GlueUnSerializer.object calls itself, so the '
                  'first nested call that returns switches label disambiguation back on while the outer load is still running, and a '
                  'subset label that was seen before is renamed on load' % (flag, unparse(fin[0].value)), where=f.where)
    un = ix.cls('glue.core.state.GlueUnSerializer')
    g = un.resolve_func('object')
    deco = any('disable' in unparse(d) for d in g.raw_node.decorator_list)
    ctx.ob(R, g.construct, 'object() runs under the decorator (read from the code: %s)' % deco, True, nontrivial=False)


def rule_j(ctx, ix):
    """The upgrade of version-1 collections (plain subsets -> subset groups) hands selection, style and label of the old subset
    to the new group as they are: by assignment, or through a parameter the callee does not replace when it is falsy."""
    R = 'C12.j'
    ctx.describe(R, 'coerce_subset_groups transfers state, style and label of a plain subset unchanged (no truth-value defaulting on the way)', floor=3)
    f = ix.func('glue.core.subset_group.coerce_subset_groups')
    loops = [lp for lp in ast.walk(f.node) if isinstance(lp, ast.For) and unparse(lp.iter).endswith('.subsets')]
    if len(loops) != 1 or not isinstance(loops[0].target, ast.Name):
        raise AnalysisError('coerce_subset_groups: the loop over data.subsets is no longer recognised')
    old = loops[0].target.id
    dc = ix.cls('glue.core.data_collection.DataCollection')
    for attr in ('subset_state', 'style', 'label'):
        src = '%s.%s' % (old, attr)
        how, ok, detail, at = None, False, 'coerce_subset_groups never hands `%s` to the new group: a version-1 session loses the %s of its subsets' % (src, attr), f.where
        for st in ast.walk(loops[0]):
            if isinstance(st, ast.Assign) and unparse(st.value) == src and isinstance(st.targets[0], ast.Attribute) and st.targets[0].attr == attr:
                how, ok = 'assigned', True
            elif isinstance(st, ast.For) and isinstance(st.target, ast.Name) and isinstance(st.iter, (ast.Tuple, ast.List)) and any(
                    isinstance(e_, ast.Constant) and e_.value == attr for e_ in st.iter.elts):
                # for name in ('subset_state', 'style', 'label'): setattr(grp, name, getattr(subset, name))
                for c_ in calls_in(st):
                    if call_name(c_) == 'setattr' and len(c_.args) == 3 and unparse(c_.args[1]) == st.target.id and \
                            unparse(c_.args[2]).replace(' ', '') == 'getattr(%s,%s)' % (old, st.target.id):
                        how, ok = 'assigned (setattr)', True
            elif isinstance(st, ast.Call):
                passed = [(k.arg, k.value) for k in st.keywords if k.arg is not None]
                g0 = dc.resolve_func(call_name(st)) if isinstance(st.func, ast.Attribute) and call_name(st) else None
                if g0 is not None:
                    ps_ = [p_ for p_ in g0.params if p_ != g0.self_name]
                    passed += [(ps_[i_], a_) for i_, a_ in enumerate(st.args) if i_ < len(ps_) and not isinstance(a_, ast.Starred)]
                for karg, kval in passed:
                    k = ast.keyword(arg=karg, value=kval)
                    if unparse(k.value) == src:
                        g = g0
                        if g is None:
                            raise AnalysisError('coerce_subset_groups: `%s` is passed to %s, which is not resolved' % (src, unparse(st.func)))
                        how = 'passed to %s(%s=...)' % (g.construct, k.arg)
                        repl = [n for n in ast.walk(g.node) if isinstance(n, ast.BoolOp) and isinstance(n.op, ast.Or)
                                and isinstance(n.values[0], ast.Name) and n.values[0].id == k.arg]
                        from .. import cond
                        for a_ in ast.walk(g.node):
                            if isinstance(a_, ast.Assign) and any(isinstance(t, ast.Name) and t.id == k.arg for t in a_.targets):
                                pc = cond.path_condition(g.node, a_, expand=False) or ('const', True)
                                if any(x == k.arg for x in cond.atoms(pc)):
                                    repl.append(a_)
                        ok = not repl
                        at = where(f, st)
                        if repl:
                            detail = ('coerce_subset_groups passes `%s` to %s parameter %s, which is replaced when falsy (`%s`): a version-1 '
                                      'session whose subset has an empty %s comes back with the default instead of what was saved'
                                      % (src, g.construct, k.arg, norm(repl[0]), attr))
        ctx.ob(R, '%s %s' % (f.construct, attr), 'the %s of the old subset reaches the group unchanged (%s)' % (attr, how), ok, detail=detail, where=at)
