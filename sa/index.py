"""E1/E2 - source index, name resolution and static class model.

Parses every non-test module under <root>/glue on every run (nothing from
``glue`` is imported).  An ``overlay`` {relpath: source} replaces the on-disk
text of a module - used by the self-test to evaluate rules on in-memory
variants of the current tree.
"""
import ast
import hashlib
import os

PKG = 'glue'


class AnalysisError(Exception):
    """The analyser cannot decide (vanished anchor, unknown idiom, ...)."""


class _ConstRight(ast.NodeTransformer):
    """`0 <= v` is `v >= 0`: a comparison with a literal on the left is read with the literal on the right (one orientation for
    the rules that look at comparison text; the package itself writes literals on the right throughout)."""
    FLIP = {ast.Eq: ast.Eq, ast.NotEq: ast.NotEq, ast.Lt: ast.Gt, ast.Gt: ast.Lt, ast.LtE: ast.GtE, ast.GtE: ast.LtE}

    def visit_Compare(self, node):
        self.generic_visit(node)
        if len(node.ops) == 1 and type(node.ops[0]) in self.FLIP and isinstance(node.left, ast.Constant) and \
                not isinstance(node.comparators[0], ast.Constant):
            return ast.copy_location(ast.Compare(left=node.comparators[0], ops=[self.FLIP[type(node.ops[0])]()], comparators=[node.left]), node)
        return node


class Module(object):
    def __init__(self, name, relpath, source, is_pkg, tree=None):
        self.name = name
        self.relpath = relpath
        self.source = source
        self.is_pkg = is_pkg
        self.tree = _ConstRight().visit(tree if tree is not None else ast.parse(source, filename=relpath))
        self.sha = hashlib.sha256(source.encode('utf8')).hexdigest()[:16]
        self.imports = {}     # local name -> dotted target
        self.defs = {}        # top-level name -> node (last definition wins)
        self.assigns = {}     # top-level name -> value node
        self._scan()

    @property
    def package(self):
        return self.name if self.is_pkg else self.name.rpartition('.')[0]

    def _abs(self, level, mod):
        if level == 0:
            return mod or ''
        base = self.package.split('.')
        if level > 1:
            base = base[:-(level - 1)]
        return '.'.join(base + ([mod] if mod else []))

    def _scan_stmts(self, body):
        for st in body:
            if isinstance(st, ast.Import):
                for a in st.names:
                    if a.asname:
                        self.imports[a.asname] = a.name
                    else:
                        top = a.name.split('.')[0]
                        self.imports[top] = top
            elif isinstance(st, ast.ImportFrom):
                base = self._abs(st.level, st.module)
                for a in st.names:
                    if a.name == '*':
                        self.imports.setdefault('*', []).append(base)
                    else:
                        self.imports[a.asname or a.name] = base + '.' + a.name
            elif isinstance(st, (ast.FunctionDef, ast.AsyncFunctionDef, ast.ClassDef)):
                self.defs[st.name] = st
            elif isinstance(st, ast.Assign):
                for t in st.targets:
                    if isinstance(t, ast.Name):
                        self.defs[t.id] = st
                        self.assigns[t.id] = st.value
            elif isinstance(st, ast.AnnAssign) and isinstance(st.target, ast.Name) and st.value is not None:
                self.defs[st.target.id] = st
                self.assigns[st.target.id] = st.value
            elif isinstance(st, (ast.If, ast.Try)):
                # conditional imports / definitions at module level
                self._scan_stmts(st.body)
                self._scan_stmts(getattr(st, 'orelse', []))
                for h in getattr(st, 'handlers', []):
                    self._scan_stmts(h.body)
                self._scan_stmts(getattr(st, 'finalbody', []))
            elif isinstance(st, ast.With):
                self._scan_stmts(st.body)

    def _scan(self):
        self._scan_stmts(self.tree.body)


class Func(object):
    """A function or method definition."""

    def __init__(self, index, module, node, cls=None):
        self.index = index
        self.module = module
        self.raw_node = node
        self._expanded = None
        self.cls = cls
        self.name = node.name
        self.qualname = (cls.qualname if cls else module.name) + '.' + node.name
        self.decorators = [index.resolve_expr(module, _deco_head(d)) for d in node.decorator_list]
        self.decorator_nodes = list(node.decorator_list)

    @property
    def node(self):
        """The definition with calls to *new* private helpers (not in sa/known_functions.txt) replaced by their bodies;
        identical to ``raw_node`` on the tree the rule tables were frozen on (see sa/inline.py).  A new private helper whose
        every call was inlined into its callers is presented as an empty function: its statements are analysed where they
        run (in the callers), not a second time out of context."""
        if self.index.helper_status(self) == 'inlined':
            if getattr(self, '_stub', None) is None:
                import copy
                self._stub = copy.copy(self.raw_node)
                self._stub.body = [ast.copy_location(ast.Pass(), self.raw_node)]
            return self._stub
        if self._expanded is None:
            if self.index.known_functions is None:
                self._expanded = self.raw_node
            else:
                from .inline import Inliner
                self._expanded = self.raw_node      # guards against recursion while expanding
                try:
                    self._expanded = Inliner(self.index).expand(self)
                except RecursionError:
                    self._expanded = self.raw_node
            if not os.environ.get('VERIF_NO_FOLD'):
                self._expanded = fold_return_temps(self._expanded)
            if not os.environ.get('VERIF_NO_COMPSCOPE'):
                self._expanded = scope_comprehension_vars(self._expanded)
        return self._expanded

    @property
    def construct(self):
        if self.cls is not None:
            return '%s:%s.%s' % (self.module.name, self.cls.name, self.name)
        return '%s:%s' % (self.module.name, self.name)

    @property
    def where(self):
        return '%s:%d' % (self.module.relpath, self.raw_node.lineno)

    def has_decorator(self, *names):
        return any(d in names or (d or '').rpartition('.')[2] in names for d in self.decorators)

    @property
    def params(self):
        a = self.raw_node.args
        return [x.arg for x in a.posonlyargs + a.args]

    @property
    def self_name(self):
        if self.cls is None or self.has_decorator('staticmethod'):
            return None
        p = self.params
        return p[0] if p else None

    def __repr__(self):
        return '<Func %s>' % self.qualname


def _deco_head(d):
    # @a.b(c).d -> we keep the full expression for calls: resolve the callee
    if isinstance(d, ast.Call):
        return d.func
    return d


class Member(object):
    """What ``resolve(C, name)`` returns."""
    # kind: method | property | classmethod | staticmethod | attr

    def __init__(self, kind, owner, name, func=None, fget=None, fset=None, fdel=None, value=None):
        self.kind = kind
        self.owner = owner
        self.name = name
        self.func = func
        self.fget = fget
        self.fset = fset
        self.fdel = fdel
        self.value = value

    def __repr__(self):
        return '<Member %s %s.%s>' % (self.kind, self.owner.qualname, self.name)


class Class(object):
    def __init__(self, index, module, node):
        self.index = index
        self.module = module
        self.node = node
        self.name = node.name
        self.qualname = module.name + '.' + node.name
        self.base_names = []
        self.members = {}
        self._mro = None

    @property
    def construct(self):
        return '%s:%s' % (self.module.name, self.name)

    @property
    def where(self):
        return '%s:%d' % (self.module.relpath, self.node.lineno)

    def _build(self):
        idx = self.index
        self.base_names = [idx.resolve_expr(self.module, b) for b in self.node.bases]
        for st in self.node.body:
            if isinstance(st, (ast.FunctionDef, ast.AsyncFunctionDef)):
                f = Func(idx, self.module, st, cls=self)
                decos = [ast.unparse(d) for d in st.decorator_list]
                if any(d == 'property' or d.endswith('abstractproperty') or d.endswith('.abstractproperty')
                       or d == 'cached_property' for d in decos):
                    self.members[st.name] = Member('property', self, st.name, fget=f)
                elif any(d.endswith('.setter') for d in decos):
                    m = self.members.get(st.name)
                    if m is None or m.kind != 'property':
                        m = self._inherit_property(st.name)
                        self.members[st.name] = m
                    m.fset = f
                elif any(d.endswith('.deleter') for d in decos):
                    m = self.members.get(st.name)
                    if m is not None and m.kind == 'property':
                        m.fdel = f
                elif any(d.endswith('.getter') for d in decos):
                    m = self.members.get(st.name)
                    if m is None or m.kind != 'property':
                        m = self._inherit_property(st.name)
                        self.members[st.name] = m
                    m.fget = f
                elif 'classmethod' in decos:
                    self.members[st.name] = Member('classmethod', self, st.name, func=f)
                elif 'staticmethod' in decos:
                    self.members[st.name] = Member('staticmethod', self, st.name, func=f)
                else:
                    self.members[st.name] = Member('method', self, st.name, func=f)
            elif isinstance(st, ast.Assign):
                for t in st.targets:
                    if isinstance(t, ast.Name):
                        self.members[t.id] = Member('attr', self, t.id, value=st.value)
            elif isinstance(st, ast.AnnAssign) and isinstance(st.target, ast.Name):
                self.members[st.target.id] = Member('attr', self, st.target.id, value=st.value)

    def _inherit_property(self, name):
        # ``@Base.prop.setter`` in a subclass: start from a copy of the base property
        return Member('property', self, name)

    # -- hierarchy ---------------------------------------------------------
    @property
    def bases(self):
        """Resolved in-package base classes (externals dropped)."""
        out = []
        for b in self.base_names:
            c = self.index.classes.get(b)
            if c is not None:
                out.append(c)
        return out

    @property
    def external_bases(self):
        return [b for b in self.base_names if b not in self.index.classes]

    def mro(self):
        if self._mro is None:
            self._mro = _c3(self)
        return self._mro

    def is_subclass_of(self, other):
        q = other.qualname if isinstance(other, Class) else other
        return any(c.qualname == q for c in self.mro())

    def resolve(self, name, after=None):
        """First definition of ``name`` along the MRO (after class ``after``
        when given, i.e. ``super(after, self).name``)."""
        mro = self.mro()
        if after is not None:
            q = after.qualname if isinstance(after, Class) else after
            names = [c.qualname for c in mro]
            if q in names:
                mro = mro[names.index(q) + 1:]
        for c in mro:
            if name in c.members:
                return c.members[name]
        return None

    def resolve_func(self, name, after=None):
        m = self.resolve(name, after=after)
        if m is None:
            return None
        if m.kind in ('method', 'classmethod', 'staticmethod'):
            return m.func
        return None

    def subclasses(self, strict=False):
        out = []
        for c in self.index.classes.values():
            if c.is_subclass_of(self) and not (strict and c is self):
                out.append(c)
        out.sort(key=lambda c: c.qualname)
        return out

    def all_member_names(self):
        names = set()
        for c in self.mro():
            names.update(c.members)
        return names

    def __repr__(self):
        return '<Class %s>' % self.qualname


def _c3(cls):
    def merge(seqs):
        res = []
        seqs = [list(s) for s in seqs if s]
        while seqs:
            for s in seqs:
                cand = s[0]
                if not any(cand in t[1:] for t in seqs):
                    break
            else:
                # inconsistent hierarchy - fall back to depth-first order
                cand = seqs[0][0]
            res.append(cand)
            seqs = [[x for x in s if x is not cand] for s in seqs]
            seqs = [s for s in seqs if s]
        return res
    bases = cls.bases
    return [cls] + merge([b.mro() for b in bases] + [bases])


class Index(object):
    def __init__(self, root='/repo', overlay=None):
        self.root = root
        self.overlay = dict(overlay or {})
        self.modules = {}
        self.classes = {}
        self.functions = {}
        self.consulted = set()
        self.known_functions = None
        self.inlined_calls = {}
        self._helper_status = {}
        kf = os.path.join(os.path.dirname(os.path.abspath(__file__)), 'known_functions.txt')
        if os.path.exists(kf) and not os.environ.get('VERIF_NO_INLINE'):
            with open(kf) as fh:
                self.known_functions = set(l.strip() for l in fh if l.strip() and not l.startswith('#'))
        self._load()

    def helper_status(self, func):
        """'known' (the function existed when the rule tables were frozen), 'inlined' (a new private helper all of whose
        call sites - every reference to its name in its module - were replaced by its body) or 'new'."""
        if self.known_functions is None or func.qualname in self.known_functions or not func.name.startswith('_') \
                or func.name.startswith('__'):
            return 'known'
        key = id(func.raw_node)
        if key in self._helper_status:
            return self._helper_status[key]
        self._helper_status[key] = 'new'          # while computing (recursion through Func.node)
        mod = func.module
        refs = 0
        for n in ast.walk(mod.tree):
            if isinstance(n, ast.Name) and n.id == func.name and isinstance(n.ctx, ast.Load):
                refs += 1
            elif isinstance(n, ast.Attribute) and n.attr == func.name and isinstance(n.ctx, ast.Load):
                refs += 1
        # references from other modules make the helper part of an interface: analyse it on its own
        for m in self.modules.values():
            if m is not mod and func.name in m.source:
                self._helper_status[key] = 'new'
                return 'new'
        for f in list(self.functions.values()):
            if f.module is mod and f is not func:
                f.node
        for c in self.classes.values():
            if c.module is mod:
                for mem in c.members.values():
                    for g in (mem.func, mem.fget, mem.fset, mem.fdel):
                        if g is not None and g is not func and g.module is mod:
                            g.node
        status = 'inlined' if refs > 0 and self.inlined_calls.get(key, 0) >= refs else 'new'
        self._helper_status[key] = status
        return status

    # -- loading -------------------------------------------------------------
    def _load(self):
        base = os.path.join(self.root, PKG)
        if not os.path.isdir(base):
            raise AnalysisError('package directory %s not found' % base)
        parsed = []
        for dirpath, dirnames, filenames in os.walk(base):
            dirnames[:] = sorted(d for d in dirnames if d not in ('tests', '__pycache__'))
            for fn in sorted(filenames):
                if not fn.endswith('.py') or fn == 'conftest.py':
                    continue
                full = os.path.join(dirpath, fn)
                rel = os.path.relpath(full, self.root)
                parts = rel[:-3].split(os.sep)
                is_pkg = parts[-1] == '__init__'
                if is_pkg:
                    parts = parts[:-1]
                name = '.'.join(parts)
                if rel in self.overlay:
                    src = self.overlay[rel]
                else:
                    with open(full, encoding='utf8') as fh:
                        src = fh.read()
                try:
                    parsed.append((name, rel, src, is_pkg, ast.parse(src, filename=rel)))
                except SyntaxError as exc:
                    raise AnalysisError('cannot parse %s: %s' % (rel, exc))
        # private functions that were only renamed are read under the name the rules know (sa/fingerprint.py)
        self.renamed = {}
        if self.known_functions is not None and not os.environ.get('VERIF_NO_RENAME_RECOVERY'):
            from . import fingerprint as fp
            known = fp.load_known(os.path.join(os.path.dirname(os.path.abspath(__file__)), 'known_fingerprints.txt'))
            if known:
                self.renamed = fp.recover_renames({n: t for n, r, s_, p, t in parsed}, known)
                if self.renamed:
                    for n, r, s_, p, t in parsed:
                        fp.Renamer(self.renamed).visit(t)
        for name, rel, src, is_pkg, tree in parsed:
            self.modules[name] = Module(name, rel, src, is_pkg, tree=tree)
        for m in self.modules.values():
            for node in m.defs.values():
                if isinstance(node, ast.ClassDef):
                    c = Class(self, m, node)
                    self.classes[c.qualname] = c
        for c in self.classes.values():
            c._build()
        for m in self.modules.values():
            for node in m.defs.values():
                if isinstance(node, (ast.FunctionDef, ast.AsyncFunctionDef)):
                    f = Func(self, m, node)
                    self.functions[f.qualname] = f

    # -- lookup --------------------------------------------------------------
    def module(self, name):
        m = self.modules.get(name)
        if m is None:
            raise AnalysisError('module %s not found' % name)
        self.consulted.add(m.relpath)
        return m

    def cls(self, qualname):
        c = self.classes.get(self.canonical(qualname))
        if c is None:
            raise AnalysisError('class %s not found' % qualname)
        self.consulted.add(c.module.relpath)
        return c

    def func(self, qualname):
        """Module-level function or Class.method by qualified name."""
        q = self.canonical(qualname)
        f = self.functions.get(q)
        if f is not None:
            self.consulted.add(f.module.relpath)
            return f
        head, _, meth = qualname.rpartition('.')
        c = self.classes.get(self.canonical(head))
        if c is not None:
            self.consulted.add(c.module.relpath)
            m = c.members.get(meth)
            if m is not None:
                if m.func is not None:
                    return m.func
                if m.kind == 'property' and m.fget is not None:
                    return m.fget
        raise AnalysisError('function %s not found' % qualname)

    def method(self, cls_qualname, name):
        """MRO-resolved method of a class (fails closed)."""
        c = self.cls(cls_qualname)
        f = c.resolve_func(name)
        if f is None:
            raise AnalysisError('%s has no method %s' % (cls_qualname, name))
        self.consulted.add(f.module.relpath)
        return f

    def canonical(self, dotted, _depth=0):
        """Follow re-exports: 'glue.core.Subset' -> 'glue.core.subset.Subset'."""
        if dotted is None or _depth > 12:
            return dotted
        if dotted in self.classes or dotted in self.functions or dotted in self.modules:
            return dotted
        parts = dotted.split('.')
        # longest module prefix
        for i in range(len(parts) - 1, 0, -1):
            mname = '.'.join(parts[:i])
            m = self.modules.get(mname)
            if m is None:
                continue
            rest = parts[i:]
            head = rest[0]
            if head in m.defs:
                return dotted
            if head in m.imports:
                target = m.imports[head]
                new = '.'.join([target] + rest[1:])
                if new == dotted:
                    return dotted
                return self.canonical(new, _depth + 1)
            for star in m.imports.get('*', []):
                sm = self.modules.get(star)
                if sm is not None and (head in sm.defs or head in sm.imports):
                    return self.canonical('.'.join([star] + rest), _depth + 1)
            sub = mname + '.' + head
            if sub in self.modules:
                continue
            return dotted
        return dotted

    def resolve_expr(self, module, node):
        """Resolve a Name/Attribute chain in module scope to a dotted name.

        Returns None for anything that is not a pure dotted chain."""
        chain = dotted_chain(node)
        if chain is None:
            return None
        head = chain[0]
        if head in module.defs:
            base = module.name + '.' + head
        elif head in module.imports:
            base = module.imports[head]
        else:
            for star in module.imports.get('*', []):
                sm = self.modules.get(star)
                if sm is not None and (head in sm.defs or head in sm.imports):
                    base = star + '.' + head
                    break
            else:
                base = head   # builtin or unknown
        return self.canonical('.'.join([base] + chain[1:]))

    def resolve_class(self, module, node):
        q = self.resolve_expr(module, node)
        return self.classes.get(q) if q else None

    def digests(self):
        out = {}
        for m in self.modules.values():
            if m.relpath in self.consulted:
                out[m.relpath] = m.sha
        return dict(sorted(out.items()))

    def read_text(self, relpath):
        """A non-Python file of the tree (e.g. the rename table)."""
        if relpath in self.overlay:
            txt = self.overlay[relpath]
        else:
            full = os.path.join(self.root, relpath)
            if not os.path.exists(full):
                raise AnalysisError('file %s not found' % relpath)
            with open(full, encoding='utf8') as fh:
                txt = fh.read()
        self.consulted.add(relpath)
        return txt


def scope_comprehension_vars(fnode):
    """A variable bound by a comprehension lives in the comprehension's own scope: `for cid in xs: ...` and, later,
    `[f(cid) for cid in ys]` are two variables.  Readings of a function by name (flow-insensitive environments) would join
    them, so a comprehension variable that shares its name with a function-level local or parameter gets a fresh name.
    Returns ``fnode`` itself when nothing collides (a copy otherwise)."""
    import copy
    comps = (ast.ListComp, ast.SetComp, ast.GeneratorExp, ast.DictComp)

    def function_level(node):
        out = {a.arg for a in node.args.posonlyargs + node.args.args + node.args.kwonlyargs}
        if node.args.vararg:
            out.add(node.args.vararg.arg)
        if node.args.kwarg:
            out.add(node.args.kwarg.arg)
        todo = list(node.body)
        while todo:
            n = todo.pop()
            if isinstance(n, comps + (ast.FunctionDef, ast.AsyncFunctionDef, ast.Lambda, ast.ClassDef)):
                if isinstance(n, comps):
                    todo.extend(ast.iter_child_nodes(n.generators[0].iter))
                    if isinstance(n.generators[0].iter, ast.Name):
                        pass
                continue
            if isinstance(n, ast.Name) and isinstance(n.ctx, (ast.Store, ast.Del)):
                out.add(n.id)
            todo.extend(ast.iter_child_nodes(n))
        return out
    level = function_level(fnode)
    if not level:
        return fnode
    hit = False
    for c in ast.walk(fnode):
        if isinstance(c, comps) and any(isinstance(n, ast.Name) and n.id in level for g in c.generators for n in ast.walk(g.target)):
            hit = True
            break
    if not hit:
        return fnode
    new = copy.deepcopy(fnode)
    allnames = {n.id for n in ast.walk(new) if isinstance(n, ast.Name)} | level
    for c in ast.walk(new):
        if not isinstance(c, comps):
            continue
        bound = {n.id for g in c.generators for n in ast.walk(g.target) if isinstance(n, ast.Name)}
        ren = {}
        for b in sorted(bound & level):
            k = b + '_'
            while k in allnames:
                k += '_'
            ren[b] = k
            allnames.add(k)
        if not ren:
            continue
        outer = {id(n) for n in ast.walk(c.generators[0].iter)}
        for n in ast.walk(c):
            if isinstance(n, ast.Name) and n.id in ren and id(n) not in outer:
                n.id = ren[n.id]
    return new


def fold_return_temps(fnode):
    """`t = EXPR` immediately followed by `return t`, where ``t`` is a plain local with no other use, is `return EXPR`.
    Rules read what a function returns off its return statements; a temporary introduced (or removed) in front of the
    return must not change what they see.  Returns ``fnode`` itself when nothing folds (a copy otherwise)."""
    import copy
    loads, stores = {}, {}
    for n in ast.walk(fnode):
        if isinstance(n, ast.Name):
            d = loads if isinstance(n.ctx, ast.Load) else stores
            d[n.id] = d.get(n.id, 0) + 1
    params = {a.arg for a in fnode.args.posonlyargs + fnode.args.args + fnode.args.kwonlyargs}

    def shape(a, r):
        return isinstance(a, ast.Assign) and len(a.targets) == 1 and isinstance(a.targets[0], ast.Name) and \
            isinstance(r, ast.Return) and isinstance(r.value, ast.Name) and r.value.id == a.targets[0].id
    # a name qualifies when ALL its uses are such pairs (one temporary name may serve several returns)
    pairs = {}

    def count(stmts):
        for i in range(len(stmts) - 1):
            if shape(stmts[i], stmts[i + 1]):
                pairs[stmts[i + 1].value.id] = pairs.get(stmts[i + 1].value.id, 0) + 1
        for st in stmts:
            for fld in ('body', 'orelse', 'finalbody'):
                seq = getattr(st, fld, None)
                if isinstance(seq, list) and seq and isinstance(seq[0], ast.stmt) and not isinstance(st, (ast.FunctionDef, ast.AsyncFunctionDef, ast.ClassDef)):
                    count(seq)
            if isinstance(st, ast.Try):
                for h in st.handlers:
                    count(h.body)
    count(fnode.body)

    def foldable(a, r):
        if not shape(a, r):
            return False
        t = r.value.id
        return t not in params and loads.get(t, 0) == pairs.get(t, 0) == stores.get(t, 0)

    def any_fold(stmts):
        for i in range(len(stmts) - 1):
            if foldable(stmts[i], stmts[i + 1]):
                return True
        for st in stmts:
            for fld in ('body', 'orelse', 'finalbody'):
                seq = getattr(st, fld, None)
                if isinstance(seq, list) and seq and isinstance(seq[0], ast.stmt) and not isinstance(st, (ast.FunctionDef, ast.AsyncFunctionDef, ast.ClassDef)):
                    if any_fold(seq):
                        return True
            if isinstance(st, ast.Try):
                for h in st.handlers:
                    if any_fold(h.body):
                        return True
        return False
    if not any_fold(fnode.body):
        return fnode
    new = copy.deepcopy(fnode)

    def fold(stmts):
        out = []
        i = 0
        while i < len(stmts):
            st = stmts[i]
            if i + 1 < len(stmts) and foldable(st, stmts[i + 1]):
                r = stmts[i + 1]
                nr = ast.copy_location(ast.Return(value=st.value), r)
                for attr in ('_orig_lineno',):
                    if hasattr(r, attr):
                        setattr(nr, attr, getattr(r, attr))
                out.append(nr)
                i += 2
                continue
            for fld in ('body', 'orelse', 'finalbody'):
                seq = getattr(st, fld, None)
                if isinstance(seq, list) and seq and isinstance(seq[0], ast.stmt) and not isinstance(st, (ast.FunctionDef, ast.AsyncFunctionDef, ast.ClassDef)):
                    setattr(st, fld, fold(seq))
            if isinstance(st, ast.Try):
                for h in st.handlers:
                    h.body = fold(h.body)
            out.append(st)
            i += 1
        return out
    new.body = fold(new.body)
    return new


def dotted_chain(node):
    parts = []
    while isinstance(node, ast.Attribute):
        parts.append(node.attr)
        node = node.value
    if isinstance(node, ast.Name):
        parts.append(node.id)
        return list(reversed(parts))
    return None


def unparse(node):
    try:
        return ast.unparse(node)
    except Exception:  # pragma: no cover
        return '<%s>' % type(node).__name__


def norm(node):
    """Normalised one-line text of a statement/expression (keys of reports)."""
    s = unparse(node)
    s = ' '.join(s.split())
    return s if len(s) <= 160 else s[:157] + '...'


def walk_no_nested(node, include_lambda=True):
    """Pre-order (source order) walk that does not descend into nested function/class definitions."""
    for n in ast.iter_child_nodes(node):
        yield n
        if isinstance(n, (ast.FunctionDef, ast.AsyncFunctionDef, ast.ClassDef)):
            continue
        if isinstance(n, ast.Lambda) and not include_lambda:
            continue
        for m in walk_no_nested(n, include_lambda):
            yield m


def body_stmts(func_node):
    """Function body without the docstring."""
    body = list(func_node.body)
    if body and isinstance(body[0], ast.Expr) and isinstance(body[0].value, ast.Constant) \
            and isinstance(body[0].value.value, str):
        body = body[1:]
    return body
