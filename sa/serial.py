"""E6 - the saver/loader registries and a static model of the (un)serialiser dispatch."""
import ast

from .index import AnalysisError, dotted_chain, unparse, walk_no_nested
from .fieldflow import FieldFlow

SAVER_DECOS = ('glue.core.state.saver', 'glue.core.state.GlueSerializer.serializes')
LOADER_DECOS = ('glue.core.state.loader', 'glue.core.state.GlueUnSerializer.unserializes')


class Registry(object):
    def __init__(self, index):
        self.ix = index
        self.savers = {}    # type qualname -> {version: Func}
        self.loaders = {}
        self.order = []     # (kind, type, version, Func) in registration order per module
        self.problems = []
        self._scan()
        self.ff = FieldFlow(index)
        self._sinfo = {}
        self._linfo = {}

    def _scan(self):
        ix = self.ix
        for m in ix.modules.values():
            for node in m.tree.body:
                if not isinstance(node, ast.FunctionDef):
                    continue
                for d in node.decorator_list:
                    if not isinstance(d, ast.Call):
                        continue
                    q = ix.resolve_expr(m, d.func)
                    kind = 'saver' if q in SAVER_DECOS else 'loader' if q in LOADER_DECOS else None
                    if kind is None:
                        continue
                    if not d.args:
                        self.problems.append('%s:%d decorator without a type' % (m.relpath, node.lineno))
                        continue
                    t = ix.resolve_expr(m, d.args[0])
                    if t is None:
                        self.problems.append('%s:%d type expression %s not resolvable' % (m.relpath, node.lineno, unparse(d.args[0])))
                        continue
                    v = 1
                    vexpr = None
                    if len(d.args) > 1:
                        vexpr = d.args[1]
                    for k in d.keywords:
                        if k.arg == 'version':
                            vexpr = k.value
                    if vexpr is not None:
                        if isinstance(vexpr, ast.Constant) and isinstance(vexpr.value, int):
                            v = vexpr.value
                        else:
                            self.problems.append('%s:%d non-literal version' % (m.relpath, node.lineno))
                            continue
                    f = ix.functions.get(m.name + '.' + node.name)
                    if f is None or f.node is not node:
                        # a later definition shadows this name; build a Func for this node
                        from .index import Func
                        f = Func(ix, m, node)
                    ix.consulted.add(m.relpath)
                    reg = self.savers if kind == 'saver' else self.loaders
                    reg.setdefault(t, {})
                    if v in reg[t]:
                        self.problems.append('%s:%d version %d of %s registered twice' % (m.relpath, node.lineno, v, t))
                    reg[t][v] = f
                    self.order.append((kind, t, v, f))

    # -- dispatch model ---------------------------------------------------------
    def _mro_names(self, cls):
        names = []
        for c in cls.mro():
            names.append(c.qualname)
        for c in cls.mro():
            for b in c.external_bases:
                if b and b not in names:
                    names.append(b)
        return names

    def saver_for(self, cls):
        """-> (kind, Func, version, via) ; kind in 'method'|'registry'|None"""
        m = cls.resolve('__gluestate__')
        if m is not None and m.func is not None:
            return 'method', m.func, 1, m.owner.qualname
        for name in self._mro_names(cls):
            if name in self.savers:
                v = max(self.savers[name])
                return 'registry', self.savers[name][v], v, name
        return None, None, None, None

    def loader_for(self, cls, version=1):
        m = cls.resolve('__setgluestate__')
        if m is not None and m.func is not None:
            return 'method', m.func, m.owner.qualname
        for name in self._mro_names(cls):
            if name in self.loaders and version in self.loaders[name]:
                return 'registry', self.loaders[name][version], name
        return None, None, None

    # -- cached analyses ---------------------------------------------------------
    def saver_info(self, func, objcls):
        key = (func.qualname, func.node.lineno, objcls.qualname if objcls else None)
        if key not in self._sinfo:
            self._sinfo[key] = self.ff.saver_keys(func, objcls)
        return self._sinfo[key]

    def loader_info(self, func, selfcls):
        key = (func.qualname, func.node.lineno, selfcls.qualname if selfcls else None)
        if key not in self._linfo:
            self._linfo[key] = self.ff.loader_flow(func, selfcls)
        return self._linfo[key]
