"""E9 - obligations, reports, known findings, evidence files, exit codes."""
import glob
import json
import os
import time

from .index import AnalysisError, norm

VERIF = os.path.dirname(os.path.dirname(os.path.abspath(__file__)))
EVIDENCE_DIR = os.path.join(VERIF, 'evidence')
REPLAY_DIR = os.path.join(EVIDENCE_DIR, 'replays')
KNOWN = os.path.join(VERIF, 'known_findings.json')


class Report(object):
    def __init__(self, prop, rule, construct, detail, where='', text='', path=None):
        self.prop = prop
        self.rule = rule
        self.construct = construct
        self.detail = detail
        self.where = where
        self.text = text
        self.path = path or []

    @property
    def key(self):
        return (self.prop, self.rule, self.construct)

    def as_dict(self):
        return dict(property=self.prop, rule=self.rule, construct=self.construct,
                    detail=self.detail, where=self.where, text=self.text, path=self.path)

    def line(self):
        s = '%s %s %s: %s' % (self.rule, self.where, self.construct, self.detail)
        if self.path:
            s += '  [path: %s]' % ' ; '.join(self.path)
        return s


class Ctx(object):
    """Collects what one run of one property's rules enumerated and decided."""

    def __init__(self, prop, index, tier='quick'):
        self.prop = prop
        self.index = index
        self.tier = tier
        self.reports = []
        self.rules = {}
        self.assumptions = []
        self.notes = []
        self.unrecognised = []
        self.errors = []
        self._seen_reports = set()

    def _rule(self, rule):
        r = self.rules.get(rule)
        if r is None:
            r = dict(instances=0, discharged=0, floor=None, reports=0, unresolved=[], unmodelled=[],
                     exceptions_used=[], samples=[], distinct=set(), what='')
            self.rules[rule] = r
        return r

    def describe(self, rule, what, floor=None):
        r = self._rule(rule)
        r['what'] = what
        if floor is not None:
            r['floor'] = floor

    def ob(self, rule, construct, what, ok, detail='', where='', text='', path=None, nontrivial=True):
        """One obligation: ``what`` must hold for ``construct``."""
        r = self._rule(rule)
        r['instances'] += 1
        if nontrivial:
            r['distinct'].add((construct, what))
        if len(r['samples']) < 4:
            r['samples'].append('%s: %s -> %s' % (construct, what, 'ok' if ok else 'VIOLATED'))
        if ok:
            r['discharged'] += 1
            return True
        self.report(rule, construct, detail or ('violated: ' + what), where=where, text=text, path=path)
        return False

    def report(self, rule, construct, detail, where='', text='', path=None):
        rep = Report(self.prop, rule, construct, detail, where, text, path)
        k = (rule, construct, detail)
        if k in self._seen_reports:
            return
        self._seen_reports.add(k)
        self._rule(rule)['reports'] += 1
        self.reports.append(rep)

    def idiom(self, rule, construct, what, accepted, absent, detail_absent, shape='', where=''):
        """Tri-state obligation for checks that recognise a list of idioms: the accepted form holds, the construct
        is absent / in a known-bad form (a violation), or it is present in a form the checker does not know
        (undecided -> ANALYSIS-ERROR, never a guess)."""
        if accepted:
            return self.ob(rule, construct, what, True)
        if absent:
            return self.ob(rule, construct, what, False, detail=detail_absent, where=where)
        self._rule(rule)['instances'] += 1
        self.unrecognised.append('%s %s: "%s" is written in a form the checker does not recognise: %s' % (rule, construct, what, shape))
        return None

    def exception(self, rule, row, reason):
        """A reasoned exception row was used."""
        self._rule(rule)['exceptions_used'].append('%s - %s' % (row, reason))

    def unmodelled(self, rule, construct, reason):
        self._rule(rule)['unmodelled'].append('%s - %s' % (construct, reason))

    def unresolved(self, rule, what):
        self._rule(rule)['unresolved'].append(what)

    def assume(self, text):
        if text not in self.assumptions:
            self.assumptions.append(text)

    def guard(self, fn, *args, **kw):
        """Run one rule; an AnalysisError (or an internal error) in it does not hide the verdicts of the other rules."""
        try:
            return fn(*args, **kw)
        except AnalysisError as exc:
            self.errors.append('%s: %s' % (fn.__name__, exc))
        except Exception as exc:
            import traceback
            self.errors.append('%s: internal error %s: %s @ %s' % (fn.__name__, type(exc).__name__, exc,
                                                                  traceback.format_exc().strip().splitlines()[-2].strip()))
        return None

    def unlisted_reports(self):
        """Reports that are not listed known findings (those are printed and do not decide anything)."""
        known = {(e['property'], e['rule'], e['construct']) for e in load_known()
                 if e.get('property') == self.prop and e.get('status') == 'finding'}
        return [r for r in self.reports if r.key not in known]

    def check_unrecognised(self):
        if self.unlisted_reports():
            return      # a violation is a verdict; undecided parts are listed in the evidence
        if self.errors:
            raise AnalysisError(' | '.join(self.errors[:3]))
        if self.unrecognised:
            raise AnalysisError('unrecognised idiom(s): ' + ' | '.join(self.unrecognised[:3]))

    def check_floors(self):
        if self.unlisted_reports():
            return      # a violation is a verdict (the reporting rule may have cut other rules short)
        for name, r in sorted(self.rules.items()):
            if r['floor'] is not None and r['instances'] < r['floor']:
                raise AnalysisError('rule %s matched %d instances, fewer than the %d confirmed by hand '
                                    '(anchor vanished or idiom no longer recognised)'
                                    % (name, r['instances'], r['floor']))


def fn_where(func_or_cls, node=None):
    mod = func_or_cls.module
    line = (node.lineno if node is not None and hasattr(node, 'lineno') else func_or_cls.node.lineno)
    return '%s:%d' % (mod.relpath, line)


def load_known():
    if not os.path.exists(KNOWN):
        return []
    with open(KNOWN) as fh:
        return json.load(fh).get('entries', [])


def finish(ctx, t0, error=None, selftest=None, quiet=False):
    """Print verdict lines, write evidence, return the exit code."""
    prop = ctx.prop
    os.makedirs(REPLAY_DIR, exist_ok=True)
    for old in glob.glob(os.path.join(REPLAY_DIR, '%s-*.json' % prop)):
        os.remove(old)
    known = [e for e in load_known() if e.get('property') == prop and e.get('status') == 'finding']
    known_keys = {(e['property'], e['rule'], e['construct']): e for e in known}
    violations = []
    known_seen = []
    for rep in ctx.reports:
        e = known_keys.get(rep.key)
        if e is not None:
            known_seen.append((e, rep))
        else:
            violations.append(rep)
    out = []
    printed_known = set()
    for e, rep in known_seen:
        if rep.key in printed_known:
            continue
        printed_known.add(rep.key)
        out.append('KNOWN-FINDING: property=%s %s %s - %s' % (prop, e['rule'], e['construct'], e.get('what', rep.detail)))
    digest = ctx.index.digests() if ctx.index is not None else {}
    for i, rep in enumerate(violations):
        path = os.path.join(REPLAY_DIR, '%s-%d.json' % (prop, i))
        d = rep.as_dict()
        d['tree_digest'] = digest
        with open(path, 'w') as fh:
            json.dump(d, fh, indent=1, sort_keys=True)
        out.append('VIOLATION property=%s replay=%s' % (prop, path))
        out.append('  ' + rep.line())
    obligations = sum(r['instances'] for r in ctx.rules.values())
    discharged = sum(r['discharged'] for r in ctx.rules.values())
    distinct = sum(len(r['distinct']) for r in ctx.rules.values())
    samples = []
    for name, r in sorted(ctx.rules.items()):
        samples += ['[%s] %s' % (name, s) for s in r['samples'][:3]]
    rules_ev = {}
    for name, r in sorted(ctx.rules.items()):
        rules_ev[name] = dict(what=r['what'], instances=r['instances'], discharged=r['discharged'],
                              floor=r['floor'], reports=r['reports'], unresolved=r['unresolved'],
                              unmodelled=r['unmodelled'], exceptions_used=r['exceptions_used'])
    from . import props
    meta = props.PROPS.get(prop, {})
    coverage = dict(
        explanation=meta.get('explanation', ''),
        decides=meta.get('decides', ''),
        does_not_decide=meta.get('not_decided', ''),
        obligations=obligations,
        discharged=discharged,
        evaluations=max(obligations, 0),
        distinct_nontrivial=distinct,
        rule='every rule instance is enumerated from the current source of /repo (ast); an instance is '
             'non-trivial when it names a concrete construct and a concrete obligation; distinct = distinct '
             '(construct, obligation) pairs',
        samples=samples or ['(none)'],
        exhaustive=True,
        rules=rules_ev,
        files_consulted=digest,
        known_findings_seen=['%s %s' % (e['rule'], e['construct']) for e, _ in known_seen],
        reports=[r.as_dict() for r in ctx.reports],
        checker_cmd='/venv/bin/python /verif/check.py %s --tier %s' % (prop, ctx.tier),
        trusted_base=['python ast parser', 'rule tables in /verif/sa (printed under rules.*.exceptions_used)'],
    )
    if error is not None:
        coverage['analysis_error'] = str(error)
    if ctx.errors:
        coverage['undecided_rules'] = ctx.errors
    if ctx.unrecognised:
        coverage['unrecognised_idioms'] = ctx.unrecognised
    if selftest is not None:
        coverage['selftest'] = selftest
    ev = dict(property_id=prop, tier=ctx.tier, seed=int(os.environ.get('VERIF_SEED', '0') or 0),
              level='other', coverage=coverage,
              assumptions=ctx.assumptions + meta.get('assumptions', []),
              wall_s=round(time.time() - t0, 3), violations=len(violations))
    os.makedirs(EVIDENCE_DIR, exist_ok=True)
    with open(os.path.join(EVIDENCE_DIR, '%s.json' % prop), 'w') as fh:
        json.dump(ev, fh, indent=1, sort_keys=True, default=str)
    if not quiet:
        for line in out:
            print(line)
    if error is not None:
        if not quiet:
            print('ANALYSIS-ERROR property=%s %s' % (prop, error))
        return 2
    if violations:
        return 1
    if not quiet:
        print('OK property=%s tier=%s obligations=%d discharged=%d known_findings=%d rules=%d wall=%.2fs'
              % (prop, ctx.tier, obligations, discharged, len(printed_known), len(ctx.rules), time.time() - t0))
    return 0


class BorrowedCtx(object):
    """A rule of another property that is a necessary condition of this one as well is run here under this property's own
    rule identifier (the same source construct breaks both behaviours; each property's check must report it on its own)."""

    def __init__(self, ctx, rename):
        self._ctx = ctx
        self._rename = rename          # {'C03.e': 'C05.e'}

    def _r(self, rule):
        for a, b in self._rename.items():
            if rule == a or rule.startswith(a):
                return b + rule[len(a):]
        return '%s<%s' % (self._ctx.prop, rule)

    def describe(self, rule, what, floor=None):
        return self._ctx.describe(self._r(rule), what + ' [shared with %s]' % rule, floor)

    def ob(self, rule, *a, **k):
        return self._ctx.ob(self._r(rule), *a, **k)

    def idiom(self, rule, *a, **k):
        return self._ctx.idiom(self._r(rule), *a, **k)

    def report(self, rule, *a, **k):
        return self._ctx.report(self._r(rule), *a, **k)

    def exception(self, rule, *a, **k):
        return self._ctx.exception(self._r(rule), *a, **k)

    def unmodelled(self, rule, *a, **k):
        return self._ctx.unmodelled(self._r(rule), *a, **k)

    def unresolved(self, rule, *a, **k):
        return self._ctx.unresolved(self._r(rule), *a, **k)

    def __getattr__(self, k):
        return getattr(self._ctx, k)
