"""E7 - finite abstract evaluation of selection algebra code.

A tiny syntax-directed interpreter over abstract values.  Subset states are
evaluated to *truth tables* over k Boolean atoms (k <= 3): the table of a state
is what its ``to_mask`` returns when each atom stands for the membership mask
of an elementary selection.  ``a & b`` on states is resolved through the class
model: ``SubsetState.__and__`` -> ``AndState(self, other)`` ->
``CompositeSubsetState.__init__`` -> ``CompositeSubsetState.to_mask`` ->
``AndState.op`` -> ``operator.and_``; a change at any level of that chain
changes the computed table.

Total on the straight-line code the repository uses; anything else raises
``Undecided`` (reported as ANALYSIS-ERROR by the caller, never a guess).
"""
import ast

from .index import AnalysisError, body_stmts, dotted_chain, unparse


class Undecided(AnalysisError):
    pass


# --- abstract values ----------------------------------------------------------

class Table(object):
    """A Boolean mask as a truth table over the atoms."""

    def __init__(self, bits, nrows):
        self.bits = bits & ((1 << nrows) - 1)
        self.nrows = nrows

    def __eq__(self, other):
        return isinstance(other, Table) and self.bits == other.bits and self.nrows == other.nrows

    def __hash__(self):
        return hash((self.bits, self.nrows))

    def AND(self, o):
        return Table(self.bits & o.bits, self.nrows)

    def OR(self, o):
        return Table(self.bits | o.bits, self.nrows)

    def XOR(self, o):
        return Table(self.bits ^ o.bits, self.nrows)

    def NOT(self):
        return Table(~self.bits, self.nrows)

    def __repr__(self):
        return format(self.bits, '0%db' % self.nrows)


def atoms(k):
    n = 1 << k
    out = []
    for i in range(k):
        bits = 0
        for r in range(n):
            if (r >> i) & 1:
                bits |= 1 << r
        out.append(Table(bits, n))
    return out


class Atom(object):
    """An elementary subset state whose mask is ``table``."""

    def __init__(self, table, name='atom'):
        self.table = table
        self.name = name
        self.attrs = {}

    def __repr__(self):
        return '<Atom %s>' % self.name


class Inst(object):
    """An instance of an in-package class built by abstractly running __init__."""

    def __init__(self, cls):
        self.cls = cls
        self.fields = {}

    def __repr__(self):
        return '<Inst %s %s>' % (self.cls.name, self.fields)


class SubsetV(object):
    """Something with a ``subset_state`` (Subset / SubsetGroup)."""

    def __init__(self, state=None, cls=None):
        self.state = state
        self.cls = cls
        self.attrs = {}


class Sym(object):
    """Opaque symbolic value (``data``, ``view``)."""

    def __init__(self, name):
        self.name = name

    def __repr__(self):
        return '<Sym %s>' % self.name


class Ref(object):
    """Reference to an external callable/constant by dotted name."""

    def __init__(self, dotted):
        self.dotted = dotted

    def __repr__(self):
        return '<Ref %s>' % self.dotted


class LambdaV(object):
    """A lambda expression closed over the environment it was written in."""

    def __init__(self, node, env):
        self.node = node
        self.env = env


class FuncV(object):
    def __init__(self, func, bound=None):
        self.func = func
        self.bound = bound


class _Return(Exception):
    def __init__(self, value):
        self.value = value


BIN_OPS = {
    'operator.and_': 'AND', 'operator.or_': 'OR', 'operator.xor': 'XOR',
    'operator.__and__': 'AND', 'operator.__or__': 'OR', 'operator.__xor__': 'XOR',
    'operator.iand': 'AND', 'operator.ior': 'OR', 'operator.ixor': 'XOR',
    'numpy.logical_and': 'AND', 'numpy.logical_or': 'OR', 'numpy.logical_xor': 'XOR',
    'numpy.bitwise_and': 'AND', 'numpy.bitwise_or': 'OR', 'numpy.bitwise_xor': 'XOR',
}
UN_OPS = {
    'operator.invert': 'NOT', 'operator.inv': 'NOT', 'operator.not_': 'NOT', 'operator.__invert__': 'NOT',
    'numpy.logical_not': 'NOT', 'numpy.invert': 'NOT', 'numpy.bitwise_not': 'NOT',
}
AST_BIN = {ast.BitAnd: ('AND', '__and__'), ast.BitOr: ('OR', '__or__'), ast.BitXor: ('XOR', '__xor__')}
OP_DUNDER = {'AND': '__and__', 'OR': '__or__', 'XOR': '__xor__', 'NOT': '__invert__'}


class BoolEval(object):
    def __init__(self, index, state_base='glue.core.subset.SubsetState', max_depth=40):
        self.index = index
        self.state_base = index.cls(state_base)
        self.trace = []
        self.depth = 0
        self.max_depth = max_depth
        self.forward_checks = []   # (construct, ok, detail)  argument forwarding in to_mask

    # -- entry points ----------------------------------------------------------
    def table_of(self, v):
        """Truth table of a state value."""
        if isinstance(v, Atom):
            return v.table
        if isinstance(v, Inst):
            if not v.cls.is_subclass_of(self.state_base):
                raise Undecided('%s is not a subset state' % v.cls.qualname)
            return self.eval_to_mask(v)
        raise Undecided('cannot take the mask of %r' % (v,))

    def eval_to_mask(self, inst):
        f = inst.cls.resolve_func('to_mask')
        if f is None:
            raise Undecided('%s has no to_mask' % inst.cls.qualname)
        self.trace.append('%s.to_mask -> %s' % (inst.cls.name, f.construct))
        params = f.params
        if len(params) < 2:
            raise Undecided('%s: unexpected signature' % f.construct)
        env = {params[0]: inst, params[1]: Sym('data')}
        viewname = params[2] if len(params) > 2 else None
        if viewname:
            env[viewname] = Sym('view')
        res = self.call_function(f, env)
        if not isinstance(res, Table):
            raise Undecided('%s does not return a mask expression the evaluator understands' % f.construct)
        return res

    TRANSPARENT_DECORATORS = ('glue.core.decorators.memoize', 'glue.core.contracts.contract',
                              'staticmethod', 'classmethod', 'property')

    def call_function(self, func, env):
        for d, dn in zip(func.decorators, func.decorator_nodes):
            if d not in self.TRANSPARENT_DECORATORS and not unparse(dn).endswith(('.setter', '.getter')):
                raise Undecided('%s: decorator %s is not known to be transparent' % (func.construct, unparse(dn)))
        self.depth += 1
        if self.depth > self.max_depth:
            raise Undecided('evaluation too deep at %s' % func.construct)
        try:
            frame = dict(env)
            frame['__func__'] = func
            try:
                self.exec_block(body_stmts(func.node), frame, func)
            except _Return as r:
                return r.value
            return None
        finally:
            self.depth -= 1

    # -- statements --------------------------------------------------------------
    def exec_block(self, stmts, env, func):
        for st in stmts:
            self.exec_stmt(st, env, func)

    def exec_stmt(self, st, env, func):
        if isinstance(st, ast.Return):
            raise _Return(self.eval(st.value, env, func) if st.value is not None else None)
        if isinstance(st, ast.Assign):
            val = self.eval(st.value, env, func)
            for t in st.targets:
                self.assign(t, val, env, func)
            return
        if isinstance(st, ast.AugAssign):
            cur = self.eval(st.target, env, func)
            rhs = self.eval(st.value, env, func)
            if type(st.op) in AST_BIN:
                val = self.binop(AST_BIN[type(st.op)][0], cur, rhs, func, inplace=True)
            elif isinstance(st.op, ast.Add) and isinstance(cur, (list, tuple)) and isinstance(rhs, (list, tuple)):
                val = type(cur)(list(cur) + list(rhs))
            else:
                raise Undecided('%s: unsupported augmented assignment %s' % (func.construct, unparse(st)))
            self.assign(st.target, val, env, func)
            return
        if isinstance(st, ast.Expr):
            if isinstance(st.value, ast.Constant):
                return
            if isinstance(st.value, ast.Call):
                # logging calls and similar: evaluated for effect only if understood
                fn = st.value.func
                last = fn.attr if isinstance(fn, ast.Attribute) else (fn.id if isinstance(fn, ast.Name) else '')
                if last in ('debug', 'info', 'warning', 'warn', 'error', 'log', 'print'):
                    return
                self.eval(st.value, env, func)
                return
            return
        if isinstance(st, ast.If):
            t = self.truth(st.test, env, func)
            self.exec_block(st.body if t else st.orelse, env, func)
            return
        if isinstance(st, ast.For):
            it = self.eval(st.iter, env, func)
            if not isinstance(it, (list, tuple)):
                raise Undecided('%s: loop over a non-list value %s' % (func.construct, unparse(st.iter)))
            for v in it:
                self.assign(st.target, v, env, func)
                self.exec_block(st.body, env, func)
            return
        if isinstance(st, ast.Raise):
            raise Undecided('%s: raises on the evaluated path (%s)' % (func.construct, unparse(st)))
        if isinstance(st, ast.ImportFrom):
            base = func.module._abs(st.level, st.module)
            for a in st.names:
                q = self.index.canonical(base + '.' + a.name)
                try:
                    env[a.asname or a.name] = self._global(q, st, func)
                except Undecided:
                    pass
            return
        if isinstance(st, (ast.Pass, ast.Import, ast.Assert)):
            return
        raise Undecided('%s: unsupported statement %s' % (func.construct, type(st).__name__))

    def assign(self, target, val, env, func):
        if isinstance(target, ast.Name):
            env[target.id] = val
            return
        if isinstance(target, (ast.Tuple, ast.List)):
            if not isinstance(val, (list, tuple)) or len(val) != len(target.elts):
                raise Undecided('%s: cannot unpack' % func.construct)
            for t, v in zip(target.elts, val):
                self.assign(t, v, env, func)
            return
        if isinstance(target, ast.Attribute):
            obj = self.eval(target.value, env, func)
            if isinstance(obj, Inst):
                m = obj.cls.resolve(target.attr)
                if m is not None and m.kind == 'property':
                    if m.fset is None:
                        raise Undecided('%s: store to read-only property %s' % (func.construct, target.attr))
                    p = m.fset.params
                    self.call_function(m.fset, {p[0]: obj, p[1]: val})
                    return
                obj.fields[target.attr] = val
                return
            if isinstance(obj, SubsetV):
                if target.attr == 'subset_state':
                    obj.state = val
                else:
                    obj.attrs[target.attr] = val
                return
            if isinstance(obj, Atom):
                obj.attrs[target.attr] = val      # e.g. new_state.parent = edit_subset
                return
            raise Undecided('%s: store to attribute of %r' % (func.construct, obj))
        raise Undecided('%s: unsupported assignment target %s' % (func.construct, unparse(target)))

    # -- expressions -----------------------------------------------------------
    def truth(self, test, env, func):
        if isinstance(test, ast.Compare) and len(test.ops) == 1 and isinstance(test.ops[0], (ast.Is, ast.IsNot)):
            a = self.eval(test.left, env, func)
            b = self.eval(test.comparators[0], env, func)
            same = (a is b) or (a is None and b is None)
            return same if isinstance(test.ops[0], ast.Is) else not same
        if isinstance(test, ast.UnaryOp) and isinstance(test.op, ast.Not):
            return not self.truth(test.operand, env, func)
        if isinstance(test, ast.BoolOp):
            vals = [self.truth(v, env, func) for v in test.values]
            return all(vals) if isinstance(test.op, ast.And) else any(vals)
        if isinstance(test, ast.Compare) and len(test.ops) == 1 and isinstance(test.ops[0], (ast.Lt, ast.Gt, ast.LtE, ast.GtE, ast.Eq, ast.NotEq)):
            a = self.eval(test.left, env, func)
            b = self.eval(test.comparators[0], env, func)
            if isinstance(a, int) and isinstance(b, int):
                op = type(test.ops[0])
                return {ast.Lt: a < b, ast.Gt: a > b, ast.LtE: a <= b, ast.GtE: a >= b,
                        ast.Eq: a == b, ast.NotEq: a != b}[op]
            raise Undecided('%s: cannot decide %s' % (func.construct, unparse(test)))
        v = self.eval(test, env, func)
        if v is None:
            return False
        if isinstance(v, (Atom, Inst, SubsetV)):
            return True
        if isinstance(v, (list, tuple)):
            return len(v) > 0
        if isinstance(v, bool):
            return v
        raise Undecided('%s: cannot decide truth of %s' % (func.construct, unparse(test)))

    def eval(self, e, env, func):
        if isinstance(e, ast.Constant):
            return e.value
        if isinstance(e, ast.Name):
            if e.id in env:
                return env[e.id]
            q = self.index.resolve_expr(func.module, e)
            return self._global(q, e, func)
        if isinstance(e, ast.Attribute):
            chain = dotted_chain(e)
            if chain and chain[0] not in env:
                q = self.index.resolve_expr(func.module, e)
                return self._global(q, e, func)
            obj = self.eval(e.value, env, func)
            return self.getattr(obj, e.attr, func, e)
        if isinstance(e, ast.Call):
            return self.eval_call(e, env, func)
        if isinstance(e, ast.BinOp) and type(e.op) in AST_BIN:
            a = self.eval(e.left, env, func)
            b = self.eval(e.right, env, func)
            return self.binop(AST_BIN[type(e.op)][0], a, b, func)
        if isinstance(e, ast.UnaryOp) and isinstance(e.op, ast.Invert):
            return self.unop(self.eval(e.operand, env, func), func)
        if isinstance(e, ast.UnaryOp) and isinstance(e.op, ast.USub):
            v = self.eval(e.operand, env, func)
            if isinstance(v, int):
                return -v
            raise Undecided('%s: unary minus on %r' % (func.construct, v))
        if isinstance(e, (ast.List, ast.Tuple)):
            out = []
            for x in e.elts:
                if isinstance(x, ast.Starred):
                    out.extend(self.eval(x.value, env, func))
                else:
                    out.append(self.eval(x, env, func))
            return out if isinstance(e, ast.List) else tuple(out)
        if isinstance(e, ast.ListComp) or isinstance(e, ast.GeneratorExp):
            if len(e.generators) != 1 or e.generators[0].ifs:
                raise Undecided('%s: unsupported comprehension' % func.construct)
            g = e.generators[0]
            it = self.eval(g.iter, env, func)
            if not isinstance(it, (list, tuple)):
                raise Undecided('%s: comprehension over non-list' % func.construct)
            out = []
            for v in it:
                sub = dict(env)
                self.assign(g.target, v, sub, func)
                out.append(self.eval(e.elt, sub, func))
            return out
        if isinstance(e, ast.Subscript):
            obj = self.eval(e.value, env, func)
            if isinstance(obj, (list, tuple)):
                s = e.slice
                if isinstance(s, ast.Constant) and isinstance(s.value, int):
                    return obj[s.value]
                if isinstance(s, ast.Slice):
                    def c(x):
                        if x is None:
                            return None
                        v = self.eval(x, env, func)
                        if not isinstance(v, int):
                            raise Undecided('%s: non-constant slice' % func.construct)
                        return v
                    return obj[slice(c(s.lower), c(s.upper), c(s.step))]
            if isinstance(obj, dict):
                k = self.eval(e.slice, env, func) if not isinstance(e.slice, ast.Constant) else e.slice.value
                if isinstance(k, (str, int)) and k in obj:
                    return obj[k]
            raise Undecided('%s: unsupported subscript %s' % (func.construct, unparse(e)))
        if isinstance(e, ast.IfExp):
            return self.eval(e.body if self.truth(e.test, env, func) else e.orelse, env, func)
        if isinstance(e, ast.Lambda):
            return LambdaV(e, dict(env))
        if isinstance(e, ast.BoolOp):
            # x or y / x and y with python semantics over abstract truthiness
            last = None
            for v in e.values:
                last = self.eval(v, env, func)
                t = self.truth(v, env, func)
                if isinstance(e.op, ast.Or) and t:
                    return last
                if isinstance(e.op, ast.And) and not t:
                    return last
            return last
        raise Undecided('%s: unsupported expression %s' % (func.construct, unparse(e)))

    def _global(self, q, e, func):
        if q is None:
            raise Undecided('%s: cannot resolve %s' % (func.construct, unparse(e)))
        if q == 'None':
            return None
        c = self.index.classes.get(q)
        if c is not None:
            return c
        f = self.index.functions.get(q)
        if f is not None:
            return FuncV(f)
        # a module-level table (`_COMBINERS = {'and': operator.and_, ...}`): its entries, evaluated in the module's scope
        modname, _, name = q.rpartition('.')
        mod = self.index.modules.get(modname)
        if mod is not None and isinstance(mod.assigns.get(name), ast.Dict):
            d = mod.assigns[name]
            if all(isinstance(k, ast.Constant) for k in d.keys):
                out = {}
                for k, v in zip(d.keys, d.values):
                    qv = self.index.resolve_expr(mod, v) if isinstance(v, (ast.Name, ast.Attribute)) else None
                    out[k.value] = self._global(qv, v, func) if qv is not None else Ref(unparse(v))
                return out
        return Ref(q)

    def getattr(self, obj, attr, func, node=None):
        if isinstance(obj, Atom):
            if attr == 'subset_state':
                return obj
            if attr in obj.attrs:
                return obj.attrs[attr]
            # methods of the base class on an elementary state
            m = self.state_base.resolve(attr)
            if m is not None and m.func is not None:
                return FuncV(m.func, bound=obj)
            raise Undecided('%s: attribute %s of an elementary state' % (func.construct, attr))
        if isinstance(obj, SubsetV):
            if attr == 'subset_state':
                if obj.state is None:
                    raise Undecided('%s: subset has no state yet' % func.construct)
                return obj.state
            if attr in obj.attrs:
                return obj.attrs[attr]
            raise Undecided('%s: attribute %s of a subset' % (func.construct, attr))
        if isinstance(obj, Inst):
            if attr in obj.fields:
                return obj.fields[attr]
            m = obj.cls.resolve(attr)
            if m is None:
                raise Undecided('%s: %s has no attribute %s' % (func.construct, obj.cls.name, attr))
            if m.kind == 'property':
                if attr == 'subset_state' and m.owner is self.state_base:
                    return obj
                return self.call_function(m.fget, {m.fget.params[0]: obj})
            if m.kind == 'attr':
                q = self.index.resolve_expr(m.owner.module, m.value) if m.value is not None else None
                if isinstance(m.value, ast.Constant):
                    return m.value.value
                if q is None:
                    raise Undecided('%s: class attribute %s.%s is not a plain reference' % (func.construct, m.owner.name, attr))
                self.trace.append('%s.%s = %s' % (m.owner.name, attr, q))
                return self._global(q, m.value, func)
            if m.func is not None:
                return FuncV(m.func, bound=obj)
        if isinstance(obj, Ref):
            return Ref(obj.dotted + '.' + attr)
        raise Undecided('%s: attribute %s of %r' % (func.construct, attr, obj))

    # -- operators -----------------------------------------------------------------
    def binop(self, op, a, b, func, inplace=False):
        if isinstance(a, Table) and isinstance(b, Table):
            return getattr(a, op)(b)
        if isinstance(a, (Atom, Inst)):
            return self._dunder(a, OP_DUNDER[op], [b], func)
        if isinstance(a, SubsetV):
            return self._dunder_subset(a, OP_DUNDER[op], [b], func)
        raise Undecided('%s: operator %s on %r and %r' % (func.construct, op, a, b))

    def unop(self, a, func):
        if isinstance(a, Table):
            return a.NOT()
        if isinstance(a, (Atom, Inst)):
            return self._dunder(a, '__invert__', [], func)
        if isinstance(a, SubsetV):
            return self._dunder_subset(a, '__invert__', [], func)
        raise Undecided('%s: ~ on %r' % (func.construct, a))

    def _dunder(self, a, name, args, func):
        cls = a.cls if isinstance(a, Inst) else self.state_base
        f = cls.resolve_func(name)
        if f is None:
            raise Undecided('%s: %s does not define %s' % (func.construct, cls.name, name))
        self.trace.append('%s.%s -> %s' % (cls.name, name, f.construct))
        params = f.params
        env = {params[0]: a}
        for p, v in zip(params[1:], args):
            env[p] = v
        return self.call_function(f, env)

    def _dunder_subset(self, a, name, args, func):
        if a.cls is None:
            raise Undecided('%s: operator on an untyped subset' % func.construct)
        f = a.cls.resolve_func(name)
        if f is None:
            raise Undecided('%s does not define %s' % (a.cls.name, name))
        self.trace.append('%s.%s -> %s' % (a.cls.name, name, f.construct))
        params = f.params
        env = {params[0]: a}
        for p, v in zip(params[1:], args):
            env[p] = v
        return self.call_function(f, env)

    # -- calls -----------------------------------------------------------------------
    def eval_call(self, e, env, func):
        f = e.func
        # super().m(...) / super(C, self).m(...)
        if isinstance(f, ast.Attribute) and isinstance(f.value, ast.Call) \
                and isinstance(f.value.func, ast.Name) and f.value.func.id == 'super':
            selfname = func.self_name
            obj = env.get(selfname)
            if not isinstance(obj, Inst) or func.cls is None:
                raise Undecided('%s: super() outside a modelled instance' % func.construct)
            m = obj.cls.resolve(f.attr, after=func.cls)
            if m is None or m.func is None:
                return None      # object.__init__ and friends
            args, kwargs = self.eval_args(e, env, func)
            return self.apply(FuncV(m.func, bound=obj), args, kwargs, func, e)
        # method call on a value
        if isinstance(f, ast.Attribute):
            chain = dotted_chain(f)
            if not (chain and chain[0] not in env):
                obj = self.eval(f.value, env, func)
                return self.call_method(obj, f.attr, e, env, func)
        callee = self.eval(f, env, func)
        args, kwargs = self.eval_args(e, env, func)
        return self.apply(callee, args, kwargs, func, e)

    def eval_args(self, e, env, func):
        args = []
        for a in e.args:
            if isinstance(a, ast.Starred):
                v = self.eval(a.value, env, func)
                if not isinstance(v, (list, tuple)):
                    raise Undecided('%s: *args of a non-list' % func.construct)
                args.extend(v)
            else:
                args.append(self.eval(a, env, func))
        kwargs = {}
        for k in e.keywords:
            if k.arg is None:
                raise Undecided('%s: **kwargs in call' % func.construct)
            kwargs[k.arg] = self.eval(k.value, env, func)
        return args, kwargs

    def call_method(self, obj, attr, e, env, func):
        if isinstance(obj, Table):
            if attr in ('copy', 'view', 'astype', 'reshape'):
                return obj
            raise Undecided('%s: mask method %s' % (func.construct, attr))
        if attr == 'copy' and isinstance(obj, (Atom, Inst)) and not e.args and not e.keywords:
            # SubsetState.copy is modelled as the identity on the truth table;
            # that it really preserves the selection is rule C01.d(ii)/(iii).
            return obj
        if attr == 'to_mask' and isinstance(obj, (Atom, Inst)):
            args, kwargs = self.eval_args(e, env, func)
            ok = (len(args) >= 1 and isinstance(args[0], Sym) and args[0].name == 'data')
            view = args[1] if len(args) > 1 else kwargs.get('view')
            ok = ok and isinstance(view, Sym) and view.name == 'view' and set(kwargs) <= {'view'} and len(args) <= 2
            self.forward_checks.append((func.construct, ok, unparse(e)))
            return self.table_of(obj)
        if isinstance(obj, (Atom, Inst, SubsetV)):
            m = self.getattr(obj, attr, func, e)
            args, kwargs = self.eval_args(e, env, func)
            return self.apply(m, args, kwargs, func, e)
        if isinstance(obj, list) and attr == 'append':
            args, _ = self.eval_args(e, env, func)
            obj.append(args[0])
            return None
        if isinstance(obj, Ref):
            args, kwargs = self.eval_args(e, env, func)
            return self.apply(Ref(obj.dotted + '.' + attr), args, kwargs, func, e)
        raise Undecided('%s: call of %s on %r' % (func.construct, attr, obj))

    def apply(self, callee, args, kwargs, func, e):
        if isinstance(callee, LambdaV):
            a = callee.node.args
            if a.vararg or a.kwarg or a.kwonlyargs or kwargs or len(a.args) != len(args):
                raise Undecided('%s: unsupported lambda call' % func.construct)
            sub = dict(callee.env)
            for p, v in zip(a.args, args):
                sub[p.arg] = v
            return self.eval(callee.node.body, sub, func)
        if isinstance(callee, Ref):
            d = callee.dotted
            if d in BIN_OPS and len(args) == 2:
                return self.binop(BIN_OPS[d], args[0], args[1], func)
            if d in UN_OPS and len(args) == 1:
                return self.unop(args[0], func)
            if d in ('numpy.logical_or.reduce', 'numpy.bitwise_or.reduce') and len(args) == 1 \
                    and isinstance(args[0], (list, tuple)) and all(isinstance(x, Table) for x in args[0]) and args[0]:
                acc = args[0][0]
                for t in args[0][1:]:
                    acc = acc.OR(t)
                return acc
            if d in ('functools.reduce', 'reduce') and len(args) >= 2 and isinstance(args[1], (list, tuple)):
                seq = list(args[1])
                if len(args) == 3:
                    seq = [args[2]] + seq
                acc = seq[0]
                for t in seq[1:]:
                    acc = self.apply(args[0], [acc, t], {}, func, e)
                return acc
            if d in ('numpy.require', 'numpy.asarray', 'numpy.asanyarray', 'numpy.array', 'numpy.ascontiguousarray', 'numpy.copy') \
                    and args and isinstance(args[0], Table):
                return args[0]      # identity on the values of a mask (aliasing is rule C01.d(iv)'s business)
            if d in ('len',) and len(args) == 1 and isinstance(args[0], (list, tuple)):
                return len(args[0])
            if d in ('list', 'tuple') and len(args) == 1 and isinstance(args[0], (list, tuple)):
                return list(args[0]) if d == 'list' else tuple(args[0])
            if d.endswith('as_list') and len(args) == 1:
                return args[0] if isinstance(args[0], list) else [args[0]]
            if d in ('isinstance',):
                raise Undecided('%s: isinstance on abstract value' % func.construct)
            raise Undecided('%s: call of external %s' % (func.construct, d))
        if isinstance(callee, FuncV):
            f = callee.func
            params = list(f.params)
            env = {}
            pos = list(args)
            if callee.bound is not None:
                pos = [callee.bound] + pos
            a = f.node.args
            defaults = dict(zip(params[len(params) - len(a.defaults):], a.defaults))
            for p, v in zip(params, pos):
                env[p] = v
            if len(pos) > len(params):
                if a.vararg is None:
                    raise Undecided('%s: too many arguments for %s' % (func.construct, f.construct))
                env[a.vararg.arg] = tuple(pos[len(params):])
            elif a.vararg is not None:
                env[a.vararg.arg] = ()
            for k, v in kwargs.items():
                env[k] = v
            for p in params:
                if p not in env:
                    if p in defaults:
                        env[p] = self.eval(defaults[p], {}, f)
                    else:
                        raise Undecided('%s: missing argument %s for %s' % (func.construct, p, f.construct))
            self.trace.append('call %s' % f.construct)
            return self.call_function(f, env)
        if callee.__class__.__name__ == 'Class':
            return self.instantiate(callee, args, kwargs, func)
        raise Undecided('%s: cannot call %r' % (func.construct, callee))

    def instantiate(self, cls, args, kwargs, func):
        subset_base = self.index.classes.get('glue.core.subset.Subset')
        if subset_base is not None and cls.is_subclass_of(subset_base):
            return SubsetV(cls=cls)
        inst = Inst(cls)
        m = cls.resolve('__init__')
        self.trace.append('new %s' % cls.name)
        if m is None or m.func is None:
            if args or kwargs:
                raise Undecided('%s() takes no arguments' % cls.name)
            return inst
        self.apply(FuncV(m.func, bound=inst), args, kwargs, func, None)
        return inst
