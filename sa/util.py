"""Small syntactic helpers shared by the rule modules."""
import ast

from .index import AnalysisError, dotted_chain, norm, unparse, walk_no_nested, body_stmts


def returns_of(func):
    return [n for n in walk_no_nested(func.node) if isinstance(n, ast.Return)]


def calls_in(node, nested=False):
    it = ast.walk(node) if nested else walk_no_nested(node)
    out = [n for n in it if isinstance(n, ast.Call)]
    if isinstance(node, ast.Call) and not nested:
        out.insert(0, node)
    return out


def call_name(call):
    """Last attribute / name of the callee ('a.b.c(...)' -> 'c')."""
    f = call.func
    if isinstance(f, ast.Attribute):
        return f.attr
    if isinstance(f, ast.Name):
        return f.id
    return None


def callee_chain(call):
    return dotted_chain(call.func)


def is_self_attr(node, selfname, attr=None):
    return (isinstance(node, ast.Attribute) and isinstance(node.value, ast.Name)
            and node.value.id == selfname and (attr is None or node.attr == attr))


def kwarg(call, name):
    for k in call.keywords:
        if k.arg == name:
            return k.value
    return None


def arg_or_kw(call, pos, name):
    if pos is not None and len(call.args) > pos and not any(isinstance(a, ast.Starred) for a in call.args[:pos + 1]):
        return call.args[pos]
    return kwarg(call, name)


def where(func_or_cls, node=None):
    line = node.lineno if node is not None and hasattr(node, 'lineno') else func_or_cls.node.lineno
    return '%s:%d' % (func_or_cls.module.relpath, line)


def mentions(node, name):
    return any(isinstance(n, ast.Name) and n.id == name for n in ast.walk(node))


def mentions_attr(node, selfname, attr):
    return any(is_self_attr(n, selfname, attr) for n in ast.walk(node))


def parent_map(root):
    pm = {}
    for n in ast.walk(root):
        for c in ast.iter_child_nodes(n):
            pm[id(c)] = n
    return pm


def enclosing(pm, node, types):
    cur = pm.get(id(node))
    while cur is not None:
        if isinstance(cur, types):
            return cur
        cur = pm.get(id(cur))
    return None


def ancestors(pm, node):
    out = []
    cur = pm.get(id(node))
    while cur is not None:
        out.append(cur)
        cur = pm.get(id(cur))
    return out


def in_finally(pm, node):
    """True when ``node`` sits inside the ``finally`` block of some enclosing try."""
    child = node
    cur = pm.get(id(node))
    while cur is not None:
        if isinstance(cur, ast.Try) and any(child is s for s in cur.finalbody):
            return cur
        child = cur
        cur = pm.get(id(cur))
    return None


def in_try_body(pm, node):
    child = node
    cur = pm.get(id(node))
    while cur is not None:
        if isinstance(cur, ast.Try) and any(child is s for s in cur.body):
            return cur
        child = cur
        cur = pm.get(id(cur))
    return None


def dict_literal_keys(node):
    """Keys of ``dict(k=v, ...)`` / ``{'k': v}`` literals -> {key: value node}; None if not a literal."""
    if isinstance(node, ast.Dict):
        out = {}
        for k, v in zip(node.keys, node.values):
            if k is None:
                return None
            if isinstance(k, ast.Constant) and isinstance(k.value, str):
                out[k.value] = v
            else:
                return None
        return out
    if isinstance(node, ast.Call) and isinstance(node.func, ast.Name) and node.func.id == 'dict' and not node.args:
        out = {}
        for k in node.keywords:
            if k.arg is None:
                return None
            out[k.arg] = k.value
        return out
    return None


def const_str(node):
    if isinstance(node, ast.Constant) and isinstance(node.value, str):
        return node.value
    return None


def require(cond, msg):
    if not cond:
        raise AnalysisError(msg)


def guard_chain(pm, node, stop):
    """The If/For/While/Try ancestors of node up to (excluding) stop, innermost first,
    with the branch taken: [(ancestor, 'body'|'orelse'|'handler'|'finally')]."""
    out = []
    child = node
    cur = pm.get(id(node))
    while cur is not None and cur is not stop:
        if isinstance(cur, (ast.If, ast.For, ast.While, ast.Try, ast.With, ast.ExceptHandler)):
            branch = None
            for fld in ('body', 'orelse', 'finalbody', 'handlers'):
                seq = getattr(cur, fld, None)
                if seq and any(child is s for s in seq):
                    branch = fld
            out.append((cur, branch))
        child = cur
        cur = pm.get(id(cur))
    return out
